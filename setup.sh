#!/bin/sh
# Build the overlay venv used by every check: /venv's packages + /repo/src + z3 (offline wheelhouse).
set -e
cd "$(dirname "$0")"
if [ ! -x .venv/bin/python ] || ! .venv/bin/python -c "import z3" 2>/dev/null; then
  rm -rf .venv
  /venv/bin/python -m venv .venv
  SP=$(.venv/bin/python -c "import site; print(site.getsitepackages()[0])")
  printf '/venv/lib/python3.12/site-packages\n' > "$SP/vf_overlay.pth"
  PIP_NO_INDEX=1 .venv/bin/pip install -q --no-index --find-links /opt/veriftools/wheels z3-solver cvc5 >/dev/null
fi
.venv/bin/python -c "import z3, lark; print('verif venv ok: z3', z3.get_version_string())"
