#!/usr/bin/env python3
"""Regenerate MANIFEST.json from the property modules (run with .venv/bin/python tools/gen_manifest.py)."""
import importlib, json, os, sys
HERE = os.path.dirname(os.path.dirname(os.path.abspath(__file__)))
sys.path.insert(0, HERE)
props = [json.loads(l) for l in open(os.path.join(HERE, "properties.jsonl"))]
NA = json.load(open(os.path.join(HERE, "tools", "not_applicable.json")))
checks, na = [], []
ENG = {"symex": "E1 symex", "cfgsat": "E2 cfgsat", "sched": "E3 sched"}
serves = {k: [] for k in ENG}
for p in props:
    pid = p["id"]
    path = os.path.join(HERE, "vf", "props", pid.lower() + ".py")
    if pid in NA or not os.path.exists(path):
        na.append({"property_id": pid, "reason": NA.get(pid, "check not built yet (build in progress)")})
        continue
    m = importlib.import_module(f"vf.props.{pid.lower()}")
    if not hasattr(m, "MANIFEST"):
        na.append({"property_id": pid, "reason": "check not integrated yet (build in progress)"})
        continue
    mf = m.MANIFEST
    eng = getattr(m, "ENGINE", "symex")
    serves[eng].append(pid)
    checks.append({
        "property_id": pid,
        "quick_cmd": f"./check {pid} --tier quick",
        "thorough_cmd": f"./check {pid} --tier thorough",
        "evidence_file": f"/verif/evidence/{pid}.json",
        "replay_cmd_template": f"./check {pid} --replay {{path}}",
        "engine": ENG[eng],
        "level_claimed": {"category": m.LEVEL, "text": mf["text"], "design_ref": mf.get("design_ref", "DESIGN.md §7")},
        "level_note": mf["note"],
        "technique": mf["technique"],
    })
man = {
    "version": 1,
    "setup_cmd": "./setup.sh",
    "hooks": {"guard": "CEL_PYTHON_VERIF", "enable": "none needed: checks shadow-load $VERIF_REPO/src (default /repo/src) externally; no hook code exists in /repo",
              "baseline_off_cmd": "cd /repo && /venv/bin/python -m pytest -ra -q -p no:cacheprovider --timeout=900 --continue-on-collection-errors",
              "source_commits": [], "add_only": True},
    "engines": [
        {"name": "E1 symex", "path": "vf/sym, vf/explore.py", "serves_properties": serves["symex"],
         "kind_free_text": "concolic symbolic execution of the real celpy/xlate byte-code via shadow-loaded modules; z3 decides every path obligation; counterexamples replayed on the un-shadowed code"},
        {"name": "E2 cfgsat", "path": "vf/cfgsat", "serves_properties": serves["cfgsat"],
         "kind_free_text": "bounded SAT (CYK-style) encoding of the grammar Lark compiled from cel.lark vs a reference CEL grammar"},
        {"name": "E3 sched", "path": "vf/sched", "serves_properties": serves["sched"],
         "kind_free_text": "SMT encoding of thread interleavings over shared-state events extracted from the real byte-code; forced-schedule replay"},
    ],
    "checks": checks,
    "notes": "Known findings and fixed defects: known_findings.json. Exit 3 = harness/self-check error (inconclusive), never a verdict. VERIF_REPO overrides the repository root (used to run checks against scratch worktrees).",
    "not_applicable": na,
}
json.dump(man, open(os.path.join(HERE, "MANIFEST.json"), "w"), indent=1)
print("checks:", [c["property_id"] for c in checks], "n/a:", [n["property_id"] for n in na])
