#!/bin/sh
# tools/mut.sh <name> <prop> [tier]   -- expects a patch on stdin or an already prepared worktree /tmp/wt_<name>
# usage: tools/mut.sh NAME PROP < patch.diff      (applies patch in a scratch worktree, runs the check, removes it)
NAME=$1; PROP=$2; TIER=${3:-quick}
WT=/tmp/wt_$NAME
git -C /repo worktree remove --force $WT 2>/dev/null
git -C /repo worktree add -q $WT HEAD || exit 9
(cd $WT && git apply -) || { echo "patch failed"; git -C /repo worktree remove --force $WT; exit 9; }
(cd $WT && /venv/bin/python -m pytest -q -p no:cacheprovider -x tests 2>&1 | tail -1)
VERIF_REPO=$WT VERIF_EVIDENCE_DIR=/tmp/ev_$NAME /verif/check $PROP --tier $TIER 2>&1 | grep -E "VIOLATION|HARNESS|KNOWN|$PROP $TIER" | cut -c1-400 | head -${MUT_LINES:-8}
echo "exit=$?"
git -C /repo worktree remove --force $WT; rm -rf /tmp/ev_$NAME
