#!/bin/bash
# tools/r_eval.sh <round dir> <PROP>...  -- evaluate every candidate under <round dir>/out_<PROP>/*/ with tools/seed_eval.sh, logging to <round dir>/eval_<PROP>_<name>.log
R=$1; shift
for P in "$@"; do
  for D in $R/out_$P/*/; do
    D=${D%/}; N=$(basename $D)
    [ -f $D/patch.diff ] || continue
    [ -f $R/eval_${P}_$N.log ] && continue
    /verif/tools/seed_eval.sh $P $D > $R/eval_${P}_$N.log 2>&1
  done
done
