#!/bin/bash
# tools/run_all.sh [tier] -- run every registered check sequentially; summary lines only
TIER=${1:-quick}
cd "$(dirname "$0")/.."
for P in $(python3 -c "import json; print(' '.join(c['property_id'] for c in json.load(open('MANIFEST.json'))['checks']))"); do
  S=$(date +%s)
  ./check $P --tier $TIER > /tmp/runall_$P.log 2>&1; RC=$?
  echo "$P exit=$RC $(( $(date +%s) - S ))s $(grep -c '^VIOLATION' /tmp/runall_$P.log) viol $(grep -c '^HARNESS' /tmp/runall_$P.log) herr | $(tail -1 /tmp/runall_$P.log | cut -c1-150)"
done
