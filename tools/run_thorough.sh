#!/bin/bash
# tools/run_thorough.sh [ids...] -- every thorough tier end to end, one after the other, with a wall-clock cap per check
cd "$(dirname "$0")/.."
CAP=${CAP:-2700}
IDS=${@:-C16 C08 C14 C20 C19 C09 C10 C15 C17 C01 C06 C07 C12 C11 C02 C05 C18 C13 C04 C03}
for P in $IDS; do
  S=$(date +%s)
  timeout $CAP ./check $P --tier thorough > /tmp/thorough_$P.log 2>&1; RC=$?
  echo "$P exit=$RC $(( $(date +%s) - S ))s $(grep -c '^VIOLATION' /tmp/thorough_$P.log) viol $(grep -c '^HARNESS' /tmp/thorough_$P.log) herr | $(grep "^$P thorough" /tmp/thorough_$P.log | tail -1 | cut -c1-200)"
done
