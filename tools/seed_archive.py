#!/usr/bin/env python3
"""tools/seed_archive.py <id> <property> <srcdir> <detected-by csv> <needs text> [<strengthening note>]
Archive a confirmed seeded mutation under /verif/seeded/<id>/ (patch.diff, demo.py, notes.md, meta.json)."""
import json, os, shutil, subprocess, sys
sid, prop, src, detected, needs = sys.argv[1:6]
note = sys.argv[6] if len(sys.argv) > 6 else ""
dst = os.path.join(os.path.dirname(os.path.dirname(os.path.abspath(__file__))), "seeded", sid)
os.makedirs(dst, exist_ok=True)
for f in ("patch.diff", "demo.py", "notes.md"):
    if os.path.exists(os.path.join(src, f)):
        shutil.copy(os.path.join(src, f), os.path.join(dst, f))
head = subprocess.check_output(["git", "-C", "/repo", "log", "-1", "--format=%h"]).decode().strip()
meta = {
    "id": sid, "breaks_property": prop, "needs_to_manifest": needs,
    "author": "independent sub-agent given only the property text and a scratch worktree",
    "confirmed": {"repo_head_when_confirmed": head,
                  "ran": ["tools/seed_eval.sh (scratch worktree of /repo HEAD): git apply patch.diff; PYTHONPATH=src /venv/bin/python -m pytest -q tests -> 432 passed, 1 skipped",
                          "demo.py exits 0 on the unmutated tree and 1 on the mutated tree",
                          "VERIF_REPO=<worktree> ./check <prop> --tier quick -> exit 1 with VIOLATION lines (replayed in the clean interpreter)"]},
    "detected_by": [d for d in detected.split(",") if d],
    "strengthening": note,
}
json.dump(meta, open(os.path.join(dst, "meta.json"), "w"), indent=1)
print("archived", dst)
