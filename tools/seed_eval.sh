#!/bin/bash
# tools/seed_eval.sh <PROP> <mutation dir> [check props...]  -- confirm a candidate mutation and run checks against it
PROP=$1; MD=$2; shift 2; CHECKS=${@:-$PROP}
NAME=$(basename $(dirname $MD))_$(basename $MD)
WT=/tmp/wt_seed_$NAME
git -C /repo worktree remove --force $WT 2>/dev/null
git -C /repo worktree add -q $WT HEAD || exit 9
cd $WT
echo "== $MD"
PYTHONPATH=src /venv/bin/python $MD/demo.py >/tmp/seed_demo0_$NAME.log 2>&1; echo "demo on unmutated HEAD: exit $?"
if ! git apply $MD/patch.diff 2>/dev/null; then
  if ! git apply --3way $MD/patch.diff 2>/dev/null; then echo "PATCH DOES NOT APPLY"; cd /; git -C /repo worktree remove --force $WT; exit 8; fi
fi
T=$(PYTHONPATH=src /venv/bin/python -m pytest -q -p no:cacheprovider tests 2>&1 | tail -1); echo "tests with mutation: $T"
PYTHONPATH=src /venv/bin/python $MD/demo.py >/tmp/seed_demo1_$NAME.log 2>&1; echo "demo on mutated: exit $?"
for C in $CHECKS; do
  VERIF_REPO=$WT VERIF_EVIDENCE_DIR=/tmp/ev_seed_$NAME /verif/check $C --tier ${TIER:-quick} > /tmp/seed_check_${NAME}_$C.log 2>&1; RC=$?
  echo "check $C exit=$RC  $(grep -c '^VIOLATION' /tmp/seed_check_${NAME}_$C.log) violations; $(grep -c '^HARNESS' /tmp/seed_check_${NAME}_$C.log) harness errors"
  grep -A1 '^VIOLATION' /tmp/seed_check_${NAME}_$C.log | grep obligation | cut -c1-260 | head -3
  grep '^HARNESS' /tmp/seed_check_${NAME}_$C.log | cut -c1-260 | head -2
done
cd /; git -C /repo worktree remove --force $WT; rm -rf /tmp/ev_seed_$NAME
