#!/bin/bash
# tools/seed_matrix.sh [ids...]  -- re-run the owning property's quick check against every archived seeded change
# (each in a scratch worktree of /repo HEAD that is removed afterwards); writes seeded/MATRIX.md
cd /verif
OUT=seeded/MATRIX.md
IDS=${@:-$(ls seeded | grep -v MATRIX)}
TMP=$(mktemp)
for ID in $IDS; do
  D=seeded/$ID
  [ -f $D/patch.diff ] || continue
  P=$(python3 -c "import json;print(json.load(open('$D/meta.json'))['breaks_property'])")
  WT=/tmp/wt_matrix_$ID
  git -C /repo worktree remove --force $WT 2>/dev/null
  git -C /repo worktree add -q $WT HEAD || { echo "| $ID | $P | worktree failed | | |" >> $TMP; continue; }
  if ! (cd $WT && (git apply $OLDPWD/$D/patch.diff 2>/dev/null || git apply --3way $OLDPWD/$D/patch.diff 2>/dev/null)); then
    echo "| $ID | $P | patch no longer applies to HEAD | | |" >> $TMP
    git -C /repo worktree remove --force $WT; continue
  fi
  T=$(cd $WT && PYTHONPATH=src /venv/bin/python -m pytest -q -p no:cacheprovider tests 2>&1 | tail -1 | sed 's/ in .*//')
  S=$(date +%s)
  VERIF_REPO=$WT VERIF_EVIDENCE_DIR=/tmp/ev_matrix_$ID ./check $P --tier quick --no-fidelity > /tmp/matrix_$ID.log 2>&1; RC=$?
  E=$(( $(date +%s) - S ))
  NV=$(grep -c '^VIOLATION' /tmp/matrix_$ID.log); NH=$(grep -c '^HARNESS' /tmp/matrix_$ID.log)
  OB=$(grep -A1 '^VIOLATION' /tmp/matrix_$ID.log | grep -o 'obligation=[^ ]*' | sort | uniq -c | sort -rn | head -2 | awk '{print $2}' | sed 's/obligation=//' | tr '\n' ' ')
  echo "| $ID | $P | $T | exit $RC, $NV violations, $NH harness errors, ${E}s | $OB |" >> $TMP
  git -C /repo worktree remove --force $WT; rm -rf /tmp/ev_matrix_$ID /tmp/matrix_$ID.log
done
{
  echo "# Seeded changes vs. checks"
  echo
  echo "Each row: the archived change applied to a scratch worktree of /repo HEAD ($(git -C /repo log -1 --format=%h)), the repository's own tests with it, and"
  echo "\`VERIF_REPO=<worktree> ./check <property> --tier quick --no-fidelity\`. Regenerate with tools/seed_matrix.sh."
  echo
  echo "| seeded change | property | repository tests with the change | owning check (quick) | first violated obligations |"
  echo "|---|---|---|---|---|"
  cat $TMP
} > $OUT
rm -f $TMP
