"""E2 cfgsat: bounded SAT encoding of the grammar Lark compiled from cel.lark versus a reference CEL grammar (C06)."""
