"""Bounded CYK-style SAT encoding of context-free grammars over a symbolic token string (engine E2, property C06).

The real grammar G is whatever Lark compiled from $VERIF_REPO/src/celpy/cel.lark on this run
(`CELParser.CEL_PARSER.rules`); the reference grammar R is transcribed from the CEL language definition.
For a word w[0..N) of exactly N symbolic tokens (bit-vectors) `encode` defines, with one fresh Boolean per definition,
  D[A,i,j]  "A derives w[i..j)"                      (bottom-up CYK recurrence; no epsilon productions)
  U[A,i,j]  "node (A,i,j) occurs in a parse of w"    (top-down from U[start,0,N])
and `structure` turns the in-tree production applications into operator facts (kind, operator token position, node span).
"""
import collections
import logging
import os
import sys

import z3

# sample lexeme per regex terminal, varied by token position k so that operands are distinguishable after rendering
SAMPLE = {
    "INT_LIT": lambda k: str(k + 1), "UINT_LIT": lambda k: f"{k + 1}u", "FLOAT_LIT": lambda k: f"{k + 1}.5",
    "STRING_LIT": lambda k: f'"s{k}"', "MLSTRING_LIT": lambda k: f'"""m{k}"""', "BYTES_LIT": lambda k: f'b"x{k}"',
    "BOOL_LIT": lambda k: "false" if k % 2 else "true", "NULL_LIT": lambda k: "null",
    "IDENT": lambda k: "abcdefghijklmnopqrstuvwxyz"[k % 26],
}

# alternative spellings per literal terminal (dump round trip only): raw line breaks inside triple-quoted literals, both quote
# characters, raw / bytes prefixes in both cases, escapes, hexadecimal and exponent forms
NL = chr(10)
VARIANTS = {
    "STRING_LIT": ["'q{k}'", 'r"a\\d{k}"', '"a\\n{k}"', "R'{k}\\'", '"\\"{k}"', '"tab\t{k}"'],
    "MLSTRING_LIT": ['"""a' + NL + 'b{k}"""', "\'\'\'x\"y{k}\'\'\'", 'r"""a' + NL + '\\{k}"""', '"""' + NL + NL + '{k}"""',
                     "\'\'\'a\r" + NL + "{k}\'\'\'", '"""a\\n{k}"""'],
    "BYTES_LIT": ["b'y{k}'", 'b"""a' + NL + '{k}"""', 'br"\\x{k}"', "B'\\x41{k}'", "bR\'\'\'" + NL + "{k}\'\'\'", 'b"\\377{k}"'],
    "INT_LIT": ["0x{k}F", "0x{k}A", "{k}0", "0{k}", "00", "9223372036854775807"],
    "UINT_LIT": ["{k}U", "0x{k}u", "0{k}u", "{k}0U", "0u", "18446744073709551615u"],
    "FLOAT_LIT": ["{k}e3", "{k}.0E-2", ".{k}5", "{k}.5e+1", "0.0", "{k}e0"],
    "IDENT": ["_{k}", "a_{k}b", "A{k}", "trueish{k}", "nullable{k}", "in_{k}"],
}


class Real:
    """The grammar Lark built for CELParser, regenerated from the current source tree."""

    def __init__(self):
        src = os.path.join(os.environ.get("VERIF_REPO", "/repo"), "src")
        if not sys.path or sys.path[0] != src:
            sys.path.insert(0, src)
        import celpy
        if not os.path.realpath(celpy.__file__).startswith(os.path.realpath(src) + os.sep):
            raise RuntimeError(f"celpy was imported from {celpy.__file__}, not from {src}")
        records = []
        handler = logging.Handler()
        handler.emit = lambda rec: records.append(f"{rec.levelname} {rec.getMessage()}")
        lg = logging.getLogger("lark")
        saved = (logging.root.manager.disable, lg.level, lg.handlers, lg.propagate)
        logging.disable(logging.NOTSET)
        lg.handlers, lg.propagate = [handler], False
        lg.setLevel(logging.DEBUG)
        try:
            celpy.CELParser.CEL_PARSER = None
            self.parser = celpy.CELParser()
        finally:
            lg.handlers, lg.propagate = saved[2], saved[3]
            lg.setLevel(saved[1])
            logging.disable(saved[0])
        self.celpy = celpy
        L = self.lark = celpy.CELParser.CEL_PARSER
        self.lalr_log = records
        self.conflicts = [r for r in records if "conflict" in r.lower() or "collision" in r.lower()]
        self.prods = [(r.origin.name, tuple(s.name for s in r.expansion), tuple(s.is_term for s in r.expansion))
                      for r in L.rules]
        self.node = [str(r.alias or r.origin.name) for r in L.rules]   # name of the tree node each production builds
        self.start = L.options.start[0]
        ignored = set(L.ignore_tokens)
        self.terms = [t.name for t in L.terminals if t.name not in ignored]
        self.lexeme = {}  # terminal name -> function(position) -> text
        for t in L.terminals:
            if t.name in ignored:
                continue
            if type(t.pattern).__name__ == "PatternStr":
                self.lexeme[t.name] = (lambda v: lambda k: v)(t.pattern.value)
            elif t.name in SAMPLE:
                self.lexeme[t.name] = SAMPLE[t.name]
        self.pat2name = {t.pattern.value: t.name for t in L.terminals if type(t.pattern).__name__ == "PatternStr"}

    def terminal(self, s):
        """terminal name for a reference-grammar symbol given as literal text or terminal name; a terminal the real
        grammar no longer has becomes a reference-only terminal (any reference word using it is then a q2 witness)"""
        name = self.pat2name.get(s, s)
        if name not in self.terms:
            self.terms.append(name)
            self.lexeme[name] = SAMPLE.get(name, lambda k, s=s: s)
        return name

    def render(self, names, variant=0):
        """token names -> (text with single spaces between sample lexemes, char offset of every token);
        variant > 0 spells the literal terminals with the alternative spelling VARIANTS[terminal][variant - 1]"""
        parts, offs, pos = [], [], 0
        for k, nm in enumerate(names):
            if nm not in self.lexeme:
                raise RuntimeError(f"no sample lexeme for terminal {nm}")
            lx = self.lexeme[nm](k)
            if variant and nm in VARIANTS:
                lx = VARIANTS[nm][(variant - 1) % len(VARIANTS[nm])].replace("{k}", str(k))
            parts.append(lx)
            offs.append(pos)
            pos += len(lx) + 1
        return " ".join(parts), offs


class Grammar:
    def __init__(self, prods, start, anchors):
        self.prods = prods          # list of (A, (symbols...), (is_term...))
        self.start = start
        self.anchors = anchors      # production index -> [(child index, kind, 'own' | 'parent')]
        self.nts = sorted({p[0] for p in prods})
        unit = collections.defaultdict(set)
        for A, syms, ist in prods:
            assert syms, f"epsilon production for {A} is not supported by the encoding"
            if len(syms) == 1 and not ist[0]:
                unit[A].add(syms[0])
        self.order, seen = [], set()   # unit-production targets first

        def visit(a, stack=()):
            if a in stack:
                raise RuntimeError(f"unit-production cycle through {a}: the grammar is infinitely ambiguous")
            if a in seen:
                return
            for b in sorted(unit[a]):
                visit(b, stack + (a,))
            seen.add(a)
            self.order.append(a)
        for a in self.nts:
            visit(a)
        self.by_origin = collections.defaultdict(list)
        for pidx, p in enumerate(prods):
            self.by_origin[p[0]].append(pidx)


class Enc:
    """result of `encode`: defs (definitional equalities), D, U, apps = [(pidx, i, j, splits, in-tree Bool)], node_apps"""


def encode(g, tok, N, tag):
    """tok(i, terminal) -> z3 Bool 'token i is that terminal'.  Word length is exactly N."""
    e = Enc()
    e.defs, e.D = [], {}
    cnt = [0]

    def fresh(term):
        cnt[0] += 1
        v = z3.Bool(f"{tag}{cnt[0]}")
        e.defs.append(v == term)
        return v

    def splits_of(syms, ist, i, j):
        """all ways to lay the symbols over w[i..j): terminals have width 1, nonterminals need a defined D"""
        k = len(syms)

        def rec(m, pos, conds, spl):
            if m == k:
                if pos == j:
                    yield conds, spl
                return
            rest = k - m - 1
            if ist[m]:
                if pos + 1 + rest <= j:
                    yield from rec(m + 1, pos + 1, conds + [tok(pos, syms[m])], spl + [(pos, pos + 1)])
            else:
                for q in range(pos + 1, j - rest + 1):
                    c = e.D.get((syms[m], pos, q))
                    if c is not None:
                        yield from rec(m + 1, q, conds + [c], spl + [(pos, q)])
        return rec(0, i, [], [])

    node_apps = collections.defaultdict(list)   # (A,i,j) -> [(pidx, splits, 'this production/split derives' Bool)]
    for ln in range(1, N + 1):
        for i in range(0, N - ln + 1):
            j = i + ln
            for A in g.order:
                for pidx in g.by_origin[A]:
                    _, syms, ist = g.prods[pidx]
                    if len(syms) > ln:
                        continue
                    for conds, spl in splits_of(syms, ist, i, j):
                        cv = fresh(z3.And(conds)) if len(conds) > 1 else conds[0]
                        node_apps[(A, i, j)].append((pidx, spl, cv))
                alts = [cv for _, _, cv in node_apps.get((A, i, j), [])]
                if alts:
                    e.D[(A, i, j)] = fresh(z3.Or(alts)) if len(alts) > 1 else alts[0]
    e.acc = e.D.get((g.start, 0, N), z3.BoolVal(False))
    # in-tree, top-down (unit parents before their targets)
    pend = collections.defaultdict(list)
    pend[(g.start, 0, N)].append(z3.BoolVal(True))
    e.U, e.apps = {}, []
    for ln in range(N, 0, -1):
        for i in range(0, N - ln + 1):
            j = i + ln
            for A in reversed(g.order):
                ps = pend.get((A, i, j))
                if not ps or (A, i, j) not in e.D:
                    continue
                u = e.U[(A, i, j)] = fresh(z3.Or(ps)) if len(ps) > 1 else ps[0]
                for pidx, spl, cv in node_apps[(A, i, j)]:
                    a = cv if z3.is_true(u) else fresh(z3.And(u, cv))
                    e.apps.append((pidx, i, j, spl, a))
                    _, syms, ist = g.prods[pidx]
                    for m, (p, q) in enumerate(spl):
                        if not ist[m]:
                            pend[(syms[m], p, q)].append(a)
    e.node_apps = node_apps
    return e


def structure(g, e):
    """operator facts: (kind, position of the anchoring token or child, node i, node j) -> z3 Bool.
    'own' anchors speak about the application's own node; 'parent' anchors (helper rules such as addition_add, whose
    node only holds the left operand and the operator) speak about the node of the application that uses them."""
    facts = collections.defaultdict(list)
    by_node = collections.defaultdict(list)
    for pidx, i, j, spl, a in e.apps:
        by_node[(g.prods[pidx][0], i, j)].append((pidx, spl, a))
        for idx, kind, where in g.anchors.get(pidx, ()):
            if where == "own":
                facts[(kind, spl[idx][0], i, j)].append(a)
    for pidx, i, j, spl, a in e.apps:
        _, syms, ist = g.prods[pidx]
        for m, (p, q) in enumerate(spl):
            if ist[m]:
                continue
            for cp, cspl, ca in by_node.get((syms[m], p, q), ()):
                for idx, kind, where in g.anchors.get(cp, ()):
                    if where == "parent":
                        facts[(kind, cspl[idx][0], i, j)].append(z3.And(a, ca))
    return {k: (z3.Or(v) if len(v) > 1 else v[0]) for k, v in facts.items()}


def ambiguity(g, e):
    """Bool: some in-tree node has two distinct production applications (exactly: w has two parse trees)"""
    alts = []
    for key, u in e.U.items():
        cvs = [cv for _, _, cv in e.node_apps[key]]
        if len(cvs) > 1:
            alts.append(z3.And(u, z3.AtLeast(*cvs, 2)))
    return z3.Or(alts) if alts else z3.BoolVal(False)


# ----------------------------------------------------------------------------- the two grammars
BIN_HELPER = {"relation_lt": "<", "relation_le": "<=", "relation_gt": ">", "relation_ge": ">=", "relation_eq": "==",
              "relation_ne": "!=", "relation_in": "in", "addition_add": "+", "addition_sub": "-",
              "multiplication_mul": "*", "multiplication_div": "/", "multiplication_mod": "%"}
OWN = {"member_dot": (1, "sel"), "member_dot_arg": (1, "mcall"), "member_index": (1, "index"),
       "member_object": (1, "object"), "ident_arg": (1, "call"), "dot_ident_arg": (2, "dcall"), "dot_ident": (0, "dident"),
       "paren_expr": (0, "paren"), "list_lit": (0, "list"), "map_lit": (0, "map"), "literal": (0, "lit"), "ident": (0, "ident")}


def real_grammar(real):
    """Operator kinds are named by the *rule* that builds the tree node, because that is what the evaluators dispatch
    on; the reference names them by the operator *token*.  A grammar that attaches `&&` to a conditionalor node
    therefore differs in its facts."""
    anchors = {}
    for pidx, (_, syms, ist) in enumerate(real.prods):
        A = real.node[pidx]
        if A == "expr" and len(syms) == 5:
            anchors[pidx] = [(1, "?:", "own"), (3, "?:else", "own")]
        elif A == "conditionalor" and len(syms) == 3:
            anchors[pidx] = [(1, "||", "own")]
        elif A == "conditionaland" and len(syms) == 3:
            anchors[pidx] = [(1, "&&", "own")]
        elif A in BIN_HELPER:
            anchors[pidx] = [(len(syms) - 1, BIN_HELPER[A], "parent")]
        elif A in ("unary_not", "unary_neg"):
            anchors[pidx] = [(0, "not" if A == "unary_not" else "neg", "parent")]
        elif A in OWN and OWN[A][0] < len(syms):
            anchors[pidx] = [(OWN[A][0], OWN[A][1], "own")]
    return Grammar(real.prods, real.start, anchors)


def reference_grammar(real):
    """CEL language definition (cel-spec langdef.md, Syntax), with left recursion for the left-associative tiers."""
    R, RA = [], {}

    def P(A, syms, *anchor):
        syms = syms.split()
        nts = {"E", "CO", "CA", "RE", "AD", "MU", "UN", "ME", "PR", "EL", "FI", "MI"}
        names = tuple(s if s in nts else real.terminal(s) for s in syms)
        R.append((A, names, tuple(s not in nts for s in syms)))
        if anchor:
            RA[len(R) - 1] = [(idx, kind, "own") for idx, kind in anchor]
    P('E', 'CO'); P('E', 'CO ? CO : E', (1, '?:'), (3, '?:else'))
    P('CO', 'CA'); P('CO', 'CO || CA', (1, '||'))
    P('CA', 'RE'); P('CA', 'CA && RE', (1, '&&'))
    P('RE', 'AD')
    for op in ['<', '<=', '>', '>=', '==', '!=', 'in']:
        P('RE', f'RE {op} AD', (1, op))
    P('AD', 'MU'); P('AD', 'AD + MU', (1, '+')); P('AD', 'AD - MU', (1, '-'))
    P('MU', 'UN'); P('MU', 'MU * UN', (1, '*')); P('MU', 'MU / UN', (1, '/')); P('MU', 'MU % UN', (1, '%'))
    P('UN', 'ME'); P('UN', '! UN', (0, 'not')); P('UN', '- UN', (0, 'neg'))
    P('ME', 'PR'); P('ME', 'ME . IDENT', (1, 'sel'))
    P('ME', 'ME . IDENT ( )', (1, 'mcall')); P('ME', 'ME . IDENT ( EL )', (1, 'mcall'))
    P('ME', 'ME [ E ]', (1, 'index')); P('ME', 'ME { }', (1, 'object')); P('ME', 'ME { FI }', (1, 'object'))
    for lit in ['UINT_LIT', 'FLOAT_LIT', 'INT_LIT', 'MLSTRING_LIT', 'STRING_LIT', 'BYTES_LIT', 'BOOL_LIT', 'NULL_LIT']:
        P('PR', lit, (0, 'lit'))
    P('PR', '. IDENT', (0, 'dident')); P('PR', '. IDENT ( )', (2, 'dcall')); P('PR', '. IDENT ( EL )', (2, 'dcall'))
    P('PR', 'IDENT', (0, 'ident')); P('PR', 'IDENT ( )', (1, 'call')); P('PR', 'IDENT ( EL )', (1, 'call'))
    P('PR', '( E )', (0, 'paren')); P('PR', '[ ]', (0, 'list')); P('PR', '[ EL ]', (0, 'list'))
    P('PR', '{ }', (0, 'map')); P('PR', '{ MI }', (0, 'map'))
    P('EL', 'E'); P('EL', 'EL , E')
    P('FI', 'IDENT : E'); P('FI', 'FI , IDENT : E')
    P('MI', 'E : E'); P('MI', 'MI , E : E')
    return Grammar(R, 'E', RA)


class Problem:
    """symbolic word of exactly N tokens + the encodings asked for"""

    def __init__(self, real, N, want_ref=True):
        self.real, self.N = real, N
        self.G = real_grammar(real)
        self.Rg = reference_grammar(real) if want_ref else None   # may append reference-only terminals to real.terms
        self.tid = {t: i for i, t in enumerate(real.terms)}
        bits = max(1, (len(real.terms) - 1).bit_length())
        self.W = [z3.BitVec(f"w{i}", bits) for i in range(N)]
        self.base = [z3.ULT(w, len(real.terms)) for w in self.W] if len(real.terms) < 2 ** bits else []
        cache = {}

        def tok(i, name):
            if (i, name) not in cache:
                cache[(i, name)] = self.W[i] == self.tid[name]
            return cache[(i, name)]
        self.eg = encode(self.G, tok, N, "g")
        self.er = encode(self.Rg, tok, N, "r") if want_ref else None

    def word(self, model):
        return [self.real.terms[model.eval(w, model_completion=True).as_long()] for w in self.W]

    def block(self, model):
        return z3.Or([w != model.eval(w, model_completion=True) for w in self.W])


# ----------------------------------------------------------------------------- facts of the tree Lark actually built
def tree_facts(real, G, names, offs, tree):
    """The same facts as `structure`, read off the lark tree that the real LALR parser built for the rendered word.
    Filtered (anonymous) tokens are recovered from the node's token span.  Returns (facts, unmatched node names)."""
    import lark
    start_of = {o: k for k, o in enumerate(offs)}
    end_of = {o + len(lx): k + 1 for k, (o, lx) in enumerate(zip(offs, (real.lexeme[n](k) for k, n in enumerate(names))))}
    facts, unmatched = set(), []
    # named tokens are all kept in the tree, in text order; BOOL_LIT tokens made by CELParser.ambiguous_literals carry no
    # position, so leaves are located by scanning the word for the next token of their type
    leaf, k = {}, 0
    for tk in tree.scan_values(lambda v: isinstance(v, lark.Token)):
        k = names.index(tk.type, k)
        leaf[id(tk)] = k
        k += 1

    def span(x):
        if isinstance(x, lark.Token):
            return leaf[id(x)], leaf[id(x)] + 1
        sp, ep = getattr(x.meta, "start_pos", None), getattr(x.meta, "end_pos", None)
        return (start_of[sp] if sp is not None else span(x.children[0])[0],
                end_of[ep] if ep is not None else span(x.children[-1])[1])

    def walk(t):
        """-> (pidx or None, splits) of the production applied at node t"""
        i, j = span(t)
        seq, pos, sub = [], i, []
        for c in t.children:
            p, q = span(c)
            seq += [(names[k], k, k + 1) for k in range(pos, p)]
            if isinstance(c, lark.Token):
                seq.append((c.type, p, q))
            else:
                cp, cspl = walk(c)
                sub.append((cp, cspl))
                seq.append((G.prods[cp][0] if cp is not None else c.data, p, q))   # an aliased node is named by its alias
            pos = q
        seq += [(names[k], k, k + 1) for k in range(pos, j)]
        syms, spl = tuple(s for s, _, _ in seq), [(p, q) for _, p, q in seq]
        pidx = next((p for p, nm in enumerate(real.node) if nm == t.data and G.prods[p][1] == syms), None)
        if pidx is None:
            unmatched.append(str(t.data))
        for idx, kind, where in G.anchors.get(pidx, ()):
            if where == "own":
                facts.add((kind, spl[idx][0], i, j))
        for cp, cspl in sub:
            for idx, kind, where in G.anchors.get(cp, ()):
                if where == "parent":
                    facts.add((kind, cspl[idx][0], i, j))
        return pidx, spl
    walk(tree)
    return facts, unmatched
