"""./check <Cnn> --tier quick|thorough [--replay witness.json]

exit 0: nothing violated within what was explored (known findings printed as KNOWN-FINDING lines)
exit 1: VIOLATION property=<id> replay=<path>   (printed only after the clean-interpreter replay reproduced it)
exit 3: harness / self-check error (never a verdict)
"""
import argparse
import concurrent.futures as cf
import hashlib
import importlib
import json
import multiprocessing
import os
import shutil
import subprocess
import re
import sys
import tempfile
import threading
import time

HERE = os.path.dirname(os.path.dirname(os.path.abspath(__file__)))
REPO = os.environ.get("VERIF_REPO", "/repo")
CLEAN_PY = "/venv/bin/python"
KNOWN_FILE = os.path.join(HERE, "known_findings.json")


def _worker_init(prop_mod):
    import logging
    logging.disable(logging.CRITICAL)
    sys.setrecursionlimit(5000)
    mod = importlib.import_module(prop_mod)
    if getattr(mod, "ENGINE", "symex") == "symex":
        from vf.sym import loader
        prof = mod.profile() if hasattr(mod, "profile") else None
        loader.install(prof)


def _worker_run(prop_mod, task):
    mod = importlib.import_module(prop_mod)
    from vf.explore import KnownFindings
    kf = KnownFindings(KNOWN_FILE, mod.PROP)
    t0 = time.time()
    try:
        results = mod.run_task(task, kf)
    except BaseException as ex:  # engine problems must surface as harness errors
        import traceback
        return {"task": task, "error": f"{type(ex).__name__}: {ex}\n{traceback.format_exc()[-1500:]}", "results": []}
    return {"task": task, "results": [r if isinstance(r, dict) else r.to_dict() for r in results], "wall": time.time() - t0}


def clean_env():
    env = dict(os.environ)
    env["PYTHONPATH"] = HERE
    env["VERIF_REPO"] = REPO
    env["PYTHONDONTWRITEBYTECODE"] = "1"
    env.pop("VERIF_TIME_SHADOW", None)
    return env


def replay_batch(witnesses, tmpdir):
    """Run concrete oracles on the real code in a clean interpreter; returns list of {ok, detail}."""
    if not witnesses:
        return []
    out = []
    CH = max(8, min(400, -(-len(witnesses) // 12)))
    chunks = [witnesses[i:i + CH] for i in range(0, len(witnesses), CH)]

    def one(idx_chunk):
        idx, chunk = idx_chunk
        fin, fout = os.path.join(tmpdir, f"b{idx}.in.json"), os.path.join(tmpdir, f"b{idx}.out.json")
        json.dump(chunk, open(fin, "w"))
        p = subprocess.run([CLEAN_PY, "-m", "vf.replay", "--batch", fin, fout], env=clean_env(), cwd=HERE,
                           capture_output=True, text=True, timeout=1800)
        if p.returncode != 0 or not os.path.exists(fout):
            return [{"ok": None, "detail": f"replay subprocess failed: {p.stderr[-500:]}"}] * len(chunk)
        return json.load(open(fout))

    with cf.ThreadPoolExecutor(max_workers=12) as ex:
        for r in ex.map(one, list(enumerate(chunks))):
            out += r
    return out


def fidelity_check(mod, tier, tmpdir, box):
    """Shadow fidelity: the repository's own tests give the same outcomes under shadow loading as without."""
    tests = getattr(mod, "FIDELITY_TESTS", ["tests/test_celtypes.py"])
    if tier == "thorough":
        tests = getattr(mod, "FIDELITY_TESTS_THOROUGH", ["tests"])
    if not tests or getattr(mod, "ENGINE", "symex") != "symex":
        box["fidelity"] = {"skipped": True}
        return
    j1, j2 = os.path.join(tmpdir, "plain.xml"), os.path.join(tmpdir, "shadow.xml")
    base = ["-q", "-p", "no:cacheprovider", "-x", "--no-header", "-W", "ignore"] + tests
    code_shadow = (
        "import sys, importlib; sys.path.insert(0, %r); m = importlib.import_module(%r);"
        "from vf.sym import loader; loader.install(m.fidelity_profile() if hasattr(m,'fidelity_profile') else (m.profile() if hasattr(m,'profile') else None));"
        "import pytest; sys.exit(pytest.main(%r))" % (HERE, mod.__name__, [a for a in base if a != "-x"] + ["--junitxml", j2]))
    env = clean_env()
    env["PYTHONPATH"] = HERE + os.pathsep + os.path.join(REPO, "src")
    p1 = subprocess.Popen([sys.executable, "-m", "pytest"] + [a for a in base if a != "-x"] + ["--junitxml", j1],
                          cwd=REPO, env=env, stdout=subprocess.DEVNULL, stderr=subprocess.DEVNULL)
    p2 = subprocess.Popen([sys.executable, "-c", code_shadow], cwd=REPO, env=env,
                          stdout=subprocess.PIPE, stderr=subprocess.STDOUT, text=True)
    out2, _ = p2.communicate()
    p1.wait()

    def outcomes(path):
        import xml.etree.ElementTree as ET
        res = {}
        if not os.path.exists(path):
            return None
        for tc in ET.parse(path).getroot().iter("testcase"):
            # parametrised ids embed repr() of values, which may legitimately differ under the shadow:
            # compare per test function the multiset of outcomes
            k = f"{tc.get('classname')}::{tc.get('name').split('[')[0]}"
            st = "pass"
            for ch in tc:
                if ch.tag in ("failure", "error"):
                    st = "fail"
                elif ch.tag == "skipped":
                    st = "skip"
            res.setdefault(k, []).append(st)
        return {k: sorted(v) for k, v in res.items()}

    a, b = outcomes(j1), outcomes(j2)
    if a is None or b is None:
        box["fidelity"] = {"ok": False, "detail": "junit output missing: " + (out2 or "")[-600:]}
        return
    diff = {k: (a.get(k), b.get(k)) for k in set(a) | set(b) if a.get(k) != b.get(k)}
    box["fidelity"] = {"ok": not diff, "tests": sum(len(v) for v in a.values()), "differences": dict(list(diff.items())[:10]), "suite": tests}


def main(argv=None):
    ap = argparse.ArgumentParser()
    ap.add_argument("prop")
    ap.add_argument("--tier", default=os.environ.get("VERIF_TIER", "quick"), choices=["quick", "thorough"])
    ap.add_argument("--replay")
    ap.add_argument("--jobs", type=int, default=int(os.environ.get("VERIF_JOBS", "16")))
    ap.add_argument("--only", help="substring filter on task ids (debugging)")
    ap.add_argument("--no-fidelity", action="store_true")
    args = ap.parse_args(argv)
    prop = args.prop.upper()
    if args.replay:
        p = subprocess.run([CLEAN_PY, "-m", "vf.replay", os.path.abspath(args.replay)], env=clean_env(), cwd=HERE)
        return p.returncode
    seed = int(os.environ.get("VERIF_SEED", "0") or 0)
    t_start = time.time()
    prop_mod = f"vf.props.{prop.lower()}"
    mod = importlib.import_module(prop_mod)
    tmpdir = tempfile.mkdtemp(prefix=f"verif-{prop}-")
    try:
        return _run(args, prop, mod, prop_mod, tmpdir, seed, t_start)
    finally:
        shutil.rmtree(tmpdir, ignore_errors=True)


def _run(args, prop, mod, prop_mod, tmpdir, seed, t_start):
    tier = args.tier
    tasks = mod.tasks(tier)
    if args.only:
        tasks = [t for t in tasks if args.only in json.dumps(t)]
    box = {}
    fth = None
    if not args.no_fidelity:
        fth = threading.Thread(target=fidelity_check, args=(mod, tier, tmpdir, box))
        fth.start()
    results, errors, task_walls = [], [], []
    ctx = multiprocessing.get_context("spawn")
    nproc = max(1, min(args.jobs, len(tasks)))
    with cf.ProcessPoolExecutor(max_workers=nproc, mp_context=ctx, initializer=_worker_init, initargs=(prop_mod,)) as ex:
        futs = [ex.submit(_worker_run, prop_mod, t) for t in tasks]
        for f in futs:  # deterministic order
            try:
                r = f.result()
            except BaseException as e:
                errors.append(f"worker crashed: {type(e).__name__}: {e}")
                continue
            if r.get("error"):
                errors.append(f"task {r['task']}: {r['error']}")
            results += r["results"]
            task_walls.append((round(r.get("wall", 0), 1), json.dumps(r["task"])[:120]))
    if fth:
        fth.join()
        fid = box.get("fidelity", {})
        if fid.get("ok") is False:
            errors.append(f"shadow fidelity self-check failed: {json.dumps(fid)[:800]}")
    # ---- aggregate
    agg = dict(paths=0, transitions=0, obligations=0, discharged=0, unknown=0, divergences=0, queries=0,
               solver_s=0.0, display=0, aborted=0, budget_exhausted=0, pin_chains_cut=0)
    pins, ob_ids, funcs, samples = {}, {}, set(), []
    known_hits, violations, validate = {}, [], []
    harnesses = 0
    for r in results:
        harnesses += 1
        for k in ("paths", "transitions", "obligations", "discharged", "unknown", "divergences", "queries", "display", "aborted", "pin_chains_cut"):
            agg[k] += r.get(k, 0)
        agg["solver_s"] += r.get("solver_s", 0.0)
        agg["budget_exhausted"] += 1 if r.get("budget_exhausted") else 0
        for k, v in r.get("pins", {}).items():
            pins[k] = pins.get(k, 0) + v
        for k, v in r.get("ob_ids", {}).items():
            ob_ids[k] = ob_ids.get(k, 0) + v
        funcs.update(r.get("funcs", []))
        if len(samples) < 6 and r.get("samples"):
            samples.append({"harness": r["id"], **r["samples"][0]})
        for k, v in r.get("known_hits", {}).items():
            known_hits.setdefault(k, v)
        violations += r.get("violations", [])
        for e in r.get("errors", []):
            errors.append(f"{r['id']}: {e}")
        if r.get("paths", 0) == 0 and not r.get("allow_empty"):
            errors.append(f"vacuity: harness {r['id']} explored no path")
        elif r.get("obligations", 0) == 0 and not r.get("allow_empty"):
            errors.append(f"vacuity: harness {r['id']} raised no obligation")
        vs = r.get("validate", [])
        per = 3 if tier == "quick" else 8
        step = max(1, len(vs) // per)
        validate += [(r["id"], w) for w in vs[::step][:per]]
        validate += [(r["id"] + "#history", w) for w in r.get("seq_probes", [])]
    if not results and not errors:
        errors.append("no harness ran")
    enum_w = getattr(mod, "extra_validation", None)
    n_enum = 0
    if enum_w and not args.only:
        ws = enum_w() if enum_w.__code__.co_argcount == 0 else enum_w(tier)
        n_enum = len(ws)
        validate += [(f"{prop}/enumeration", w) for w in ws]
    # ---- known findings listed for this property
    listed = []
    if os.path.exists(KNOWN_FILE):
        listed = [e for e in json.load(open(KNOWN_FILE)).get("findings", [])
                  if e.get("property") == prop and e.get("status", "known") == "known"]
    # ---- clean-interpreter work: validation witnesses, known-finding examples, violation candidates
    viol_by_ob = {}
    for v in violations:
        viol_by_ob.setdefault(v["obligation"], []).append(v)
    cand = []
    for ob, vs in sorted(viol_by_ob.items()):
        cand += vs[:3]
    batch = [w for _, w in validate] + [e["example"] for e in listed] + [v["witness"] for v in cand]
    missing = [v for v in cand if v["witness"] is None]
    for v in missing:
        errors.append(f"violation candidate without replayable witness: {v['obligation']}")
    batch = [b for b in batch if b is not None]
    rep = replay_batch(batch, tmpdir)
    it = iter(rep)
    val_checked = val_bad = 0
    validation_violations = []
    for hid, w in validate:
        if w is None:
            continue
        r = next(it)
        val_checked += 1
        if r["ok"] is None:
            errors.append(f"validation oracle error in {hid}: {r['detail'][:300]}")
        elif r["ok"] is False:
            val_bad += 1
            validation_violations.append({"obligation": f"{hid}#validation-replay", "harness": hid, "witness": w,
                                          "detail": r["detail"], "found_by": "validation replay, not solver verdict"})
    out_lines = []
    for e in listed:
        r = next(it)
        if r["ok"] is False:
            out_lines.append(f"KNOWN-FINDING: property={prop} {e['id']}: {e['text']}")
        elif r["ok"] is None:
            errors.append(f"known finding {e['id']} example: oracle error {r['detail'][:300]}")
        else:
            if e["id"] in known_hits:
                errors.append(f"known finding {e['id']} hit symbolically but its example no longer fails on the real code")
    confirmed = []
    for v in cand:
        if v["witness"] is None:
            continue
        r = next(it)
        if r["ok"] is False:
            confirmed.append({**v, "detail": r["detail"]})
        elif r["ok"] is None:
            errors.append(f"replay oracle error for {v['obligation']}: {r['detail'][:300]}")
        else:
            errors.append(f"solver witness for {v['obligation']} does not reproduce on the real code "
                          f"(encoding/shim problem): {json.dumps(v['witness'])[:300]}")
    # a validation-replay failure inside a listed known finding's example set is not new; otherwise report
    known_examples = {json.dumps(e["example"], sort_keys=True) for e in listed}
    for v in validation_violations:
        if json.dumps(v["witness"], sort_keys=True) in known_examples:
            continue
        if _covered_by_known(v["witness"], listed):
            continue
        confirmed.append(v)
    # ---- write replay files, print
    evdir = os.environ.get("VERIF_EVIDENCE_DIR") or os.path.join(HERE, "evidence")
    os.makedirs(os.path.join(evdir, "replay"), exist_ok=True)
    for line in out_lines:
        print(line)
    nviol = 0
    seen_files = set()
    for v in confirmed:
        h = hashlib.sha1(json.dumps(v["witness"], sort_keys=True).encode()).hexdigest()[:10]
        path = os.path.join(evdir, "replay", f"{prop}-{h}.json")
        if path in seen_files:
            continue
        seen_files.add(path)
        json.dump({"property": prop, "obligation": v["obligation"], "witness": v["witness"],
                   "detail": v.get("detail"), "found_by": v.get("found_by", "solver model, replayed")}, open(path, "w"), indent=1)
        print(f"VIOLATION property={prop} replay={path}")
        print(f"  obligation={v['obligation']} detail={str(v.get('detail'))[:300]}")
        nviol += 1
    for e in errors[:30]:
        print(f"HARNESS-ERROR: {e}")
    wall = time.time() - t_start
    level = getattr(mod, "LEVEL", "model_checking")
    cov = {
        "states": agg["paths"], "transitions": max(agg["transitions"], 1 if agg["paths"] else 0),
        "traces_validated_against_impl": val_checked + len(cand) + len(listed),
        "samples": samples or [{"note": "no path explored"}],
        "obligations": agg["obligations"], "discharged": agg["discharged"],
        "inconclusive_unknown_or_timeout": agg["unknown"],
        "known_finding_hits": sorted(known_hits), "harnesses": harnesses, "tasks": len(tasks),
        "obligation_ids": dict(sorted(ob_ids.items())[:200]),
        "functions_encoded": sorted(funcs)[:400],
        "pins_by_operation": pins, "display_concretisations": agg["display"],
        "divergences": agg["divergences"], "path_budget_exhausted_harnesses": agg["budget_exhausted"],
        "engine_aborts": agg["aborted"],
        "pin_enumerations_cut_as_sampling": agg["pin_chains_cut"],
        "solver": {"name": "z3", "queries": agg["queries"], "seconds": round(agg["solver_s"], 2)},
        "bounds": getattr(mod, "BOUNDS", {}).get(tier, getattr(mod, "BOUNDS", {})),
        "outside_claim": getattr(mod, "OUTSIDE", []),
        "validation_replays": {"checked": val_checked, "disagreed": val_bad, "of_which_enumerated_cases": n_enum},
        "fidelity": box.get("fidelity"),
        "harness_errors": errors[:20],
        "slowest_tasks": sorted(task_walls, reverse=True)[:5],
        "checker_cmd": f"./check {prop} --tier {tier}",
        "trusted_base": getattr(mod, "TRUSTED", []),
        "exhaustive": False,
    }
    extra = getattr(mod, "extra_coverage", None)
    if extra:
        cov.update(extra(results, tier))
    if level == "translation_validation":
        cov["programs"] = max(1, cov.get("programs", harnesses))
        cov["disagreements_checked"] = len(cand) + val_checked
    ev = {"property_id": prop, "tier": tier, "seed": seed, "level": level, "coverage": cov,
          "assumptions": getattr(mod, "ASSUMPTIONS", []), "wall_s": round(wall, 2), "violations": nviol}
    json.dump(ev, open(os.path.join(evdir, f"{prop}.json"), "w"), indent=1, default=str)
    print(f"{prop} {tier}: harnesses={harnesses} paths={agg['paths']} obligations={agg['obligations']} "
          f"discharged={agg['discharged']} unknown={agg['unknown']} known={len(out_lines)} violations={nviol} "
          f"errors={len(errors)} solver={agg['solver_s']:.1f}s wall={wall:.1f}s")
    if os.environ.get("VERIF_DEBUG"):
        for w, t in sorted(task_walls, reverse=True)[:8]:
            print(f"  slow task {w}s {t}")
        slow = sorted(((r.get("wall_s", 0), r["id"], r.get("paths"), r.get("unknown")) for r in results), reverse=True)[:12]
        for x in slow:
            print("  slow harness", x)
    if nviol:
        return 1
    if errors:
        return 3
    return 0


def _covered_by_known(witness, listed):
    """a validation witness that falls in a listed finding's concrete region (`match` given as check+args subset)"""
    for e in listed:
        m = e.get("covers")
        if not m:
            continue
        if witness.get("check") != m.get("check"):
            continue
        args = witness.get("args", {})
        if all(args.get(k) == v for k, v in m.get("args", {}).items()) and \
                all(re.search(rx, str(args.get(k, ""))) for k, rx in m.get("args_regex", {}).items()):
            return True
    return False


if __name__ == "__main__":
    sys.exit(main())
