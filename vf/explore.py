"""Concolic path exploration (generational search) and obligation discharge with z3."""
import fnmatch
import json
import os
import sys
import time

import z3

from .sym import core
from .sym.core import CTX, EngineAbort

SEED = int(os.environ.get("VERIF_SEED", "0") or 0)


def new_solver(timeout_ms, opts=None):
    s = z3.Solver()
    s.set("timeout", timeout_ms)
    s.set("random_seed", SEED)
    for k, v in (opts or {}).items():
        s.set(k, v)
    return s


def cvc5_check(assertions, vars, timeout_ms):
    """Second back end for obligations z3 leaves undecided (bit-vector / floating-point kernels):
    returns ("sat", {name: int}) | ("unsat", None) | ("unknown", None).  The query is z3's own SMT-LIB rendering."""
    try:
        import cvc5
    except ImportError:
        return "unknown", None
    s = z3.Solver()
    s.add(*assertions)
    text = s.to_smt2().replace("(check-sat)", "")
    import tempfile
    with tempfile.NamedTemporaryFile("w", suffix=".smt2", delete=False) as f:
        f.write("(set-logic ALL)\n" + text + "\n(check-sat)\n")
        path = f.name
    try:
        slv = cvc5.Solver()
        slv.setOption("tlimit-per", str(int(timeout_ms)))
        slv.setOption("produce-models", "true")
        ip = cvc5.InputParser(slv)
        ip.setFileInput(cvc5.InputLanguage.SMT_LIB_2_6, path)
        sm = ip.getSymbolManager()
        verdict = "unknown"
        while True:
            cmd = ip.nextCommand()
            if cmd.isNull():
                break
            out = str(cmd.invoke(slv, sm)).strip()
            if out in ("sat", "unsat", "unknown"):
                verdict = out
            elif "error" in out:
                return "unknown", None
        if verdict != "sat":
            return verdict, None
        vals = {}
        for name, v in vars.items():
            t = sm.getNamedTerms().get(name) if hasattr(sm, "getNamedTerms") else None
            found = None
            for dt in sm.getDeclaredTerms():
                if str(dt) == name:
                    found = dt
            if found is None:
                return "unknown", None
            mv = slv.getValue(found)
            k = v.sort().kind()
            if k == z3.Z3_BV_SORT:
                vals[name] = int(mv.getBitVectorValue(10))
            elif k == z3.Z3_INT_SORT:
                vals[name] = int(mv.getIntegerValue())
            elif k == z3.Z3_BOOL_SORT:
                vals[name] = bool(mv.getBooleanValue())
            else:
                return "unknown", None
        return "sat", vals
    except Exception:  # noqa: BLE001  (a back-end problem is an inconclusive answer, never a verdict)
        return "unknown", None
    finally:
        os.unlink(path)


class Ob:
    """One proof obligation raised at the end of a path.
    id: semantic name; term: z3 Bool that must hold for all values on the path;
    observe: name -> z3 term usable by known-finding `observed` predicates; note: free text for evidence."""

    def __init__(self, id, term, observe=None, note=None, tags=None):
        self.id, self.term, self.observe, self.note = id, term, observe or {}, note
        self.tags = tags or {}  # plain facts about the path outcome; known findings may require them ("tags" subset match)


class Harness:
    """Subclass or instantiate with callables.
    vars: name -> z3 const (Int / FP / Bool / BitVec); pre: list of z3 Bool;
    run(vals) -> list[Ob]  executes the real (shadow-loaded) code once on symbolic values built from `vals`;
    witness(vals) -> dict  {"check": <name in vf.replay>, "args": {...}} for the clean-interpreter replay."""

    id = "?"
    vars = {}
    pre = []
    max_paths = 400
    timeout_ms = 20000
    max_seconds = float(os.environ.get("VERIF_HARNESS_SECONDS", "90"))

    def __init__(self, id=None, vars=None, pre=None, run=None, witness=None, max_paths=None, timeout_ms=None, meta=None):
        if id is not None:
            self.id = id
        if vars is not None:
            self.vars = vars
        if pre is not None:
            self.pre = pre
        if run is not None:
            self.run = run
        if witness is not None:
            self.witness = witness
        if max_paths is not None:
            self.max_paths = max_paths
        if timeout_ms is not None:
            self.timeout_ms = timeout_ms
        self.meta = meta or {}

    def run(self, vals):
        raise NotImplementedError

    def witness(self, vals):
        return None


def model_value(m, v):
    s = v.sort()
    if s.kind() == z3.Z3_FLOATING_POINT_SORT:
        return core.fval_from_model(m, v)
    r = m.eval(v, model_completion=True)
    if s.kind() == z3.Z3_BOOL_SORT:
        return z3.is_true(r)
    return r.as_long()


def model_values(m, vars):
    return {n: model_value(m, v) for n, v in vars.items()}


def jsonable(v):
    if isinstance(v, float):
        if v != v:
            return {"float": "nan"}
        if v in (float("inf"), float("-inf")):
            return {"float": "inf" if v > 0 else "-inf"}
        return {"float": v.hex()}
    if isinstance(v, bool):
        return v
    if isinstance(v, int):
        return int(v) if abs(v) < 2**53 else {"int": str(int(v))}
    return v


# ----------------------------------------------------------------------------- known findings
REGION_ENV = {
    "And": z3.And, "Or": z3.Or, "Not": z3.Not, "If": z3.If, "Implies": z3.Implies,
    "isZero": z3.fpIsZero, "isNaN": z3.fpIsNaN, "isInf": z3.fpIsInf, "isNeg": z3.fpIsNegative,
    "isPos": z3.fpIsPositive, "fpEQ": z3.fpEQ, "fpLT": z3.fpLT, "fpGT": z3.fpGT,
    "true": z3.BoolVal(True), "false": z3.BoolVal(False),
    "count": lambda *bs: z3.Sum([z3.If(b, 1, 0) for b in bs]),
    "fp": core.fp_val, "MIN64": -(2**63), "MAX64": 2**63 - 1, "MAXU64": 2**64 - 1,
}


class KnownFindings:
    def __init__(self, path, prop):
        self.entries = []
        if os.path.exists(path):
            data = json.load(open(path))
            for e in data.get("findings", []):
                if e.get("property") == prop and e.get("status", "known") == "known":
                    self.entries.append(e)

    def match(self, ob, model, vars):
        """entries whose obligation pattern matches and whose region (and observed) hold in the model"""
        hits = []
        for e in self.entries:
            if not fnmatch.fnmatchcase(ob.id, e["obligation"]):
                continue
            if any(ob.tags.get(k) != v for k, v in e.get("tags", {}).items()):
                continue
            if any(ob.tags.get(k) not in vs for k, vs in e.get("tag_any", {}).items()):
                continue
            env = dict(REGION_ENV)
            env.update(vars)
            env.update(ob.observe)
            try:
                reg = eval(e.get("region", "true"), {"__builtins__": {}}, env)
                obs = eval(e.get("observed", "true"), {"__builtins__": {}}, env)
            except NameError:
                continue  # region speaks about variables this obligation does not have
            if isinstance(reg, bool):
                reg = z3.BoolVal(reg)
            if isinstance(obs, bool):
                obs = z3.BoolVal(obs)
            both = z3.And(reg, obs)
            if z3.is_true(model.eval(both, model_completion=True)):
                hits.append((e, both))
        return hits


# ----------------------------------------------------------------------------- result
MAX_PIN_CHAIN = 6
_INT_BOUNDS = [2**63 - 1, -(2**63), 2**64 - 1, 2**53 + 1, -(2**53) - 1, -1, 0, 2**62 + 1]


def _boundary_candidates(pin_term):
    """for a pin `lhs == const` over Int / FloatingPoint: equalities with boundary constants (solver decides feasibility)"""
    try:
        if not z3.is_eq(pin_term) or pin_term.num_args() != 2:
            return []
        lhs, rhs = pin_term.arg(0), pin_term.arg(1)
        if z3.is_int(lhs) and z3.is_int_value(rhs):
            cur = rhs.as_long()
            return [lhs == k for k in _INT_BOUNDS if k != cur][::-1]
        if lhs.sort().kind() == z3.Z3_FLOATING_POINT_SORT:
            vals = [float("inf"), float("-inf"), -0.0, 0.0, 1.7976931348623157e308, 5e-324, 9007199254740993.0, 1.0, -1.5]
            return [lhs == core.fp_val(v) for v in vals][::-1] + [z3.fpIsNaN(lhs)]
    except Exception:  # noqa: BLE001
        return []
    return []


# code points with special behaviour under case mapping, normalisation, line splitting, encodings
# ... and under the host language's number parsing (blank, underscore, non-ASCII decimal digits, sign)
_INTERESTING_CPS = (0x301, 0x212B, 0xDF, 0x130, 0x1C5, 0xFB01, 0x2028, 0x85, 0x0A, 0x0D, 0x00, 0x1F600, 0xE9, 0x3A3, 0x20, 0x5F, 0x661, 0xFF15, 0xA0, 0x2B)


def _string_candidates(pin_term):
    """for a pinned string (a conjunction of `char == const`): the same positions set to code points of special classes"""
    try:
        eqs = pin_term.children() if z3.is_and(pin_term) else [pin_term]
        out = []
        for e in eqs[:3]:
            if z3.is_eq(e) and z3.is_int(e.arg(0)) and z3.is_int_value(e.arg(1)):
                out += [e.arg(0) == cp for cp in _INTERESTING_CPS if cp != e.arg(1).as_long()]
        return out
    except Exception:  # noqa: BLE001
        return []


def _relative_candidates(pin_term, vars):
    try:
        if not z3.is_eq(pin_term) or pin_term.num_args() != 2:
            return []
        lhs, rhs = pin_term.arg(0), pin_term.arg(1)
        if not (z3.is_int(lhs) and z3.is_int_value(rhs)):
            return []
        out = []
        for v in list(vars.values())[:4]:
            if z3.is_int(v) and not v.eq(lhs):
                out += [lhs == v + 1, lhs == v - 1]
        return out
    except Exception:  # noqa: BLE001
        return []


class HResult:
    def __init__(self, hid):
        self.id = hid
        self.paths = 0
        self.transitions = 0
        self.obligations = 0
        self.discharged = 0
        self.unknown = 0
        self.known_hits = {}      # finding id -> example witness
        self.violations = []      # dicts: obligation, witness, model
        self.pins = {}
        self.display = 0
        self.divergences = 0
        self.budget_exhausted = False
        self.solver_s = 0.0
        self.queries = 0
        self.samples = []
        self.validate = []        # witnesses of explored paths for clean-interpreter cross-validation
        self.errors = []
        self.ob_ids = {}
        self.funcs = set()
        self.aborted = 0
        self.wall_s = 0.0
        self.pin_chains_cut = 0
        self.cvc5_queries = 0
        self.seq_probes = []      # [previous witness, witness of an aborted run]: replayed in sequence by the driver

    def to_dict(self):
        d = dict(self.__dict__)
        d["funcs"] = sorted(self.funcs)
        return d


def _profile_funcs(acc, root):
    def prof(frame, event, arg):
        if event == "call":
            fn = frame.f_code.co_filename
            if fn.startswith(root):
                acc.add(f"{os.path.relpath(fn, root)}:{frame.f_code.co_qualname}")
    return prof


def explore(h, known=None, collect_validation=2, profile_root=None):
    """Explore harness `h`; returns HResult.  Sound for every path executed: obligations are checked against
    the path condition recorded on that very run (a divergence only costs completeness and is counted)."""
    res = HResult(h.id)
    pre = list(h.pre)
    work = [([], [], 0)]  # (prefix constraints, persistent extras, bound)
    seen = set()
    t_start = time.time()
    first = True
    prev_w = None
    str_cands = 0
    while work:
        if res.paths >= h.max_paths or time.time() - t_start > h.max_seconds:
            res.budget_exhausted = True
            break
        prefix, extra, bound = work.pop()
        s = new_solver(h.timeout_ms, getattr(h, 'solver_opts', None))
        s.add(*pre)
        s.add(*prefix)
        s.add(*extra)
        t0 = time.time()
        r = str(s.check())
        res.solver_s += time.time() - t0
        res.queries += 1
        if r != "sat":
            if r == "unknown":
                res.unknown += 1
            continue
        m = s.model()
        vals = model_values(m, h.vars)
        CTX.reset()
        if first and profile_root:
            sys.setprofile(_profile_funcs(res.funcs, profile_root))
        try:
            obligations = h.run(vals)
        except EngineAbort as ex:
            res.aborted += 1
            res.errors.append(f"engine abort on {vals}: {ex}")
            obligations = None
            # a run that contradicts its own model usually means the code under test kept state from an earlier run
            # (a value-keyed cache ...): hand the pair (previous inputs, these inputs) to the clean-interpreter replay
            if prev_w is not None and len(res.seq_probes) < 3:
                try:
                    w2 = h.witness(vals)
                except Exception:  # noqa: BLE001
                    w2 = None
                if w2 is not None:
                    res.seq_probes.append({"check": "__sequence__", "args": {"steps": [prev_w, w2]}})
        finally:
            if first and profile_root:
                sys.setprofile(None)
        first = False
        if obligations is not None:
            try:
                prev_w = h.witness(vals)
            except Exception:  # noqa: BLE001
                prev_w = None
        path = list(CTX.path)
        for k, v in CTX.pins.items():
            res.pins[k] = res.pins.get(k, 0) + v
        res.display += CTX.display
        if obligations is None:
            continue
        sig = tuple((t.get_id(), k) for t, k, _ in path)
        pc = [t if k else z3.Not(t) for t, k, _ in path]
        # divergence guard: the run should follow the predicted prefix
        for i, c in enumerate(prefix):
            if i >= len(pc) or not pc[i].eq(c):
                res.divergences += 1
                break
        if sig in seen:
            continue
        seen.add(sig)
        res.paths += 1
        res.transitions += len(path)
        if len(res.samples) < 4:
            res.samples.append({"inputs": {k: jsonable(v) for k, v in vals.items()},
                                "path_condition": [str(c)[:160] for c in pc[:8]],
                                "obligations": [o.id for o in obligations]})
        clean_path = True
        allvars = dict(h.vars)
        allvars.update(CTX.extra_vars)
        for ob in obligations:
            res.obligations += 1
            res.ob_ids[ob.id] = res.ob_ids.get(ob.id, 0) + 1
            excl = []
            if z3.is_true(z3.simplify(ob.term)):
                res.discharged += 1  # holds syntactically on this path (concrete outcome on a decided path)
                continue
            while True:
                s2 = new_solver(h.timeout_ms, getattr(h, 'solver_opts', None))
                s2.add(*pre)
                s2.add(*pc)
                s2.add(z3.Not(ob.term))
                s2.add(*excl)
                t0 = time.time()
                r2 = str(s2.check())
                res.solver_s += time.time() - t0
                res.queries += 1
                if r2 == "unsat":
                    res.discharged += 1
                    break
                from_cvc5 = False
                if r2 != "sat" and getattr(h, "cvc5_ms", 0) and not excl:
                    # second back end (cvc5) for kernels z3 leaves undecided
                    t0 = time.time()
                    r3, cvals = cvc5_check(pre + pc + [z3.Not(ob.term)], h.vars, h.cvc5_ms)
                    res.solver_s += time.time() - t0
                    res.queries += 1
                    res.cvc5_queries += 1
                    if r3 == "unsat":
                        res.discharged += 1
                        break
                    if r3 == "sat":
                        r2, wvals, from_cvc5 = "sat", cvals, True
                if r2 != "sat":
                    res.unknown += 1
                    clean_path = False
                    break
                if from_cvc5:
                    hits = []
                else:
                    m2 = s2.model()
                    if not excl:
                        # prefer the inputs of this very run as the witness when they violate the obligation themselves:
                        # they reproduce by construction, also where the code let a C function read a symbolic value
                        try:
                            s3 = new_solver(h.timeout_ms, getattr(h, 'solver_opts', None))
                            s3.add(*pre)
                            s3.add(*pc)
                            s3.add(z3.Not(ob.term))
                            for n_, v_ in h.vars.items():
                                k_ = v_.sort().kind()
                                if k_ == z3.Z3_FLOATING_POINT_SORT:
                                    c_ = vals[n_]
                                    s3.add(z3.fpIsNaN(v_) if c_ != c_ else v_ == core.fp_val(c_))
                                elif k_ == z3.Z3_BOOL_SORT:
                                    s3.add(v_ == z3.BoolVal(bool(vals[n_])))
                                else:
                                    s3.add(v_ == vals[n_])
                            if str(s3.check()) == "sat":
                                m2 = s3.model()
                            res.queries += 1
                        except Exception:  # noqa: BLE001
                            pass
                    wvals = model_values(m2, h.vars)
                    hits = known.match(ob, m2, allvars) if known else []
                clean_path = False
                if hits:
                    for e, both in hits:
                        res.known_hits.setdefault(e["id"], {"text": e["text"], "witness": h.witness(wvals),
                                                            "obligation": ob.id})
                        excl.append(z3.Not(both))
                    continue
                res.violations.append({"obligation": ob.id, "harness": h.id, "note": ob.note,
                                       "witness": h.witness(wvals),
                                       "inputs": {k: jsonable(v) for k, v in wvals.items()}})
                break
        if clean_path and collect_validation and len(res.validate) < 10_000:
            # only fully discharged paths are cross-validated against the un-shadowed code
            w = h.witness(vals)
            if w is not None:
                res.validate.append(w)
        # generational search
        for i in range(bound, len(path)):
            t, k, kind = path[i]
            if kind == "def":
                continue  # definitional extension over fresh variables: never flipped
            neg = z3.Not(t) if k else t
            if kind == "case":
                # one arm of a finite multi-way split (e.g. the digit count of a rendered integer): enumerate the arms
                if len(extra) < 64:
                    work.append((pc[:i], extra + [neg], i))
                continue
            if kind == "pin-finite":
                if len(extra) < 40:
                    work.append((pc[:i], extra + [neg], i))
                else:
                    res.pin_chains_cut += 1
                continue
            if kind == "pin-bytes":
                if len(extra) < 16:
                    work.append((pc[:i], extra + [neg], i))
                else:
                    res.pin_chains_cut += 1
                continue
            if kind == "pin-str":
                # concretised strings: sampled, with a longer exclusion chain than numbers (no boundary values to try)
                if len(extra) < 16:
                    work.append((pc[:i], extra + [neg], i))
                else:
                    res.pin_chains_cut += 1
                if not extra and str_cands < 90:
                    for cand in _string_candidates(t):
                        str_cands += 1
                        work.append((pc[:i], [cand], i))
                continue
            if kind == "pin":
                # a flipped pin is a persistent constraint of all descendants; the position stays open.
                # Concretised values with an unbounded domain are *sampled*: the chain of exclusions is cut at
                # MAX_PIN_CHAIN (counted), and boundary values of the pinned term are tried first.
                if len(extra) >= MAX_PIN_CHAIN:
                    res.pin_chains_cut += 1
                    continue
                work.append((pc[:i], extra + [neg], i))
                if len(extra) <= 1 and all(getattr(e, "_vf_cand", False) for e in extra):
                    # boundary values, and values next to the other integer inputs (two operands that must be close to
                    # each other, e.g. distinct integers that round to the same double); one level of nesting
                    for cand in _boundary_candidates(t) + _relative_candidates(t, h.vars):
                        cand._vf_cand = True
                        work.append((pc[:i], extra + [cand], i))
            else:
                work.append((pc[:i] + [neg], extra, i + 1))
    res.wall_s = time.time() - t_start
    return res
