"""Concrete oracles for C01 (real, un-shadowed code; no z3)."""
import math
import operator
import struct

from .util import make_program, evaluate_outcome

OPS = {"add": ("+", operator.add), "sub": ("-", operator.sub), "mul": ("*", operator.mul),
       "div": ("/", operator.truediv), "mod": ("%", operator.mod)}


def _exact(op, a, b):
    """(is_error, value) of CEL integer arithmetic before range checking"""
    if op == "add":
        return False, a + b
    if op == "sub":
        return False, a - b
    if op == "mul":
        return False, a * b
    if op == "neg":
        return False, -a
    if b == 0:
        return True, None
    if op == "div":
        q = abs(a) // abs(b)
        return False, -q if (a < 0) != (b < 0) else q
    if op == "mod":
        r = abs(a) % abs(b)
        return False, -r if a < 0 else r
    raise ValueError(op)


def int_binop(kind, op, route, a, b):
    import celpy
    from celpy import celtypes as ct
    cls = ct.IntType if kind == "int" else ct.UintType
    lo, hi = (-(2**63), 2**63 - 1) if kind == "int" else (0, 2**64 - 1)
    err, val = _exact(op, a, b)
    if op == "neg" and kind == "uint":
        err = True
    if not err and not (lo <= val <= hi):
        err = True
    ca, cb = cls(a), cls(b)
    if route == "api":
        thunk = (lambda: -ca) if op == "neg" else (lambda: OPS[op][1](ca, cb))
    elif route == "api-reflected":
        thunk = lambda: OPS[op][1](int(a), cb)
    else:
        prog = make_program("-a" if op == "neg" else f"a {OPS[op][0]} b", route)
        thunk = lambda: prog.evaluate({"a": ca, "b": cb} if op != "neg" else {"a": ca})
    kindo, r = evaluate_outcome(thunk)
    if kindo == "escape":
        if route in ("api", "api-reflected") and isinstance(r, (ValueError, ZeroDivisionError, OverflowError, TypeError)):
            kindo = "error"
        else:
            return False, f"{type(r).__name__} escaped: {r}"
    if err:
        return kindo == "error", f"expected an error for {a} {op} {b}, got {kindo} {r!r}"
    if kindo != "value":
        return False, f"expected {val} for {a} {op} {b}, got {kindo} {r!r}"
    return (int(r) == val), f"expected {val} for {a} {op} {b}, got {int(r)}"


def int_chain(kind, src, runner, a, b, c):
    import celpy
    from celpy import celtypes as ct
    cls = ct.IntType if kind == "int" else ct.UintType
    lo, hi = (-(2**63), 2**63 - 1) if kind == "int" else (0, 2**64 - 1)
    toks = src.split()
    sym2op = {v[0]: k for k, v in OPS.items()}
    op1, op2 = sym2op[toks[1]], sym2op[toks[3]]
    tight = lambda o: o in ("mul", "div", "mod")

    def step(op, x, y):
        e, v = _exact(op, x, y)
        if e or not (lo <= v <= hi):
            raise ArithmeticError
        return v
    try:
        if tight(op2) and not tight(op1):
            val = step(op1, a, step(op2, b, c))
        else:
            val = step(op2, step(op1, a, b), c)
        err = False
    except ArithmeticError:
        err, val = True, None
    prog = make_program(src, runner)
    kindo, r = evaluate_outcome(lambda: prog.evaluate({"a": cls(a), "b": cls(b), "c": cls(c)}))
    if kindo == "escape":
        return False, f"{type(r).__name__} escaped"
    if err:
        return kindo == "error", f"expected error for {src} with {a},{b},{c}; got {kindo} {r!r}"
    return kindo == "value" and int(r) == val, f"expected {val} for {src} with {a},{b},{c}; got {kindo} {r!r}"


def _bits(f):
    return struct.unpack("<Q", struct.pack("<d", f))[0]


def _same(a, b):
    if a != a or b != b:
        return a != a and b != b
    return _bits(a) == _bits(b)


def ieee(op, x, y):
    """IEEE-754 binary64 result, written without relying on the code under test"""
    if op == "neg":
        return -x
    if op == "add":
        return x + y
    if op == "sub":
        return x - y
    if op == "mul":
        return x * y
    if op == "div":
        if x != x or y != y:
            return math.nan
        if y == 0.0:
            if x == 0.0:
                return math.nan
            neg = (math.copysign(1.0, x) < 0) != (math.copysign(1.0, y) < 0)
            return -math.inf if neg else math.inf
        return x / y
    raise ValueError(op)


def double_op(op, route, x, y):
    import celpy
    from celpy import celtypes as ct
    exp = ieee(op, x, y)
    cx, cy = ct.DoubleType(x), ct.DoubleType(y)
    if route == "api":
        thunk = (lambda: -cx) if op == "neg" else (lambda: OPS[op][1](cx, cy))
    elif route == "api-reflected":
        thunk = lambda: OPS[op][1](float(x), cy)
    else:
        prog = make_program("-x" if op == "neg" else f"x {OPS[op][0]} y", route)
        thunk = lambda: prog.evaluate({"x": cx, "y": cy} if op != "neg" else {"x": cx})
    kindo, r = evaluate_outcome(thunk)
    if kindo != "value" or not isinstance(r, float):
        return False, f"{x!r} {op} {y!r}: expected {exp!r}, got {kindo} {r!r}"
    return _same(float(r), exp), f"{x!r} {op} {y!r}: expected {exp!r}, got {float(r)!r}"


def neg_spellings(kind, runner, a):
    from celpy import celtypes as ct
    cls = ct.IntType if kind == "int" else ct.UintType
    MIN = -(2**63)
    for src, n in (("--a", 2), ("- -a", 2), ("-(-a)", 2), ("---a", 3), ("-(-(-a))", 3), ("- - - -a", 4), ("0 - -a", "0--"), ("-a - -a", "zero")):
        prog = make_program(src, runner)
        kd, r = evaluate_outcome(lambda: prog.evaluate({"a": cls(a)}))
        if kd == "escape":
            return False, f"`{src}` with a={a} ({kind}) under {runner}: {type(r).__name__} escaped"
        if kind == "uint" or a == MIN:
            if kd != "error":
                return False, f"`{src}` with a={a} ({kind}) under {runner}: negation must be an error here, got {r!r}"
            continue
        want = a if n in (2, 4, "0--") else (0 if n == "zero" else -a)
        if kd != "value" or int(r) != want:
            return False, f"`{src}` with a={a} ({kind}) under {runner}: expected {want}, got {kd} {r!r}"
    return True, "ok"
