"""Concrete oracle for C02: three-valued tables from the statement, on the real code."""
from .util import make_program, evaluate_outcome

T, F, E, N, U = "T", "F", "E", "N", "U"


def leaf_src(kind, i):
    return {
        "div": f"(1 / x{i} == 1)", "idx": f"([1, 0][x{i}] == 1)", "key": f"{{1: true, 2: false}}[x{i}]",
        "bool": f"x{i}", "int": f"x{i}", "undecl": f"nope{i}", "noov": f"('a' < x{i})",
        "map": f"([x{i}].map(y, 1 / y)[0] == 1)",
        "ovf": f"(int(1.0 / 0.0) == x{i})", "conv": f"(int('1a') == x{i})", "uint": f"(uint(x{i}) == 1u)",
        "attr": f"('a'.getDate() == x{i})", "tzarg": f"(duration('1h').getHours('UTC') == x{i})",
    }[kind]


def leaf_class(kind, x):
    if kind in ("div", "map"):
        return (T if x == 1 else E if x == 0 else F), None
    if kind == "idx":
        if x < 0:
            return U, None  # negative indexes are C09's subject
        return (T if x == 0 else F if x == 1 else E), None
    if kind == "key":
        return (T if x == 1 else F if x == 2 else E), None
    if kind == "bool":
        return (T if x else F), None
    if kind == "int":
        return N, x
    if kind == "uint":
        return (T if x == 1 else E if x < 0 else F), None
    return E, None


def src_of(t, kinds):
    if t[0] == "leaf":
        return leaf_src(kinds[t[1]], t[1])
    if t[0] == "not":
        return f"!({src_of(t[1], kinds)})"
    if t[0] == "and":
        return f"({src_of(t[1], kinds)} && {src_of(t[2], kinds)})"
    if t[0] == "or":
        return f"({src_of(t[1], kinds)} || {src_of(t[2], kinds)})"
    return f"({src_of(t[1], kinds)} ? {src_of(t[2], kinds)} : {src_of(t[3], kinds)})"


def src_min(t, kinds, ctx="expr"):
    """the same tree written with the fewest parentheses CEL's grammar allows (`?:` right-associative and lowest, then `||`, then `&&`,
    both left-associative): un-parenthesised chains `a || b || c`, `a && b && c`, `c1 ? x : c2 ? y : z`"""
    if t[0] == "leaf":
        return leaf_src(kinds[t[1]], t[1])
    if t[0] == "not":
        return f"!({src_min(t[1], kinds)})" if t[1][0] != "leaf" else f"!{leaf_src(kinds[t[1][1]], t[1][1])}"
    if t[0] == "and":
        s = f"{src_min(t[1], kinds, 'and-left')} && {src_min(t[2], kinds, 'and-right')}"
        return s if ctx in ("expr", "or-left", "or-right", "and-left") else f"({s})"
    if t[0] == "or":
        s = f"{src_min(t[1], kinds, 'or-left')} || {src_min(t[2], kinds, 'or-right')}"
        return s if ctx in ("expr", "or-left") else f"({s})"
    if t[0] == "cond":
        s = f"{src_min(t[1], kinds, 'or-left')} ? {src_min(t[2], kinds, 'or-left')} : {src_min(t[3], kinds, 'expr')}"
        return s if ctx == "expr" else f"({s})"
    raise ValueError(t)



def t_and(a, b):
    if a == F or b == F:
        return F
    if a == T and b == T:
        return T
    if a in (T, E) and b in (T, E):
        return E
    if a == N and b == N:
        return E
    return U


def t_or(a, b):
    if a == T or b == T:
        return T
    if a == F and b == F:
        return F
    if a in (F, E) and b in (F, E):
        return E
    if a == N and b == N:
        return E
    return U


def t_not(a):
    return {T: F, F: T, E: E}.get(a, U)


def spec(t, kinds, xs):
    if t[0] == "leaf":
        return leaf_class(kinds[t[1]], xs[t[1]])
    if t[0] == "not":
        return t_not(spec(t[1], kinds, xs)[0]), None
    if t[0] == "and":
        return t_and(spec(t[1], kinds, xs)[0], spec(t[2], kinds, xs)[0]), None
    if t[0] == "or":
        return t_or(spec(t[1], kinds, xs)[0], spec(t[2], kinds, xs)[0]), None
    c = spec(t[1], kinds, xs)[0]
    if c == T:
        return spec(t[2], kinds, xs)
    if c == F:
        return spec(t[3], kinds, xs)
    if c in (E, N):
        return E, None
    return U, None


def _tup(t):
    return tuple(_tup(x) if isinstance(x, list) else x for x in t)


def classify(kind, v):
    from celpy import celtypes as ct
    if kind == "error":
        return E, None
    if kind == "escape":
        return None, None
    if isinstance(v, (ct.BoolType, bool)):
        return (T if v else F), None
    if isinstance(v, int):
        return N, int(v)
    return None, None


def program(tree, kinds, runner, xs, flat=False):
    from celpy import celtypes as ct
    t = _tup(tree)
    src = src_min(t, kinds) if flat else src_of(t, kinds)
    exp, expval = spec(t, kinds, xs)
    b = {}
    for i, kd in enumerate(kinds):
        if kd == "undecl":
            continue
        b[f"x{i}"] = ct.BoolType(bool(xs[i])) if kd == "bool" else ct.IntType(xs[i])
    try:
        prog = make_program(src, runner)
    except Exception as ex:  # noqa: BLE001
        return False, f"`{src}` could not be built under {runner}: {type(ex).__name__}: {ex}"
    kind, v = evaluate_outcome(lambda: prog.evaluate(b))
    got, gotval = classify(kind, v)
    if got is None:
        return False, f"`{src}` xs={xs}: outcome {kind} {type(v).__name__}: {v!r}"
    if exp == U:
        return True, "unspecified by the statement"
    if got != exp:
        return False, f"`{src}` xs={xs} under {runner}: expected {exp}, got {got} ({kind} {v!r})"
    if exp == N and gotval != expval:
        return False, f"`{src}` xs={xs}: expected the selected value {expval}, got {gotval}"
    return True, "ok"


def macro(macro, pred, runner, xs):
    from celpy import celtypes as ct
    body = "1 / e == 1" if pred == "div" else "{1: true, 2: false}[e]"
    src = f"l.{macro}(e, {body})"
    classes = [leaf_class("div" if pred == "div" else "key", x)[0] for x in xs]
    if macro == "all":
        exp = F if F in classes else E if E in classes else T
    else:
        exp = T if T in classes else E if E in classes else F
    prog = make_program(src, runner)
    kind, v = evaluate_outcome(lambda: prog.evaluate({"l": ct.ListType([ct.IntType(x) for x in xs])}))
    got, _ = classify(kind, v)
    return got == exp, f"`{src}` l={xs} under {runner}: expected {exp}, got {got} ({kind} {v!r})"


def api(fn, ks, xs):
    import celpy
    from celpy import celtypes as ct

    def mkop(k, x):
        if k == 0:
            return ct.BoolType(bool(x)), (T if x else F)
        if k == 1:
            return celpy.CELEvalError("boom", ZeroDivisionError, ()), E
        return ct.IntType(x), N
    ops = [mkop(k, x) for k, x in zip(ks, xs)]
    cl = [c for _, c in ops]
    if fn == "and":
        exp, expval = t_and(*cl), None
    elif fn == "or":
        exp, expval = t_or(*cl), None
    elif fn == "not":
        exp, expval = t_not(cl[0]), None
    else:
        if cl[0] == T:
            exp, expval = cl[1], xs[1]
        elif cl[0] == F:
            exp, expval = cl[2], xs[2]
        else:
            exp, expval = E, None
    f = {"and": ct.logical_and, "or": ct.logical_or, "not": ct.logical_not, "cond": ct.logical_condition}[fn]
    try:
        r = f(*[o for o, _ in ops])
        if isinstance(r, celpy.CELEvalError):
            got, gv = E, None
        elif isinstance(r, ct.BoolType):
            got, gv = (T if r else F), None
        elif isinstance(r, int):
            got, gv = N, int(r)
        else:
            return False, f"logical_{fn}: unexpected result {r!r}"
    except TypeError:
        got, gv = E, None
    if exp == U:
        return True, "unspecified"
    if got != exp:
        return False, f"logical_{fn}{tuple(cl)} xs={xs}: expected {exp}, got {got}"
    if exp == N and gv != expval:
        return False, f"logical_{fn}: expected value {expval}, got {gv}"
    return True, "ok"
