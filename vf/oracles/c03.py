"""Concrete oracle for C03: both runners on the real code must agree."""
import math

from .util import make_program, evaluate_outcome
from . import values as V


def same_value(a, b):
    """strict structural equality of two CEL results (NaN equal to NaN; distinguishes -0.0/0.0? no: CEL == semantics for doubles)"""
    if a is None or b is None:
        return a is None and b is None
    if isinstance(a, type) or isinstance(b, type):
        return a is b
    if isinstance(a, float) and isinstance(b, float):
        if math.isnan(a) or math.isnan(b):
            return math.isnan(a) and math.isnan(b)
        return float(a) == float(b) and math.copysign(1, a) == math.copysign(1, b)
    if isinstance(a, (list, tuple)) and isinstance(b, (list, tuple)):
        return len(a) == len(b) and all(same_value(x, y) for x, y in zip(a, b))
    if isinstance(a, dict) and isinstance(b, dict):
        if len(a) != len(b):
            return False
        for k, v in a.items():
            hit = [kb for kb in b if type(kb) is type(k) and _raw(kb) == _raw(k)]
            if not hit or not same_value(v, b[hit[0]]):
                return False
        return True
    if isinstance(a, bool) or isinstance(b, bool) or type(a).__name__ == "BoolType" or type(b).__name__ == "BoolType":
        return isinstance(a, int) and isinstance(b, int) and bool(a) == bool(b)
    if isinstance(a, int) and isinstance(b, int):
        return int(a) == int(b)
    if isinstance(a, str) and isinstance(b, str):
        return str.__eq__(a, b)
    if isinstance(a, bytes) and isinstance(b, bytes):
        return bytes(a) == bytes(b)
    try:
        return bool(a == b)
    except Exception:  # noqa: BLE001
        return False


def _raw(k):
    if isinstance(k, str):
        return ("s", str.__str__(k))
    if isinstance(k, int):
        return ("i", int(k))
    return ("o", k)


def agree(src, bindings):
    b = {n: V.from_json(j) for n, j in bindings.items()}
    try:
        pi = make_program(src, "interp")
    except Exception as ex:  # noqa: BLE001
        return True, f"interpreter cannot be given the program ({type(ex).__name__}); nothing to compare"
    ki, vi = evaluate_outcome(lambda: pi.evaluate(dict(b)))
    try:
        pc = make_program(src, "compiled")
    except Exception as ex:  # noqa: BLE001
        if ki == "value":
            return False, f"`{src}`: compiled runner fails at construction ({type(ex).__name__}: {ex}) but the interpreter returns {vi!r}"
        return True, "construction failure, interpreter has no value either"
    kc, vc = evaluate_outcome(lambda: pc.evaluate(dict(b)))
    where = f"`{src}` with {{{', '.join(f'{n}={v!r}' for n, v in b.items())}}}"
    if ki == "escape" and kc == "escape":
        return True, "both escape (C04's subject)"
    if ki != kc:
        return False, f"{where}: interpreter {ki} {vi!r:.120}; compiled {kc} {vc!r:.120}"
    if ki != "value":
        return True, "both error"
    if not same_value(vi, vc):
        return False, f"{where}: interpreter value {vi!r:.120}; compiled value {vc!r:.120}"
    if type(vi) is not type(vc):
        return False, f"{where}: interpreter class {type(vi).__name__}; compiled class {type(vc).__name__}"
    return True, "agree"


def repeat(src, vals):
    """one program per runner evaluated with a sequence of activations binding different name sets"""
    from celpy import celtypes as ct
    I = ct.IntType
    progs = {r: make_program(src, r) for r in ("interp", "compiled")}
    seq = [{"a": I(vals["a"]), "b": I(vals["b"])}, {"a": I(vals["a2"])}, {"b": I(vals["b2"])}, {}, {"a": I(vals["a2"]), "b": I(vals["b2"])}, {"b": I(vals["b"])}]
    for i, act in enumerate(seq):
        ki, vi = evaluate_outcome(lambda: progs["interp"].evaluate(dict(act)))
        kc, vc = evaluate_outcome(lambda: progs["compiled"].evaluate(dict(act)))
        if ki != kc or (ki == "value" and (vi != vc or type(vi) is not type(vc))):
            return False, f"`{src}`, evaluation {i + 1} of the same programs with bindings {sorted(act)}: interp {ki} {vi!r:.60}, compiled {kc} {vc!r:.60}"
    return True, "ok"


def ident(name, vals):
    from celpy import celtypes as ct
    I = ct.IntType
    b = {name: I(vals["n"]), "a": I(vals["a"]), "b": I(vals["b"])}
    for src in [f"{name} + a", f"[a, b].map({name}, {name} + 1)[1]", f"[a].exists({name}, {name} == a) && {name} == b", f"{name} > a ? {name} : a", f"[{name}][0] - a"]:
        try:
            pi = make_program(src, "interp")
        except Exception:  # noqa: BLE001 - not an expression the interpreter accepts: nothing to compare
            continue
        try:
            pc = make_program(src, "compiled")
        except Exception as ex:  # noqa: BLE001
            return False, f"`{src}`: compiled runner failed at program construction: {type(ex).__name__}: {ex}"
        ki, vi = evaluate_outcome(lambda: pi.evaluate(dict(b)))
        kc, vc = evaluate_outcome(lambda: pc.evaluate(dict(b)))
        if ki != kc or (ki == "value" and (vi != vc or type(vi) is not type(vc))):
            return False, f"`{src}` with {name} = {vals['n']}: interp {ki} {vi!r:.60}, compiled {kc} {vc!r:.60}"
    return True, "ok"
