"""Concrete oracles for C04 (real code)."""
from .util import make_program, evaluate_outcome
from . import values as V


def _renders(e):
    try:
        str(e)
        repr(e)
        return None
    except Exception as ex:  # noqa: BLE001
        return f"{type(ex).__name__}: {ex}"


def no_escape(src, runner, bindings):
    import celpy
    b = {n: V.from_json(j) for n, j in bindings.items()}
    try:
        prog = make_program(src, runner)
    except celpy.CELParseError:
        return True, "parse error"
    except Exception as ex:  # noqa: BLE001
        return False, f"`{src}` under {runner}: {type(ex).__name__} at program construction: {ex}"
    kind, v = evaluate_outcome(lambda: prog.evaluate(dict(b)))
    if kind == "escape":
        return False, f"`{src}` under {runner} with {b!r:.160}: {type(v).__name__} escaped: {v}"
    if kind == "error":
        bad = _renders(v)
        if bad:
            return False, f"`{src}` under {runner}: the evaluation error cannot be rendered: {bad}"
    return True, kind


def compile_any(text):
    import celpy
    for runner in (celpy.InterpretedRunner, celpy.CompiledRunner):
        celpy.CELParser.CEL_PARSER = None
        env = celpy.Environment(runner_class=runner)
        try:
            env.compile(text)
        except celpy.CELParseError as ex:
            bad = _renders(ex)
            if bad:
                return False, f"compile({text!r}): parse error cannot be rendered: {bad}"
            lines = text.split("\n")
            if ex.line is None or ex.column is None:
                return False, f"compile({text!r}): CELParseError without line/column"
            if not (1 <= ex.line <= max(1, len(lines))):
                return False, f"compile({text!r}): line {ex.line} outside the text ({len(lines)} lines)"
            ln = lines[ex.line - 1] if ex.line - 1 < len(lines) else ""
            if not (1 <= ex.column <= len(ln) + 1):
                return False, f"compile({text!r}): column {ex.column} outside line {ex.line!r} of length {len(ln)}"
        except Exception as ex:  # noqa: BLE001
            return False, f"compile({text!r}): {type(ex).__name__} escaped: {ex}"
    return True, "ok"


def parse_wrapper(kind, line, col):
    import lark
    from lark.exceptions import UnexpectedCharacters, UnexpectedToken, UnexpectedEOF, LexError, ParseError
    import celpy.celparser as cp
    text = "a +\n  b ?? c\nd"
    if kind == "UnexpectedCharacters":
        exc = UnexpectedCharacters(text, 9, line, col)
    elif kind == "UnexpectedToken":
        exc = UnexpectedToken(lark.Token("QMARK", "?", start_pos=9, line=line, column=col), {"IDENT"})
    elif kind == "UnexpectedEOF":
        exc = UnexpectedEOF(["IDENT"])
    elif kind == "LexError":
        exc = LexError("lexing failed\nsecond line")
    else:
        exc = ParseError("parsing failed\nsecond line")

    class Stub:
        def parse(self, t):
            raise exc
    parser = cp.CELParser()
    saved = cp.CELParser.CEL_PARSER
    stub = Stub()
    cp.CELParser.CEL_PARSER = stub
    if hasattr(parser, "parser"):
        parser.parser = stub
    try:
        try:
            parser.parse(text)
            return False, "stubbed Lark error swallowed"
        except cp.CELParseError as ex:
            if kind in ("UnexpectedCharacters", "UnexpectedToken") and (ex.line != line or ex.column != col):
                return False, f"{kind} at {line}:{col} reported as {ex.line}:{ex.column}"
            bad = _renders(ex)
            return bad is None, f"render: {bad}"
        except Exception as ex:  # noqa: BLE001
            return False, f"{type(ex).__name__} escaped CELParser.parse"
    finally:
        cp.CELParser.CEL_PARSER = saved


_DEEP = r"""
import sys, celpy
from celpy import celtypes as ct
src = sys.argv[1]
for R in (celpy.InterpretedRunner, celpy.CompiledRunner):
    env = celpy.Environment(runner_class=R)
    try:
        prog = env.program(env.compile(src))
        v = prog.evaluate({"x": ct.IntType(int(sys.argv[2]))})
        print(R.__name__, "value", repr(v)[:60])
    except celpy.CELEvalError as e:
        print(R.__name__, "error", str(e)[:60].replace(chr(10), " "))
    except celpy.CELParseError as e:
        print(R.__name__, "parse-error")
    except BaseException as e:
        print(R.__name__, "ESCAPE", type(e).__name__)
"""


def deep_expression(calls, lists, adds, terms, zero):
    """an expression inside CEL's minimum nesting limits, in a fresh process (fresh recursion limit), both runners"""
    import os
    import subprocess
    import sys
    e = " + ".join(["x"] + ["1"] * adds)
    if zero:
        e = f"({e}) / (x - x)"
    for _ in range(lists):
        e = f"[{e}][0]"
    for _ in range(calls):
        e = f"int({e})"
    if terms > 1:
        half = terms // 2
        e = " || ".join([f"({e}) < 0"] * half) + " || (" + " && ".join([f"({e}) > 0"] * (terms - half)) + ")"
    env = dict(os.environ)
    env["PYTHONPATH"] = os.path.join(os.environ.get("VERIF_REPO", "/repo"), "src")
    p = subprocess.run([sys.executable, "-c", _DEEP, e, "1"], capture_output=True, text=True, env=env, timeout=300)
    lines = p.stdout.splitlines()
    bad = [ln for ln in lines if "ESCAPE" in ln] or ([] if len(lines) == 2 else [f"process failed: {p.stderr[-200:]}"])
    return not bad, f"expression with {calls} nested calls, {lists} nested lists, {adds} additions, {terms} logical terms ({len(e)} chars): {'; '.join(lines) or p.stderr[-200:]}"


def compile_sequence(n, every_bad):
    """one Environment per runner class, n compile() calls in a row on distinct texts, every `every_bad`-th malformed, each valid text also
    built and evaluated: every call ends in a tree / value or the library's own errors, however many calls came before"""
    import celpy
    for runner in (celpy.InterpretedRunner, celpy.CompiledRunner):
        env = celpy.Environment(runner_class=runner)
        for i in range(n):
            bad = every_bad and i % every_bad == 0
            text = f"{i} +* {i}" if bad else f"x + {i} > {i // 2}"
            try:
                ast = env.compile(text)
                if bad:
                    return False, f"compile({text!r}) (call {i + 1} on one Environment, {runner.__name__}) returned a tree"
                if i % 16 == 1:
                    env.program(ast).evaluate({"x": celpy.celtypes.IntType(i)})
            except celpy.CELParseError:
                if not bad:
                    return False, f"compile({text!r}) (call {i + 1}) raised CELParseError for a valid text"
            except celpy.CELEvalError:
                pass
            except Exception as ex:  # noqa: BLE001
                return False, f"compile({text!r}) as call {i + 1} on one Environment ({runner.__name__}): {type(ex).__name__} escaped: {ex}"
        # the same texts again (a cache hit path), then a burst of repeated failures
        for i in list(range(0, n, 7)) + [0] * 40:
            text = f"{i} +* {i}" if (every_bad and i % every_bad == 0) else f"x + {i} > {i // 2}"
            try:
                env.compile(text)
            except celpy.CELParseError:
                pass
            except Exception as ex:  # noqa: BLE001
                return False, f"compile({text!r}) repeated on one Environment ({runner.__name__}): {type(ex).__name__} escaped: {ex}"
    return True, "ok"
