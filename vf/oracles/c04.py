"""Concrete oracles for C04 (real code)."""
from .util import make_program, evaluate_outcome
from . import values as V


def _renders(e):
    try:
        str(e)
        repr(e)
        return None
    except Exception as ex:  # noqa: BLE001
        return f"{type(ex).__name__}: {ex}"


def no_escape(src, runner, bindings):
    import celpy
    b = {n: V.from_json(j) for n, j in bindings.items()}
    try:
        prog = make_program(src, runner)
    except celpy.CELParseError:
        return True, "parse error"
    except Exception as ex:  # noqa: BLE001
        return False, f"`{src}` under {runner}: {type(ex).__name__} at program construction: {ex}"
    kind, v = evaluate_outcome(lambda: prog.evaluate(dict(b)))
    if kind == "escape":
        return False, f"`{src}` under {runner} with {b!r:.160}: {type(v).__name__} escaped: {v}"
    if kind == "error":
        bad = _renders(v)
        if bad:
            return False, f"`{src}` under {runner}: the evaluation error cannot be rendered: {bad}"
    return True, kind


def compile_any(text):
    import celpy
    for runner in (celpy.InterpretedRunner, celpy.CompiledRunner):
        celpy.CELParser.CEL_PARSER = None
        env = celpy.Environment(runner_class=runner)
        try:
            env.compile(text)
        except celpy.CELParseError as ex:
            bad = _renders(ex)
            if bad:
                return False, f"compile({text!r}): parse error cannot be rendered: {bad}"
            lines = text.split("\n")
            if ex.line is None or ex.column is None:
                return False, f"compile({text!r}): CELParseError without line/column"
            if not (1 <= ex.line <= max(1, len(lines))):
                return False, f"compile({text!r}): line {ex.line} outside the text ({len(lines)} lines)"
            ln = lines[ex.line - 1] if ex.line - 1 < len(lines) else ""
            if not (1 <= ex.column <= len(ln) + 1):
                return False, f"compile({text!r}): column {ex.column} outside line {ex.line!r} of length {len(ln)}"
        except Exception as ex:  # noqa: BLE001
            return False, f"compile({text!r}): {type(ex).__name__} escaped: {ex}"
    return True, "ok"


def parse_wrapper(kind, line, col):
    import lark
    from lark.exceptions import UnexpectedCharacters, UnexpectedToken, UnexpectedEOF, LexError, ParseError
    import celpy.celparser as cp
    text = "a +\n  b ?? c\nd"
    if kind == "UnexpectedCharacters":
        exc = UnexpectedCharacters(text, 9, line, col)
    elif kind == "UnexpectedToken":
        exc = UnexpectedToken(lark.Token("QMARK", "?", start_pos=9, line=line, column=col), {"IDENT"})
    elif kind == "UnexpectedEOF":
        exc = UnexpectedEOF(["IDENT"])
    elif kind == "LexError":
        exc = LexError("lexing failed\nsecond line")
    else:
        exc = ParseError("parsing failed\nsecond line")

    class Stub:
        def parse(self, t):
            raise exc
    parser = cp.CELParser()
    saved = cp.CELParser.CEL_PARSER
    stub = Stub()
    cp.CELParser.CEL_PARSER = stub
    if hasattr(parser, "parser"):
        parser.parser = stub
    try:
        try:
            parser.parse(text)
            return False, "stubbed Lark error swallowed"
        except cp.CELParseError as ex:
            if kind in ("UnexpectedCharacters", "UnexpectedToken") and (ex.line != line or ex.column != col):
                return False, f"{kind} at {line}:{col} reported as {ex.line}:{ex.column}"
            bad = _renders(ex)
            return bad is None, f"render: {bad}"
        except Exception as ex:  # noqa: BLE001
            return False, f"{type(ex).__name__} escaped CELParser.parse"
    finally:
        cp.CELParser.CEL_PARSER = saved
