"""Concrete oracle for C05: the history and the solo evaluation each run in their own fresh interpreter process."""
import json
import os
import subprocess
import sys


def _solo(hist):
    last = hist[-1]
    if last["op"] == "session":
        return [last]
    env = last["env"]
    steps = []
    for st in hist:
        if st.get("env") != env:
            continue
        if st["op"] == "env":
            steps = [st]
        elif st["op"] == "prog":
            steps = [s for s in steps if s["op"] == "env"] + [st]
    return steps + [last]


def _run(hist, vals):
    env = dict(os.environ)
    here = os.path.dirname(os.path.dirname(os.path.dirname(os.path.abspath(__file__))))
    env["PYTHONPATH"] = here + os.pathsep + os.path.join(os.environ.get("VERIF_REPO", "/repo"), "src")
    p = subprocess.run([sys.executable, "-m", "vf.oracles.c05_run"], input=json.dumps({"hist": hist, "vals": vals}),
                       capture_output=True, text=True, env=env, timeout=120)
    if p.returncode != 0:
        raise RuntimeError(f"history runner failed: {p.stderr[-400:]}")
    return json.loads(p.stdout.strip().splitlines()[-1])


def history(hist, vals):
    h = _run(hist, vals)
    s = _run(_solo(hist), vals)
    desc = " ; ".join(f"{st['op']}:{st.get('env')}:{st.get('runner', '')}:{st.get('expr', '')}{st.get('names', st.get('bind', ''))}" for st in hist)
    if not h["intact"]:
        return False, f"evaluate() modified the caller's bindings [{desc}]"
    if h["kind"] != s["kind"] or h["value"] != s["value"]:
        return False, f"after the history: {h['kind']} {h['value']}; alone in a fresh process: {s['kind']} {s['value']}  [{desc}] vals={vals}"
    return True, "same outcome"
