"""Runs one API history in this (fresh) process and prints the outcome of its last evaluation as JSON."""
import json
import logging
import sys


def main():
    logging.disable(logging.CRITICAL)
    d = json.loads(sys.stdin.read())
    hist, vals = d["hist"], d["vals"]
    import celpy
    from celpy import celtypes as ct
    envs, progs, out = {}, {}, None

    def mkenv(st):
        Rc = celpy.InterpretedRunner if st["runner"] == "interp" else celpy.CompiledRunner
        ann = {n: ct.IntType for n in st.get("declare", [])} or None
        return celpy.Environment(package=st.get("package"), annotations=ann, runner_class=Rc)

    def outcome(thunk):
        try:
            return "value", thunk()
        except celpy.CELEvalError as e:
            return "error", e
        except Exception as e:  # noqa: BLE001
            return "escape", e

    kept = {}

    def plain(v):
        if isinstance(v, list):
            return [plain(x) for x in v]
        if isinstance(v, dict):
            return {str(k): plain(x) for k, x in v.items()}
        return repr(v)

    def do_eval(prog, b):
        keys, objs = list(b), dict(b)
        snap = {k: plain(v) for k, v in b.items()}
        kd, r = outcome(lambda: prog.evaluate(b))
        intact = list(b) == keys and all(b[k] is objs[k] for k in b) and all(plain(b[k]) == snap[k] for k in b)
        if kd == "value":
            v = repr(r) if not isinstance(r, (dict,)) or type(r).__name__ == "MapType" else f"<{type(r).__name__}>"
        elif kd == "error":
            v = "error"
        else:
            v = type(r).__name__
        return {"kind": kd, "value": v, "intact": intact}

    def bindings_of(st):
        if st.get("keep") and st["keep"] in kept:
            return kept[st["keep"]]
        b = {n: ct.IntType(vals[f"{st['vars']}_{n.replace('.', '_')}"]) for n in st["names"]}
        if st.get("mapvar"):
            b = {st["mapvar"]: ct.MapType({ct.StringType("k"): b[st["names"][0]]})}
        if st.get("listvar"):
            b = {st["listvar"]: ct.ListType([b[st["names"][0]], ct.IntType(2)])}
            if st.get("emptyvar"):
                b[st["emptyvar"]] = ct.ListType([])
        if st.get("keep"):
            kept[st["keep"]] = b
        return b

    for st in hist:
        if st["op"] == "env":
            envs[st["env"]] = mkenv(st)
        elif st["op"] == "prog":
            e = envs[st["env"]]
            import operator
            fns = {n: getattr(operator, f) for n, f in st["functions"].items()} if st.get("functions") else None
            progs[st["env"]] = outcome(lambda: e.program(e.compile(st["expr"]), functions=fns))
        elif st["op"] == "eval":
            pk, p = progs[st["env"]]
            if pk != "value":
                out = {"kind": "construction-" + pk, "value": type(p).__name__, "intact": True}
                continue
            out = do_eval(p, bindings_of(st))
        else:
            if st["op"] == "session":
                envs[st["env"]] = mkenv(st)
            e = envs[st["env"]]
            import operator
            fns = {n: getattr(operator, f) for n, f in st["functions"].items()} if st.get("functions") else None
            pk, p = outcome(lambda: e.program(e.compile(st["expr"]), functions=fns))
            if pk != "value":
                out = {"kind": "construction-" + pk, "value": type(p).__name__, "intact": True}
                continue
            out = do_eval(p, {n: ct.IntType(vals[v]) for n, v in st["bind"].items()})
    print(json.dumps(out))


if __name__ == "__main__":
    main()
