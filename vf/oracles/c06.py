"""Concrete oracles for C06 (real, un-shadowed celpy parser; stdlib only, no z3).

Canonical tree: nested tuples (operator, operands...), parenthesis nodes and single-child chain nodes dropped.
  ('?:', c, a, b)  ('||', l, r)  ('&&', l, r)  ('<' | '<=' | '>' | '>=' | '==' | '!=' | 'in' | '+' | '-' | '*' | '/' | '%', l, r)
  ('!', x)  ('neg', x)  ('sel', obj, name)  ('mcall', obj, name, args...)  ('index', obj, e)  ('object', obj, (field, e)...)
  ('lit', TERMINAL, text)  ('ident', name)  ('dident', name)  ('call', name, args...)  ('dcall', name, args...)
  ('list', items...)  ('map', (key, value)...)
`ref_parse` is an independent precedence-climbing parser for the CEL grammar; `canon` reads the same form off a lark tree.
"""
import re

# ----------------------------------------------------------------------------- reference tokenizer
_STR = r"""(?:'''(?:\\.|[^\\])*?'''|\"\"\"(?:\\.|[^\\])*?\"\"\"|'(?:\\.|[^\\'\n])*'|"(?:\\.|[^\\"\n])*")"""
_NUM = r"(?:0x[0-9a-fA-F]+|[0-9]+)"
_TOKEN = re.compile(r"""
    (?P<WS>[\t\n\f\r ]+|//[^\n]*)
  | (?P<BYTES_LIT>[bB][rR]?%(s)s)
  | (?P<STR>[rR]?%(s)s)
  | (?P<FLOAT_LIT>[0-9]+\.[0-9]*(?:[eE][+-]?[0-9]+)?|[0-9]*\.[0-9]+(?:[eE][+-]?[0-9]+)?|[0-9]+[eE][+-]?[0-9]+)
  | (?P<UINT_LIT>%(n)s[uU])
  | (?P<INT_LIT>%(n)s)
  | (?P<IDENT>[_a-zA-Z][_a-zA-Z0-9]*)
  | (?P<OP>\|\||&&|<=|>=|==|!=|[-+*/%%!<>?:.,()\[\]{}])
""" % {"s": _STR, "n": _NUM}, re.X | re.S)
_OPERAND_END = {"IDENT", "INT_LIT", "UINT_LIT", "FLOAT_LIT", "STRING_LIT", "MLSTRING_LIT", "BYTES_LIT", "BOOL_LIT",
                "NULL_LIT", ")", "]", "}"}


class RefSyntaxError(Exception):
    pass


def ref_tokens(text):
    """[(type, text)]; operators and punctuation have type == text.  true/false/null are always literals, `in` is
    always the operator, whitespace and // comments vanish.  A '-' glued to a number where no operand precedes is part
    of the literal (cel.lark follows cel-spec issue 126 there)."""
    out, pos = [], 0
    while pos < len(text):
        m = _TOKEN.match(text, pos)
        if not m:
            raise RefSyntaxError(f"no token at offset {pos}: {text[pos:pos + 10]!r}")
        kind, s = m.lastgroup, m.group()
        pos = m.end()
        if kind == "WS":
            continue
        if kind == "STR":
            kind = "MLSTRING_LIT" if s.lstrip("rR")[:3] in ('"""', "'''") else "STRING_LIT"
        elif kind == "IDENT":
            kind = {"true": "BOOL_LIT", "false": "BOOL_LIT", "null": "NULL_LIT", "in": "in"}.get(s, "IDENT")
        elif kind == "OP":
            kind = s
        if kind in ("INT_LIT", "UINT_LIT", "FLOAT_LIT") and out and out[-1] == ("-", "-") and text[m.start() - 1] == "-" \
                and (len(out) < 2 or out[-2][0] not in _OPERAND_END):
            out.pop()
            s = "-" + s
        out.append((kind, s))
    return out


# ----------------------------------------------------------------------------- reference parser (precedence climbing)
BINARY = {"||": 1, "&&": 2, "<": 3, "<=": 3, ">": 3, ">=": 3, "==": 3, "!=": 3, "in": 3, "+": 4, "-": 4, "*": 5, "/": 5, "%": 5}
LITERALS = {"INT_LIT", "UINT_LIT", "FLOAT_LIT", "STRING_LIT", "MLSTRING_LIT", "BYTES_LIT", "BOOL_LIT", "NULL_LIT"}


class _Ref:
    def __init__(self, toks):
        self.toks, self.k = toks + [("<end>", "")], 0

    def peek(self):
        return self.toks[self.k][0]

    def take(self, kind=None):
        t = self.toks[self.k]
        if kind is not None and t[0] != kind:
            raise RefSyntaxError(f"expected {kind} at token {self.k}, found {t[1]!r}")
        self.k += 1
        return t[1]

    def expr(self):
        c = self.binary(1)
        if self.peek() != "?":
            return c
        self.take()
        a = self.binary(1)          # the middle operand is a ConditionalOr in the CEL grammar
        self.take(":")
        return ("?:", c, a, self.expr())   # right-associative

    def binary(self, minp):
        left = self.unary()
        while BINARY.get(self.peek(), 0) >= minp:
            op = self.take()
            left = (op, left, self.binary(BINARY[op] + 1))   # left-associative
        return left

    def unary(self):
        if self.peek() == "!":
            self.take()
            return ("!", self.unary())
        if self.peek() == "-":
            self.take()
            return ("neg", self.unary())
        return self.member()

    def member(self):
        m = self.primary()
        while True:
            if self.peek() == ".":
                self.take()
                name = self.take("IDENT")
                m = ("mcall", m, name) + self.args() if self.peek() == "(" else ("sel", m, name)
            elif self.peek() == "[":
                self.take()
                m = ("index", m, self.expr())
                self.take("]")
            elif self.peek() == "{":
                self.take()
                m = ("object", m) + self.pairs(lambda: self.take("IDENT"))
            else:
                return m

    def args(self, close=")"):
        self.take()
        items = []
        while self.peek() != close:
            if items:
                self.take(",")
            items.append(self.expr())
        self.take(close)
        return tuple(items)

    def pairs(self, key):
        items = []
        while self.peek() != "}":
            if items:
                self.take(",")
            k = key()
            self.take(":")
            items.append((k, self.expr()))
        self.take("}")
        return tuple(items)

    def primary(self):
        p = self.peek()
        if p in LITERALS:
            return ("lit", p, self.take())
        if p == ".":
            self.take()
            name = self.take("IDENT")
            return ("dcall", name) + self.args() if self.peek() == "(" else ("dident", name)
        if p == "IDENT":
            name = self.take()
            return ("call", name) + self.args() if self.peek() == "(" else ("ident", name)
        if p == "(":
            self.take()
            e = self.expr()
            self.take(")")
            return e
        if p == "[":
            return ("list",) + self.args("]")
        if p == "{":
            self.take()
            return ("map",) + self.pairs(self.expr)
        raise RefSyntaxError(f"unexpected {self.toks[self.k][1]!r} at token {self.k}")


def ref_parse(text):
    p = _Ref(ref_tokens(text))
    e = p.expr()
    p.take("<end>")
    return e


# ----------------------------------------------------------------------------- the real parser's tree in canonical form
_BIN_NODE = {"relation_lt": "<", "relation_le": "<=", "relation_gt": ">", "relation_ge": ">=", "relation_eq": "==",
             "relation_ne": "!=", "relation_in": "in", "addition_add": "+", "addition_sub": "-",
             "multiplication_mul": "*", "multiplication_div": "/", "multiplication_mod": "%"}
_UNARY_NODE = {"unary_not": "!", "unary_neg": "neg"}
_CHAIN = {"expr", "conditionalor", "conditionaland", "relation", "addition", "multiplication", "unary", "member", "primary",
          "paren_expr"}


def canon(t):
    """lark tree -> canonical tuple.  Node meaning is taken from the rule name, as the evaluators do."""
    ch = t.children
    d = t.data
    if d in _CHAIN and len(ch) == 1 and not _is_token(ch[0]):
        return canon(ch[0])
    if d == "expr" and len(ch) == 3:
        return ("?:",) + tuple(canon(c) for c in ch)
    if d in ("conditionalor", "conditionaland") and len(ch) == 2:
        return ("||" if d == "conditionalor" else "&&", canon(ch[0]), canon(ch[1]))
    if len(ch) == 2 and not _is_token(ch[0]) and ch[0].data in _BIN_NODE and len(ch[0].children) == 1:
        return (_BIN_NODE[ch[0].data], canon(ch[0].children[0]), canon(ch[1]))
    if len(ch) == 2 and not _is_token(ch[0]) and ch[0].data in _UNARY_NODE and not ch[0].children:
        return (_UNARY_NODE[ch[0].data], canon(ch[1]))
    if d == "member_dot" and len(ch) == 2:
        return ("sel", canon(ch[0]), str(ch[1]))
    if d == "member_dot_arg" and len(ch) in (2, 3):
        return ("mcall", canon(ch[0]), str(ch[1])) + (_items(ch[2]) if len(ch) == 3 else ())
    if d == "member_index" and len(ch) == 2:
        return ("index", canon(ch[0]), canon(ch[1]))
    if d == "member_object" and len(ch) in (1, 2):
        return ("object", canon(ch[0])) + (_pairs(ch[1], str) if len(ch) == 2 else ())
    if d == "literal" and len(ch) == 1 and _is_token(ch[0]):
        return ("lit", ch[0].type, str(ch[0]))
    if d in ("ident", "dot_ident") and len(ch) == 1 and _is_token(ch[0]):
        return ("ident" if d == "ident" else "dident", str(ch[0]))
    if d in ("ident_arg", "dot_ident_arg") and len(ch) in (1, 2) and _is_token(ch[0]):
        return ("call" if d == "ident_arg" else "dcall", str(ch[0])) + (_items(ch[1]) if len(ch) == 2 else ())
    if d == "list_lit" and len(ch) <= 1:
        return ("list",) + (_items(ch[0]) if ch else ())
    if d == "map_lit" and len(ch) <= 1:
        return ("map",) + (_pairs(ch[0], canon) if ch else ())
    raise ValueError(f"tree node {d} with {len(ch)} children is not one the CEL evaluators know")


def _is_token(x):
    return isinstance(x, str)


def _items(t):
    if t.data != "exprlist":
        raise ValueError(f"expected exprlist, found {t.data}")
    return tuple(canon(c) for c in t.children)


def _pairs(t, key):
    if t.data not in ("fieldinits", "mapinits") or len(t.children) % 2:
        raise ValueError(f"expected field/map initialisers, found {t.data}")
    return tuple((key(k), canon(v)) for k, v in zip(t.children[::2], t.children[1::2]))


def _real_parse(text, fresh=True):
    """(tree, None) or (None, message); `fresh` rebuilds the parser singleton (its history is C05's subject, not ours)"""
    import celpy
    if fresh:
        celpy.CELParser.CEL_PARSER = None
    try:
        return celpy.CELParser().parse(text), None
    except celpy.CELParseError as ex:
        return None, str(ex.args[0])[:200]


# ----------------------------------------------------------------------------- oracles
def parse_structure(text):
    """ok=False: the real parser builds a different tree than the CEL grammar prescribes, or rejects a CEL expression."""
    try:
        ref = ref_parse(text)
    except RefSyntaxError as ex:
        ref, ref_err = None, str(ex)
    tree, err = _real_parse(text)
    if ref is None:
        return True, ("both reject" if tree is None else f"not CEL ({ref_err}); the real parser accepts it as {canon(tree)!r}"
                      " (extension, not alarmed)")
    if tree is None:
        return False, f"{text!r} is a CEL expression {ref!r} but the real parser rejects it: {err}"
    got = canon(tree)
    return got == ref, f"{text!r}: CEL grammar gives {ref!r}, real parser gives {got!r}"


def dump_roundtrip(text, fresh=True):
    """ok=False: tree_dump of the parsed tree fails, does not re-parse, or re-parses to a different tree."""
    import celpy.celparser
    tree, err = _real_parse(text, fresh)
    if tree is None:
        return True, f"not parsed ({err}); nothing to round-trip"
    before = canon(tree)
    try:
        dumped = celpy.celparser.tree_dump(tree)
    except Exception as ex:  # noqa: BLE001 - any exception out of the dump is the finding
        return False, f"{text!r}: tree_dump raised {type(ex).__name__}: {ex}"
    again, err = _real_parse(dumped, fresh)
    if again is None:
        return False, f"{text!r}: dump {dumped!r} does not re-parse: {err}"
    after = canon(again)
    return after == before, f"{text!r}: dump {dumped!r} re-parses to {after!r}, original tree {before!r}"


def unambiguous(text):
    """ok=False: cel.lark gives `text` two parse trees (Earley with explicit ambiguity on the same grammar file).
    LALR would silently pick one of them."""
    import pathlib
    import celpy
    import lark
    grammar = (pathlib.Path(celpy.__file__).parent / "cel.lark").read_text()
    p = lark.Lark(grammar, parser="earley", lexer="basic", start="expr", ambiguity="explicit", maybe_placeholders=False,
                  g_regex_flags=re.M, lexer_callbacks={"IDENT": celpy.CELParser.ambiguous_literals})
    try:
        tree = p.parse(text)
    except lark.exceptions.LarkError as ex:
        return True, f"not in the language: {str(ex)[:120]}"
    n = sum(1 for _ in tree.find_data("_ambig"))
    return n == 0, f"{text!r}: {n} ambiguous node(s) in the Earley parse forest"


def bool_literal_callback(value):
    """ok=False: CELParser.ambiguous_literals does not map exactly the IDENT values true/false to BOOL_LIT."""
    import celpy
    import lark
    t = celpy.CELParser.ambiguous_literals(lark.Token("IDENT", value))
    want = "BOOL_LIT" if value in ("true", "false") else "IDENT"
    return (t.type == want and t.value == value), f"IDENT {value!r} -> {t.type} {t.value!r}, expected {want}"


def layout_sequence(texts):
    """several sources parsed one after the other by one parser object: each must get the tree of ITS OWN text (sources that
    differ only in layout inside a string literal or around a comment are different expressions)"""
    import celpy
    celpy.CELParser.CEL_PARSER = None
    parser = celpy.CELParser()
    for text in texts:
        try:
            ref = ref_parse(text)
        except RefSyntaxError:
            ref = None
        try:
            got = canon(parser.parse(text))
        except celpy.CELParseError:
            got = None
        if ref is not None and got != ref:
            return False, f"after parsing {texts[:texts.index(text)]!r}, {text!r} parses to {got!r}; its own tree is {ref!r}"
    return True, "ok"


def layout(text, canonical, holes):
    """a source with layout characters / comment characters / string-body characters at `holes`: the tree must be the tree of the
    canonical source; for the string families (canonical None) the single string token must hold the spelled characters"""
    src = "".join(chr(c) for c in text)
    tree, err = _real_parse(src, True)
    if tree is None:
        return False, f"{src!r} does not parse: {err}"
    if canonical is not None:
        ref, err = _real_parse(canonical, True)
        return canon(tree) == canon(ref), f"{src!r} parses to {canon(tree)!r}, the canonical source {canonical!r} to {canon(ref)!r}"
    toks = [t for t in tree.scan_values(lambda v: True) if getattr(t, "type", "") == "STRING_LIT"]
    q = src.index("==") + 3
    return len(toks) == 1 and str(toks[0]) == src[q:], f"{src!r}: string tokens {[str(t) for t in toks]!r}, spelled literal {src[q:]!r}"


def reparse_after_use(text):
    """one Environment: compile, build a program under each runner class and evaluate it (evaluation may touch the tree), then compile the
    same text again: the second tree is the tree a fresh parser gives, and it still survives the dump round trip"""
    import celpy
    import celpy.celparser
    celpy.CELParser.CEL_PARSER = None
    fresh_tree = celpy.CELParser().parse(text)
    fresh = canon(fresh_tree)
    for runner in (celpy.InterpretedRunner, celpy.CompiledRunner):
        celpy.CELParser.CEL_PARSER = None
        env = celpy.Environment(runner_class=runner)
        ast = env.compile(text)
        first = canon(ast)
        for _ in range(2):
            try:
                env.program(ast, functions={"f": lambda *a: celpy.celtypes.IntType(7), "g": lambda *a: celpy.celtypes.BoolType(True)}).evaluate(
                    {"x": celpy.celtypes.IntType(3), "m": celpy.celtypes.MapType({celpy.celtypes.StringType("k"): celpy.celtypes.IntType(1)})})
            except Exception:  # noqa: BLE001 - only the effect of an evaluation on later parses matters here
                pass
        again = env.compile(text)
        if canon(again) != fresh or first != fresh:
            return False, f"{text!r}: re-compiled by the same Environment after an evaluation ({runner.__name__}) gives {canon(again)!r}; a fresh parse gives {fresh!r}"
        if not (again == fresh_tree):
            # node for node (rule names, children, token texts), not only the operator structure
            return False, f"{text!r}: re-compiled by the same Environment after an evaluation ({runner.__name__}) gives the tree {again!r:.200}; a fresh parse gives {fresh_tree!r:.200}"
        try:
            back = canon(celpy.CELParser().parse(celpy.celparser.tree_dump(again)))
        except Exception as ex:  # noqa: BLE001
            return False, f"{text!r}: dump of the re-compiled tree does not re-parse: {type(ex).__name__}"
        if back != fresh:
            return False, f"{text!r}: dump of the re-compiled tree re-parses to {back!r}, not {fresh!r}"
    return True, "ok"
