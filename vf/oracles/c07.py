"""Concrete oracles for C07: full pipeline (real lexer, parser, both runners) on a concrete literal."""
from .util import make_program, evaluate_outcome


def string_literal(text, bytes, expected, tail=None, may_error=False):
    src = "".join(chr(c) for c in text)
    if tail:
        # `<literal> + <second literal>`: the first literal must be its own token (value = first + b"y"/"y")
        for runner in ("interp", "compiled"):
            try:
                prog = make_program(src + tail, runner)
                kd, v = evaluate_outcome(lambda: prog.evaluate({}))
            except Exception as ex:  # noqa: BLE001
                return False, f"`{src + tail}` under {runner}: {type(ex).__name__}: {ex}"
            got = list(v) if (bytes and kd == "value") else ([ord(c) for c in v] if kd == "value" else None)
            if may_error and kd == "error":
                continue
            if got != list(expected) + [ord("y")]:
                return False, f"`{src + tail}` under {runner}: {kd} {v!r:.80}; expected the first literal's value followed by 'y'"
    for runner in ("interp", "compiled"):
        try:
            prog = make_program(src, runner)
        except Exception as ex:  # noqa: BLE001
            return False, f"literal {src!r} under {runner}: {type(ex).__name__}: {ex}"
        kd, v = evaluate_outcome(lambda: prog.evaluate({}))
        if may_error and kd == "error":
            continue
        if kd != "value":
            return False, f"literal {src!r} under {runner}: {kd} {v!r}"
        got = list(v) if bytes else [ord(c) for c in v]
        if got != list(expected):
            return False, f"literal {src!r} under {runner}: decoded {got}, spelled {list(expected)}"
    return True, "ok"


def number_literal(text, typ):
    lo, hi = (-(2**63), 2**63 - 1) if typ == "int" else (0, 2**64 - 1)
    body = text.rstrip("uU")
    neg = body.startswith("-")
    mag = body[1:] if neg else body
    val = int(mag[2:], 16) if mag[:2] in ("0x", "0X") else int(mag, 10)
    val = -val if neg else val
    for runner in ("interp", "compiled"):
        try:
            prog = make_program(text, runner)
        except Exception as ex:  # noqa: BLE001
            return False, f"literal {text} under {runner}: {type(ex).__name__} at program construction: {ex}"
        kd, v = evaluate_outcome(lambda: prog.evaluate({}))
        if kd == "escape":
            return False, f"literal {text} under {runner}: {type(v).__name__} escaped"
        if lo <= val <= hi and not (neg and typ != "int"):
            if kd != "value" or int(v) != val:
                return False, f"literal {text} under {runner}: expected {val}, got {kd} {v!r}"
            if type(v).__name__ != ("IntType" if typ == "int" else "UintType"):
                return False, f"literal {text} under {runner}: class {type(v).__name__}"
        elif kd != "error":
            return False, f"literal {text} under {runner}: out of range, expected an error, got {v!r}"
    return True, "ok"


def float_literal(text):
    import math
    exp = float(text)
    for runner in ("interp", "compiled"):
        try:
            prog = make_program(text, runner)
        except Exception as ex:  # noqa: BLE001
            return False, f"literal {text} under {runner}: {type(ex).__name__}: {ex}"
        kd, v = evaluate_outcome(lambda: prog.evaluate({}))
        if kd != "value" or float(v) != exp or math.copysign(1, float(v)) != math.copysign(1, exp):
            return False, f"literal {text} under {runner}: expected {exp!r}, got {kd} {v!r}"
    return True, "ok"
