"""Concrete oracle for C08 (real code, no z3)."""
from .util import make_program, evaluate_outcome
from . import values as V

ORDERED = ("int", "uint", "double", "bool", "string", "bytes", "timestamp", "duration")


def laws(fam, runner, a, b, c=None):
    if V.has_nan(a) or V.has_nan(b) or (c is not None and V.has_nan(c)):
        return True, "NaN excluded"
    bind = {"a": V.from_json(a), "b": V.from_json(b)}
    if c is not None:
        bind["c"] = V.from_json(c)
    ordered = fam in ORDERED
    progs = ["a == b", "b == a", "a != b", "a == a", "b == b", "b != a"]
    if ordered:
        progs += ["a < b", "b > a", "a <= b", "a > b", "a >= b", "b < a"]
        if c is not None:
            progs += ["b < c", "a < c", "b == c", "a == c"]
    r = {}
    for src in progs:
        prog = make_program(src, runner)
        kind, val = evaluate_outcome(lambda: prog.evaluate(dict(bind)))
        if kind != "value":
            return False, f"`{src}` with a={V.show(a)} b={V.show(b)} gave {kind} {val!r}"
        r[src] = bool(val)
    where = f"a={V.show(a)} b={V.show(b)}" + (f" c={V.show(c)}" if c is not None else "")
    def bad(msg):
        return False, f"{msg}: {where} results={r}"
    if not (r["a == a"] and r["b == b"]):
        return bad("== not reflexive")
    if r["a == b"] != r["b == a"]:
        return bad("== not symmetric")
    if r["a != b"] != (not r["a == b"]) or r["b != a"] != (not r["b == a"]):
        return bad("!= is not the negation of ==")
    eq = V.ref_eq(a, b)
    if eq is not None and r["a == b"] != eq:
        return bad(f"== disagrees with reference equality ({eq})")
    if ordered:
        if r["a < b"] != r["b > a"]:
            return bad("a<b differs from b>a")
        if r["a <= b"] != (r["a < b"] or r["a == b"]):
            return bad("<= is not (< or ==)")
        if r["a >= b"] != (r["a > b"] or r["a == b"]):
            return bad(">= is not (> or ==)")
        if [r["a < b"], r["a == b"], r["a > b"]].count(True) != 1:
            return bad("not exactly one of <, ==, >")
        if r["a < b"] and r["b < a"]:
            return bad("< not asymmetric")
        lt, gt = V.ref_lt(a, b), V.ref_lt(b, a)
        if lt is not None and (r["a < b"] != lt or r["a > b"] != gt):
            return bad("< / > disagree with the reference order")
        if c is not None:
            if r["a < b"] and r["b < c"] and not r["a < c"]:
                return bad("< not transitive")
            if r["a == b"] and r["b == c"] and not r["a == c"]:
                return bad("== not transitive")
    return True, "laws hold"


PRODUCERS = [("true", lambda x: True), ("has(m.k)", lambda x: True), ("has(m.nope)", lambda x: False), ("(x > 0)", lambda x: x > 0),
             ("(x in [1, 2])", lambda x: x in (1, 2)), ("[1, 2].exists(e, e > x)", lambda x: x < 2), ("[1, 2].all(e, e > x)", lambda x: x < 1),
             ("!(x > 5)", lambda x: not x > 5), ("('k' in m)", lambda x: True), ("'ab'.startsWith('a')", lambda x: True),
             ("(x > 0 || x < -3)", lambda x: x > 0 or x < -3), ("(x > 0 ? true : false)", lambda x: x > 0), ("bool('true')", lambda x: True),
             ("[x].exists_one(e, e == 1)", lambda x: x == 1)]


def bool_results(i, runner, x):
    from celpy import celtypes as ct
    p, fp = PRODUCERS[i]
    b = {"x": ct.IntType(x), "m": ct.MapType({ct.StringType("k"): ct.IntType(1)})}
    for q, fq in PRODUCERS[:7]:
        pa, qa = fp(x), fq(x)
        for src, want in ((f"{p} == {q}", pa == qa), (f"{p} != {q}", pa != qa), (f"{p} < {q}", (not pa) and qa), (f"{p} >= {q}", pa or not qa)):
            try:
                prog = make_program(src, runner)
            except Exception as ex:  # noqa: BLE001
                return False, f"`{src}` under {runner}: {type(ex).__name__} at program construction"
            kd, r = evaluate_outcome(lambda: prog.evaluate(dict(b)))
            if kd != "value" or bool(r) != want:
                return False, f"`{src}` with x={x} under {runner}: expected {want}, got {kd} {r!r:.80}"
    return True, "ok"
