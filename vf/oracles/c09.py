"""Concrete oracle for C09 (real code): reference sequence semantics in plain Python."""
from .util import make_program, evaluate_outcome

LO, HI = -(2**63), 2**63 - 1


def _in64(v):
    return LO <= v <= HI


def _run(src, runner, b):
    p = make_program(src, runner)
    return evaluate_outcome(lambda: p.evaluate(dict(b)))


def law(law, runner, vals, **kw):
    from celpy import celtypes as ct
    I = ct.IntType

    def lst(name, n):
        return [vals[f"{name}_{i}"] for i in range(n)]

    def cel_list(xs):
        return ct.ListType([I(x) for x in xs])

    def string(name, n):
        return "".join(chr(vals[f"{name}_c{i}"]) for i in range(n))

    def fail(msg):
        return False, f"{law} under {runner}: {msg} (vals={vals})"

    if law == "map-affine":
        n, k = kw["n"], vals["k"]
        l = lst("l", n)
        kd, r = _run("l.map(x, x * 2 + k)", runner, {"l": cel_list(l), "k": I(k), "x": I(k)})
        exp, err = [], False
        for x in l:
            if not _in64(x * 2) or not _in64(x * 2 + k):
                err = True
            exp.append(x * 2 + k)
        if kd == "escape":
            return fail(f"escape {r!r}")
        if err:
            if kd != "error":
                return fail(f"overflow expected an error, got {r!r}")
        else:
            if kd != "value" or [int(x) for x in r] != exp:
                return fail(f"expected {exp}, got {kd} {r!r}")
        kd, r = _run("size(l.map(x, x - k)) == size(l)", runner, {"l": cel_list(l), "k": I(k)})
        err2 = any(not _in64(x - k) for x in l)
        if kd == "escape" or (kd == "error") != err2 or (kd == "value" and not bool(r)):
            return fail(f"size(map) law: {kd} {r!r}")
        return True, "ok"
    if law == "filter-gt":
        n, k = kw["n"], vals["k"]
        l = lst("l", n)
        kd, r = _run("l.filter(x, x > k)", runner, {"l": cel_list(l), "k": I(k), "x": I(k)})
        exp = [x for x in l if x > k]
        if kd != "value" or [int(x) for x in r] != exp:
            return fail(f"expected {exp}, got {kd} {r!r}")
        return True, "ok"
    if law == "exists-one":
        n, k = kw["n"], vals["k"]
        l = lst("l", n)
        kd, r = _run("l.exists_one(x, x == k)", runner, {"l": cel_list(l), "k": I(k), "x": I(7)})
        exp = sum(1 for x in l if x == k) == 1
        if kd != "value" or bool(r) != exp:
            return fail(f"expected {exp}, got {kd} {r!r}")
        return True, "ok"
    if law == "in-self-double":
        D = ct.DoubleType
        x, y = D(vals["x"]), D(vals["y2"])
        b = {"x": x, "y2": y, "l": ct.ListType([x]), "l2": ct.ListType([y, x])}
        xx, xy = (vals["x"] == vals["x"]), (vals["x"] == vals["y2"])
        for src, exp in (("x in l", xx), ("x in [x]", xx), ("l.exists(y, y == x)", xx), ("[x].map(y, y in [y])[0]", xx),
                         ("x in [y2, x]", xx or xy), ("x in l2", xx or xy), ("l2.exists(y, y == x)", xx or xy)):
            kd, r = _run(src, runner, dict(b))
            if kd != "value" or bool(r) != exp:
                return fail(f"`{src}`: expected {exp}, got {kd} {r!r}")
        return True, "ok"
    if law == "nested-macro":
        n = kw["n"]
        l, m = lst("l", n), lst("m", 2)
        b = {"l": cel_list(l), "m": cel_list(m)}
        for src, exp in (("l.map(x, m.map(y, x + y))", [[x + y for y in m] for x in l]),
                         ("l.filter(x, m.exists(y, y == x))", [x for x in l if x in m]),
                         ("l.exists_one(x, m.all(y, y != x))", sum(1 for x in l if x not in m) == 1),
                         ("l.map(x, m.filter(y, y > x).map(z, z - x))", [[y - x for y in m if y > x] for x in l])):
            kd, r = _run(src, runner, dict(b))
            if kd != "value":
                return fail(f"`{src}`: {kd} {r!r}")
            got = bool(r) if isinstance(exp, bool) else [([int(v) for v in row] if isinstance(row, list) else int(row)) for row in r]
            if got != exp:
                return fail(f"`{src}`: expected {exp}, got {got}")
        return True, "ok"
    if law == "in-exists":
        n, k = kw["n"], vals["k"]
        l = lst("l", n)
        exp = k in l
        for src in ("k in l", "l.exists(y, y == k)", "l.contains(k)"):
            kd, r = _run(src, runner, {"l": cel_list(l), "k": I(k), "y": I(k)})
            if kd != "value" or bool(r) != exp:
                return fail(f"`{src}` expected {exp}, got {kd} {r!r}")
        return True, "ok"
    if law == "index":
        n, k = kw["n"], vals["k"]
        l = lst("l", n)
        for src, els in (("l[k]", l), ("(l + l)[k]", l + l), ("l.map(x, x)[k]", l), ("l.filter(x, true)[k]", l), ("([0] + l)[k]", [0] + l), ("[l, l][1][k]", l)):
            kd, r = _run(src, runner, {"l": cel_list(l), "k": I(k)})
            if 0 <= k < len(els):
                if kd != "value" or int(r) != els[k]:
                    return fail(f"`{src}` with k={k} expected {els[k]}, got {kd} {r!r}")
            elif kd != "error":
                return fail(f"`{src}`: index {k} of a list of size {len(els)} must be an error, got {kd} {r!r}")
        return True, "ok"
    if law == "concat":
        n, m = kw["n"], kw["m"]
        l, rr = lst("l", n), lst("r", m)
        kd, r = _run("l + r", runner, {"l": cel_list(l), "r": cel_list(rr)})
        if kd != "value" or [int(x) for x in r] != l + rr:
            return fail(f"expected {l + rr}, got {kd} {r!r}")
        return True, "ok"
    if law == "size":
        n = kw["n"]
        l = lst("l", n)
        for src in ("size(l)", "l.size()"):
            kd, r = _run(src, runner, {"l": cel_list(l)})
            if kd != "value" or int(r) != n:
                return fail(f"`{src}` expected {n}, got {kd} {r!r}")
        return True, "ok"
    if law == "str-laws":
        a, b = kw["a"], kw["b"]
        s, t = string("s", a), string("t", b)
        bd = {"s": ct.StringType(s), "t": ct.StringType(t)}
        exp = {"(s + t).startsWith(s)": True, "(s + t).endsWith(t)": True, "(s + t).contains(s)": True,
               "size(s + t) == size(s) + size(t)": True, "size(s)": a, "s.contains(t)": t in s,
               "s.startsWith(t)": s.startswith(t), "s.endsWith(t)": s.endswith(t), "s + t": s + t}
        for src, e in exp.items():
            kd, r = _run(src, runner, bd)
            if kd != "value":
                return fail(f"`{src}` with s={s!r} t={t!r}: {kd} {r!r}")
            got = bool(r) if isinstance(e, bool) else (int(r) if isinstance(e, int) else str(r))
            if got != e:
                return fail(f"`{src}` with s={s!r} t={t!r}: expected {e!r}, got {got!r}")
        return True, "ok"
    if law == "map-lookup":
        kt = kw["kt"]
        if kt == "int":
            m = ct.MapType({I(1): I(vals["m_v0"]), I(5): I(vals["m_v1"])})
            key, pykey, table = I(vals["k"]), vals["k"], {1: vals["m_v0"], 5: vals["m_v1"]}
        else:
            m = ct.MapType({ct.StringType("a"): I(vals["m_v0"]), ct.StringType("b"): I(vals["m_v1"])})
            pykey = chr(vals["k_c0"])
            key, table = ct.StringType(pykey), {"a": vals["m_v0"], "b": vals["m_v1"]}
        kd, r = _run("m[k]", runner, {"m": m, "k": key})
        if pykey in table:
            if kd != "value" or int(r) != table[pykey]:
                return fail(f"m[{pykey!r}] expected {table[pykey]}, got {kd} {r!r}")
        elif kd != "error":
            return fail(f"missing key {pykey!r} must be an error, got {kd} {r!r}")
        kd, r = _run("k in m", runner, {"m": m, "k": key})
        if kd != "value" or bool(r) != (pykey in table):
            return fail(f"`k in m` for {pykey!r}: {kd} {r!r}")
        kd, r = _run("size(m)", runner, {"m": m})
        if kd != "value" or int(r) != 2:
            return fail(f"size(m): {kd} {r!r}")
        return True, "ok"
    if law == "map-literal":
        kt = kw["kt"]
        if kt == "int":
            k0, k1 = I(vals["k0"]), I(vals["k1"])
            same = vals["k0"] == vals["k1"]
        else:
            k0, k1 = ct.StringType(chr(vals["k0_c0"])), ct.StringType(chr(vals["k1_c0"]))
            same = vals["k0_c0"] == vals["k1_c0"]
        bd = {"k0": k0, "k1": k1, "a": I(vals["a"]), "b": I(vals["b"])}
        kd, r = _run("{k0: a, k1: b}", runner, bd)
        if kd == "escape" or (kd == "error") != same:
            return fail(f"map literal with keys {k0!r},{k1!r}: {kd} {r!r}")
        if kd == "value" and len(r) != 2:
            return fail(f"map literal size {len(r)}")
        kd, r = _run("{k0: a, k1: b}[k0]", runner, bd)
        if kd == "escape" or (kd == "error") != same or (kd == "value" and int(r) != vals["a"]):
            return fail(f"lookup in literal: {kd} {r!r}")
        return True, "ok"
    if law == "map-select":
        m = ct.MapType({ct.StringType("a"): I(vals["m_v0"]), ct.StringType("b"): I(vals["m_v1"])})
        exp = {"m.a": vals["m_v0"], "m.b": vals["m_v1"], "m['a']": vals["m_v0"], "has(m.a)": True, "has(m.zz)": False, "m.zz": "error",
               "nz.n == null": True, "nz['n'] == null": True, "has(nz.n)": True, "nz.f == false": True, "has(nz.f)": True, "nz.z == 0": True, "has(nz.z)": True,
               "nz.e == ''": True, "has(nz.e)": True, "{'k': null}.k == null": True, "has({'k': null}.k)": True, "nz.l == []": True, "has(nz.l)": True, "has(nz.missing)": False,
               "'n' in nz": True, "size(nz) == 5": True}
        S_ = ct.StringType
        nz = ct.MapType({S_("n"): None, S_("f"): ct.BoolType(False), S_("z"): I(0), S_("e"): S_(""), S_("l"): ct.ListType([])})
        for src, e in exp.items():
            kd, r = _run(src, runner, {"m": m, "nz": nz})
            if e == "error":
                if kd != "error":
                    return fail(f"`{src}` must be an error, got {kd} {r!r}")
            elif kd != "value" or (bool(r) != e if isinstance(e, bool) else int(r) != e):
                return fail(f"`{src}` expected {e}, got {kd} {r!r}")
        return True, "ok"
    if law == "matches-invalid":
        s = ct.StringType(chr(vals["s_c0"]))
        for src in ("s.matches('(')", "matches(s, '[a')", "s.matches('a{2,1}')", "s.matches('?')", "s.matches('?a')", "s.matches('*a')", "matches(s, '+')",
                    "s.matches('a(?P<n')", "s.matches('[z-a]')", "s.matches(')')"):
            kd, r = _run(src, runner, {"s": s})
            if kd != "error":
                return fail(f"`{src}`: invalid pattern must be an error, got {kd} {r!r}")
        return True, "ok"
    raise ValueError(law)


def matches_grid(pattern, subjects):
    """enumeration: `s.matches(p)` against Python's re.search on a fragment where RE2 and re agree"""
    import re
    from celpy import celtypes as ct
    lit = pattern.replace("\\", "\\\\").replace("'", "\\'")
    for runner in ("interp", "compiled"):
        p1 = make_program(f"s.matches('{lit}')", runner)
        p2 = make_program(f"matches(s, '{lit}')", runner)
        for s in subjects:
            want = re.search(pattern, s) is not None
            for prog in (p1, p2):
                kd, r = evaluate_outcome(lambda: prog.evaluate({"s": ct.StringType(s)}))
                if kd != "value" or bool(r) != want:
                    return False, f"{s!r}.matches({pattern!r}) under {runner}: expected {want}, got {kd} {r!r}"
    return True, "ok"
