"""Concrete oracles for C10 (real code)."""
import math

from .util import make_program, evaluate_outcome

LO, HI, UHI = -(2**63), 2**63 - 1, 2**64 - 1


def _run(src, runner, b):
    p = make_program(src, runner)
    return evaluate_outcome(lambda: p.evaluate(dict(b)))


def conversion(what, runner, vals, **kw):
    from celpy import celtypes as ct

    def fail(msg):
        return False, f"{what} under {runner}: {msg} (vals={vals})"

    if what in ("int(text)", "uint(text)"):
        import re
        target, n = what.split("(")[0], kw["n"]
        text = "".join(chr(vals[f"t_c{i}"]) for i in range(n))
        kd, r = _run(f"{target}(t)", runner, {"t": ct.StringType(text)})
        if kd == "escape":
            return fail(f"{type(r).__name__} escaped for text {text!r}")
        if re.fullmatch(r"[-+]?0[xX].*", text):
            return True, "hexadecimal-looking text: the library's extension, nothing asserted"
        lo, hi = (LO, HI) if target == "int" else (0, UHI)
        m = re.fullmatch(r"[-+]?[0-9]+" if target == "int" else r"[+]?[0-9]+", text)
        if m and lo <= int(text) <= hi:
            if kd != "value" or int(r) != int(text):
                return fail(f"{target}({text!r}): expected {int(text)}, got {kd} {r!r}")
        elif kd != "error":
            return fail(f"{target}({text!r}): not the text of a{'n' if target == 'int' else ' u'}int in range, expected an error, got {r!r}")
        return True, "ok"
    if what in ("int(double)", "uint(double)"):
        target = what.split("(")[0]
        d = vals["d"]
        lo, hi = (LO, HI) if target == "int" else (0, UHI)
        kd, r = _run(f"{target}(d)", runner, {"d": ct.DoubleType(d)})
        if kd == "escape":
            return fail(f"{type(r).__name__} escaped")
        ok_range = not (math.isnan(d) or math.isinf(d)) and lo <= math.trunc(d) <= hi
        if ok_range:
            if kd != "value" or int(r) != math.trunc(d):
                return fail(f"expected {math.trunc(d)}, got {kd} {r!r}")
        elif kd != "error":
            return fail(f"out of range / not finite: expected an error, got {r!r}")
        return True, "ok"
    if what in ("int(uint)", "uint(int)", "int(int)", "uint(uint)"):
        target, src = what[:-1].split("(")
        x = vals["x"]
        tlo, thi = (LO, HI) if target == "int" else (0, UHI)
        cls = ct.IntType if src == "int" else ct.UintType
        kd, r = _run(f"{target}(x)", runner, {"x": cls(x)})
        if kd == "escape":
            return fail(f"{type(r).__name__} escaped")
        if tlo <= x <= thi:
            if kd != "value" or int(r) != x or type(r).__name__ != ("IntType" if target == "int" else "UintType"):
                return fail(f"expected {x}, got {kd} {r!r}")
        elif kd != "error":
            return fail(f"expected a range error, got {r!r}")
        return True, "ok"
    if what in ("int(string(int))", "uint(string(uint))"):
        t = "int" if what.startswith("int") else "uint"
        x = vals["x"]
        cls = ct.IntType if t == "int" else ct.UintType
        kd, r = _run(f"{t}(string(x)) == x", runner, {"x": cls(x)})
        if kd != "value" or not bool(r):
            return fail(f"round trip gave {kd} {r!r}")
        kd, r = _run("string(x)", runner, {"x": cls(x)})
        if kd != "value" or str(r) != str(x):
            return fail(f"string(x) gave {kd} {r!r}, expected {str(x)!r}")
        return True, "ok"
    if what in ("string(string)", "double(double)", "bool(bool)"):
        t = what.split("(")[0]
        if t == "string":
            x = ct.StringType("".join(chr(vals[f"x_c{i}"]) for i in range(2)))
        elif t == "double":
            x = ct.DoubleType(vals["x"])
        else:
            x = ct.BoolType(bool(vals["x"]))
        kd, r = _run(f"{t}(x)", runner, {"x": x})
        same = kd == "value" and type(r) is type(x) and ((r != r and x != x) if t == "double" and x != x else r == x)
        if t == "double" and kd == "value" and x == x:
            same = same and math.copysign(1, r) == math.copysign(1, x)
        return (True, "ok") if same else fail(f"{t}({x!r}) gave {kd} {r!r}")
    if what == "string(bytes(s))":
        n = kw["n"]
        s = "".join(chr(vals[f"s_c{i}"]) for i in range(n))
        kd, r = _run("string(bytes(s)) == s", runner, {"s": ct.StringType(s)})
        if kd != "value" or not bool(r):
            return fail(f"round trip of {s!r} gave {kd} {r!r}")
        kd, r = _run("size(bytes(s))", runner, {"s": ct.StringType(s)})
        if kd != "value" or int(r) != len(s.encode("utf-8")):
            return fail(f"size(bytes({s!r})) gave {kd} {r!r}")
        return True, "ok"
    if what == "string(bytes)":
        n = kw["n"]
        y = bytes(vals[f"y_b{i}"] for i in range(n))
        try:
            exp = y.decode("utf-8")
        except UnicodeDecodeError:
            exp = None
        kd, r = _run("string(y)", runner, {"y": ct.BytesType(y)})
        if kd == "escape":
            return fail(f"{type(r).__name__} escaped for {y!r}")
        if exp is None:
            if kd != "error":
                return fail(f"invalid UTF-8 {y!r}: expected an error, got {r!r}")
        elif kd != "value" or str(r) != exp:
            return fail(f"string({y!r}) expected {exp!r}, got {kd} {r!r}")
        return True, "ok"
    if what == "bytes(string)":
        n = kw["n"]
        s = "".join(chr(vals[f"s_c{i}"]) for i in range(n))
        kd, r = _run("bytes(s)", runner, {"s": ct.StringType(s)})
        if kd != "value" or bytes(r) != s.encode("utf-8") or type(r).__name__ != "BytesType":
            return fail(f"bytes({s!r}) gave {kd} {r!r}")
        return True, "ok"
    raise ValueError(what)


def text_round_trip(kind, value):
    from celpy import celtypes as ct
    for runner in ("interp", "compiled"):
        if kind == "timestamp":
            t = ct.TimestampType(value)
            kd, r = _run("timestamp(string(t)) == t", runner, {"t": t})
            if kd != "value" or not bool(r):
                kd2, r2 = _run("string(t)", runner, {"t": t})
                return False, f"timestamp(string(t)) == t for t={value} under {runner}: {kd} {r!r}; string(t) = {r2!r}"
        elif kind == "duration":
            import datetime
            d = ct.DurationType(datetime.timedelta(seconds=value))
            kd, r = _run("duration(string(d)) == d", runner, {"d": d})
            if kd != "value" or not bool(r):
                kd2, r2 = _run("string(d)", runner, {"d": d})
                return False, f"duration(string(d)) == d for d={value}s under {runner}: {kd} {r!r}; string(d) = {r2!r}"
        else:
            d = ct.DoubleType(value)
            kd, r = _run("double(string(d)) == d", runner, {"d": d})
            if kd != "value" or not bool(r):
                kd2, r2 = _run("string(d)", runner, {"d": d})
                return False, f"double(string(d)) == d for d={value!r} under {runner}: {kd} {r!r}; string(d) = {r2!r}"
    return True, "ok"
