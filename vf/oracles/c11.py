"""Concrete oracle for C11 (real code, no shadows): an independent proleptic-Gregorian computation in plain Python."""
from fractions import Fraction

from .util import make_program, evaluate_outcome

US = 1_000_000
DAY = 86400 * US
EPOCH_ORD = 719163
MIN_L = (1 - EPOCH_ORD) * DAY
MAX_L = (3652059 - EPOCH_ORD + 1) * DAY - 1
DMAX = 315576000000 * US
CUM = [0, 31, 59, 90, 120, 151, 181, 212, 243, 273, 304, 334]
GETTERS = ("getFullYear", "getMonth", "getDate", "getDayOfMonth", "getDayOfYear", "getDayOfWeek", "getHours", "getMinutes", "getSeconds", "getMilliseconds")


def is_leap(y):
    return y % 4 == 0 and (y % 100 != 0 or y % 400 == 0)


def ordinal(y, m, d):
    """proleptic Gregorian ordinal, 0001-01-01 = 1 (textbook formula)"""
    y1 = y - 1
    return y1 * 365 + y1 // 4 - y1 // 100 + y1 // 400 + CUM[m - 1] + (1 if m > 2 and is_leap(y) else 0) + d


def ymd(ordn):
    """inverse by search (year by estimate-and-correct, month by table scan): shares no formula with the model"""
    y = max(1, min(9999, ordn // 366 + 1))
    while y < 9999 and ordinal(y + 1, 1, 1) <= ordn:
        y += 1
    while ordinal(y, 1, 1) > ordn:
        y -= 1
    m = 12
    while ordinal(y, m, 1) > ordn:
        m -= 1
    return y, m, ordn - ordinal(y, m, 1) + 1


def fields(local_us):
    days, sod = local_us // DAY, local_us % DAY
    ordn = days + EPOCH_ORD
    y, m, d = ymd(ordn)
    return {"getFullYear": y, "getMonth": m - 1, "getDate": d, "getDayOfMonth": d - 1, "getDayOfYear": ordn - ordinal(y, 1, 1),
            "getDayOfWeek": ordn % 7,  # ordinal 1 (0001-01-01) is a Monday; ordn % 7 == 0 is a Sunday
            "getHours": sod // (3600 * US), "getMinutes": sod // (60 * US) % 60, "getSeconds": sod // US % 60,
            "getMilliseconds": sod % US // 1000}


def _timestamp(e, off_min):
    """the instant e (UTC microseconds since the epoch) displayed at a fixed offset"""
    import datetime
    from celpy import celtypes as ct
    tz = datetime.timezone(datetime.timedelta(minutes=off_min))
    loc = e + off_min * 60 * US
    y, m, d = ymd(loc // DAY + EPOCH_ORD)
    sod = loc % DAY
    return ct.TimestampType(datetime.datetime(y, m, d, sod // (3600 * US), sod // (60 * US) % 60, sod // US % 60, sod % US, tzinfo=tz))


def _duration(us):
    import datetime
    from celpy import celtypes as ct
    return ct.DurationType(datetime.timedelta(days=us // DAY, seconds=us % DAY // US, microseconds=us % US))


def _utc_us(ts):
    import datetime
    delta = ts - datetime.datetime(1970, 1, 1, tzinfo=datetime.timezone.utc)
    return (delta.days * 86400 + delta.seconds) * US + delta.microseconds


def _td_us(td):
    return (td.days * 86400 + td.seconds) * US + td.microseconds


def _in(x):
    return MIN_L <= x <= MAX_L


def _string(vals, name, n):
    return "".join(chr(vals[f"{name}_c{i}"]) for i in range(n))


def case(kind, runner, vals, **kw):
    from celpy import celtypes as ct

    def fail(msg):
        return False, f"{kind} under {runner}: {msg} (vals={vals}, {kw})"

    def run(src, b):
        p = make_program(src, runner)
        return evaluate_outcome(lambda: p.evaluate(dict(b)))

    if kind == "add-sub":
        e, o, d = vals["e"], vals["o"], vals["d"]
        t, du = _timestamp(e, o), _duration(d)
        off = o * 60 * US
        must_ok = _in(e + d) and _in(e + d + off)
        must_err = not _in(e + d) and not _in(e + d + off)
        for src in ("(t + d) - d == t", "(t + d) - t == d", "d + t == t + d"):
            k, r = run(src, {"t": t, "d": du})
            if k == "escape":
                return fail(f"`{src}` escaped: {r!r}")
            if k == "value" and (must_err or not bool(r)):
                return fail(f"`{src}` gives {r!r}" + (" although t + d is outside 0001..9999" if must_err else ""))
            if k == "error" and must_ok:
                return fail(f"`{src}` is an error although t + d is representable: {r!r}")
        for src, want in (("t + d", e + d), ("d + t", e + d), ("t - d", e - d)):
            k, r = run(src, {"t": t, "d": du})
            ok_ = _in(want) and _in(want + off)
            err_ = not _in(want) and not _in(want + off)
            if k == "escape":
                return fail(f"`{src}` escaped: {r!r}")
            if k == "value" and (err_ or _utc_us(r) != want):
                return fail(f"`{src}` gives {r!r}, expected the instant {want} us" + (" (out of range: error expected)" if err_ else ""))
            if k == "error" and ok_:
                return fail(f"`{src}` is an error although the result is representable: {r!r}")
        return True, "ok"
    if kind == "diff":
        e1, o1, e2, o2 = vals["e"], vals["o"], vals["e2"], vals["o2"]
        t1, t2 = _timestamp(e1, o1), _timestamp(e2, o2)
        k, r = run("t1 - t2", {"t1": t1, "t2": t2})
        if k != "value" or _td_us(r) != e1 - e2:
            return fail(f"t1 - t2 gives {k} {r!r}, expected {e1 - e2} us")
        for src, want in (("t1 < t2", e1 < e2), ("t1 == t2", e1 == e2), ("t1 >= t2", e1 >= e2)):
            k, r = run(src, {"t1": t1, "t2": t2})
            if k != "value" or bool(r) != want:
                return fail(f"`{src}` gives {k} {r!r}, expected {want}")
        return True, "ok"
    if kind == "dur-arith":
        d1, d2 = vals["d"], vals["d2"]
        for src, want in (("d1 + d2", d1 + d2), ("d1 - d2", d1 - d2)):
            k, r = run(src, {"d1": _duration(d1), "d2": _duration(d2)})
            inr = -DMAX <= want <= DMAX
            if k == "escape" or (k == "value" and (not inr or _td_us(r) != want)) or (k == "error" and inr):
                return fail(f"`{src}` gives {k} {r!r}, expected {'%d us' % want if inr else 'a range error'}")
        return True, "ok"
    if kind == "dur-getters":
        d = vals["d"]
        tr = lambda a, b: abs(a) // b * (1 if a >= 0 else -1)  # noqa: E731
        want = {"getHours": tr(d, 3600 * US), "getMinutes": tr(d, 60 * US), "getSeconds": tr(d, US), "getMilliseconds": tr(d, 1000)}
        for g, w in want.items():
            k, r = run(f"d.{g}()", {"d": _duration(d)})
            if k != "value" or int(r) != w:
                return fail(f"d.{g}() gives {k} {r!r}, expected {w}")
        return True, "ok"
    if kind == "getters":
        e, o = vals["e"], vals["o"]
        t = _timestamp(e, o)
        mode = kw["tz"]
        b = {"t": t}
        if mode == "none":
            arg, off = "", 0
        elif mode.startswith("offset"):
            z = _string(vals, "z", kw["zlen"])
            b["z"] = ct.StringType(z)
            arg = "z"
            sign = -1 if z[0] == "-" else 1
            hh, mm = z.lstrip("+-").split(":")
            off = sign * (int(hh) * 60 + int(mm)) * 60 * US
        else:
            import datetime
            import zoneinfo
            b["z"] = ct.StringType(mode)
            arg = "z"
            u = datetime.datetime(1970, 1, 1, tzinfo=datetime.timezone.utc) + datetime.timedelta(microseconds=e)
            try:
                off = _td_us(u.astimezone(zoneinfo.ZoneInfo(mode)).utcoffset())
            except OverflowError:
                off = None
        for g in GETTERS:
            k, r = run(f"t.{g}({arg})", b)
            if k == "escape":
                return fail(f"t.{g}({arg}) escaped: {r!r}")
            if off is None:
                continue
            loc = e + off
            if not _in(loc):
                if k != "error":
                    return fail(f"t.{g}({arg}): the local time is outside 0001..9999, expected an error, got {r!r}")
                continue
            w = fields(loc)[g]
            if k != "value" or int(r) != w:
                return fail(f"t.{g}({arg}) at offset {off // US} s gives {k} {r!r}, expected {w}")
        return True, "ok"
    if kind == "dur-parse":
        n = kw["n"]
        s = _string(vals, "s", n)
        k, r = run("duration(s)", {"s": ct.StringType(s)})
        exact = parse_duration_ns(s, kw.get("units"))
        if exact is None:
            if k != "error":
                return fail(f"duration({s!r}) is not in the grammar, expected an error, got {k} {r!r}")
            return True, "ok"
        if abs(exact) > DMAX * 1000:
            if k != "error":
                return fail(f"duration({s!r}) is out of range, expected an error, got {k} {r!r}")
            return True, "ok"
        if k != "value" or abs(_td_us(r) * 1000 - exact) * 2 > 1000:
            return fail(f"duration({s!r}) gives {k} {r!r}, expected {exact} ns")
        return True, "ok"
    raise ValueError(kind)


SCALE_NS = {"ns": 1, "us": 1000, "µs": 1000, "ms": 10**6, "s": 10**9, "m": 60 * 10**9, "h": 3600 * 10**9}


def parse_duration_ns(s, units=None):
    """value in nanoseconds (a Fraction) of a duration text, None if not in the grammar
    [+-]? ( digits [. digits] unit )+   with at least one digit per number"""
    import re
    m = re.fullmatch(r"([+-]?)((?:(?:[0-9]+(?:\.[0-9]*)?|\.[0-9]+)(?:ns|us|µs|ms|s|m|h))+)", s)
    if not m:
        return None
    total = Fraction(0)
    for num, unit in re.findall(r"([0-9]+(?:\.[0-9]*)?|\.[0-9]+)(ns|us|µs|ms|s|m|h)", m.group(2)):
        total += Fraction(num if not num.endswith(".") else num + "0") * SCALE_NS[unit]
    return -total if m.group(1) == "-" else total


class _Model:
    """the model's integer calendar formulas (copied from vf/sym/times.py, which needs z3 to import)"""

    @staticmethod
    def days_from_civil(y, m, d):
        y2 = y - 1 if m <= 2 else y
        era = y2 // 400
        yoe = y2 - era * 400
        mp = m - 3 if m > 2 else m + 9
        doy = (153 * mp + 2) // 5 + d - 1
        doe = yoe * 365 + yoe // 4 - yoe // 100 + doy
        return era * 146097 + doe - 719468

    @staticmethod
    def civil_from_days(z):
        z = z + 719468
        era = z // 146097
        doe = z - era * 146097
        yoe = (doe - doe // 1460 + doe // 36524 - doe // 146096) // 365
        doy = doe - (365 * yoe + yoe // 4 - yoe // 100)
        mp = (5 * doy + 2) // 153
        d = doy - (153 * mp + 2) // 5 + 1
        m = mp + 3 if mp < 10 else mp - 9
        y = yoe + era * 400
        return (y + 1 if m <= 2 else y), m, d

    @staticmethod
    def _c_days_in_month(y, m):
        return (29 if is_leap(y) else 28) if m == 2 else (30 if m in (4, 6, 9, 11) else 31)


def lemma(name, vals, era=-1):
    """concrete re-evaluation of a calendar lemma of the time model at the solver's counterexample"""
    T = _Model
    if name == "jan1":
        y = vals["y"]
        return T.days_from_civil(y, 1, 1) + EPOCH_ORD == ordinal(y, 1, 1), f"days_from_civil({y},1,1) vs textbook ordinal"
    z = vals["z"] if "z" in vals else era * 146097 + vals["doe"] - 719468
    y, m, d = T.civil_from_days(z)
    if name == "civil-inverts-ordinal":
        return ordinal(y, m, d) == z + EPOCH_ORD and (y, m, d) == ymd(z + EPOCH_ORD), f"civil_from_days({z}) = {(y, m, d)}, search-based inverse gives {ymd(z + EPOCH_ORD)}"
    if name == "fields-valid":
        return 1 <= y <= 9999 and 1 <= m <= 12 and 1 <= d <= T._c_days_in_month(y, m), f"civil_from_days({z}) = {(y, m, d)}"
    if name == "roundtrip":
        return T.days_from_civil(y, m, d) == z, f"days_from_civil(civil_from_days({z})) = {T.days_from_civil(y, m, d)}"
    if name == "weekday":
        return (((z + EPOCH_ORD + 6) % 7) + 1) % 7 == (z + 4) % 7, "weekday identity"
    raise ValueError(name)
