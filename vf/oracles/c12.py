"""Concrete oracle for C12 (real code) using the reference resolver of vf.props.c12_model (pure Python, no z3)."""
from .util import make_program, evaluate_outcome
from ..props import c12_model as M


def _build(spec, vals):
    from celpy import celtypes as ct
    if spec[0] == "int":
        return ct.IntType(vals[spec[1]])
    return ct.MapType({ct.StringType(k): _build(v, vals) for k, v in spec[1].items()})


def _plain(spec, vals):
    if spec[0] == "int":
        return vals[spec[1]]
    return {k: _plain(v, vals) for k, v in spec[1].items()}


def _unwrap(r):
    if isinstance(r, dict):
        if type(r).__name__ != "MapType":
            return ("not-a-cel-value", type(r).__name__)
        return {str(k): _unwrap(v) for k, v in r.items()}
    if isinstance(r, int):
        return int(r)
    return ("other", repr(r))


def resolve(bindings, package, ref, runner, annotate, vals, wrap=None):
    from celpy import celtypes as ct
    ann = {n: (ct.IntType if s[0] == "int" else ct.MapType) for n, s in bindings.items()} if annotate else None
    prog = make_program(wrap.format(ref=ref) if wrap else ref, runner, package=package, annotations=ann)
    b = {n: _build(s, vals) for n, s in bindings.items()}
    kd, r = evaluate_outcome(lambda: prog.evaluate(b))
    exp = M.resolve(bindings, package, ref)
    where = f"ref `{ref}`" + (f" inside `{wrap}`" if wrap else "") + f" with bindings {sorted(bindings)} package={package!r} under {runner}"
    if kd == "escape":
        return False, f"{where}: {type(r).__name__} escaped: {r}"
    if exp[0] == "unspecified":
        return True, "reference names a namespace: unspecified"
    if exp[0] == "error":
        return kd == "error", f"{where}: expected an error ({exp[1]}), got {kd} {r!r:.80}"
    if kd != "value":
        return False, f"{where}: expected the value of binding {exp[1]}, got {kd} {r!r:.120}"
    want = _plain(exp[1], vals)
    return _unwrap(r) == want, f"{where}: expected {want}, got {_unwrap(r)!r:.100}"


def macro(i, runner, vals, pkg=None):
    from celpy import celtypes as ct
    src, names, f = M.MACROS[i]
    prog = make_program(src, runner, package=pkg)
    kd, r = evaluate_outcome(lambda: prog.evaluate({(f"{pkg}.{n}" if pkg else n): ct.IntType(vals[n]) for n in names}))
    want = f(vals)
    where = f" in package {pkg} (outer variables bound as {pkg}.<name>)" if pkg else ""
    return kd == "value" and int(r) == want, f"`{src}` with {vals} under {runner}{where}: expected {want}, got {kd} {r!r:.80}"


def declared(runner, vals):
    from celpy import celtypes as ct

    prog = make_program("b1", runner, annotations={"b1": ct.IntType})
    kd, r = evaluate_outcome(lambda: prog.evaluate({"b1": ct.IntType(vals["va"])}))
    if not (kd == "value" and isinstance(r, int) and int(r) == vals["va"]):
        return False, f"declared b1 bound to {vals['va']}: {kd} {r!r}"
    for src in M.DECL_SRCS:
        for val in (ct.IntType(vals["va"]), None):
            prog = make_program(src, runner, annotations={"b1": ct.IntType, "b2": ct.StringType})
            kd, r = evaluate_outcome(lambda: prog.evaluate({"b1": val}))
            ok = kd == "value" and ((r is None) if val is None else (isinstance(r, int) and int(r) == vals["va"]))
            if not ok:
                return False, f"`{src}` under {runner} with declared b1 bound to {val!r}: {kd} {r!r:.100}"
    return True, "ok"
