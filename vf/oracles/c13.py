"""Concrete oracle for C13: class of the returned value and type(e) == T, on the real code."""
from .util import make_program, evaluate_outcome
from . import values as V

CLASS = {"int": "IntType", "uint": "UintType", "double": "DoubleType", "bool": "BoolType", "string": "StringType", "bytes": "BytesType",
         "list": "ListType", "map": "MapType", "timestamp": "TimestampType", "duration": "DurationType", "dyn-int": "IntType",
         "null_type": "NoneType"}


def result_class(src, typ, runner, bindings):
    b = {n: V.from_json(j) for n, j in bindings.items()}
    try:
        prog = make_program(src, runner)
    except Exception as ex:  # noqa: BLE001
        return False, f"`{src}` cannot be built under {runner}: {type(ex).__name__}: {ex}"
    kind, v = evaluate_outcome(lambda: prog.evaluate(dict(b)))
    if kind != "value":
        return True, "no value"
    where = f"`{src}` under {runner} with {b!r:.200}"
    if typ == "type":
        if not isinstance(v, type):
            return False, f"{where}: expected a type, got {type(v).__name__}"
        names = ["type"]
    else:
        if type(v).__name__ != CLASS[typ]:
            return False, f"{where}: result class {type(v).__name__}, expected {CLASS[typ]}"
        cel = {"dyn-int": "int"}.get(typ, typ)
        names = [cel] + [x for x in ("int", "string", "list") if x != cel][:1]
    for n in names:
        tp = make_program(f"type({src}) == {n}", runner)
        k2, v2 = evaluate_outcome(lambda: tp.evaluate(dict(b)))
        want = (n == names[0])
        if k2 != "value" or bool(v2) != want:
            return False, f"`type({src}) == {n}` under {runner}: expected {want}, got {k2} {v2!r}"
    return True, "ok"
