"""Concrete oracle for C14 (real code): instrumented host callables defined in THIS module (module-level, nested, lambda, object)."""
from .util import make_program, evaluate_outcome

CALLS = []


def host_f(*args):
    from celpy import celtypes as ct
    CALLS.append(("f", args))
    r = ct.IntType(1)
    for i, a in enumerate(args):
        r = r + a * ct.IntType(i + 2)
    return r


def f(*args):
    """module-level host function literally named `f` (the list style binds callables under their __name__)"""
    return host_f(*args)


def host_err(*args):
    import celpy
    return celpy.CELEvalError("host says no", ValueError, ())


def host_raise_value(*args):
    raise ValueError("host raises")


def host_raise_type(*args):
    raise TypeError("host raises")


def host_raise_type_bare(*args):
    raise TypeError


def host_raise_value_bare(*args):
    raise ValueError()


def host_raise_value_args(*args):
    raise ValueError(7, None, ("x",))


def size(*args):
    from celpy import celtypes as ct
    return ct.IntType(4242)


class HostObject:
    __name__ = "f"

    def __call__(self, *args):
        return host_f(*args)


def make_callable(kind):
    if kind == "def":
        return globals()["f"]
    if kind == "nested":
        k = 0

        def f(*args):
            return host_f(*args) if k == 0 else None
        return f
    if kind == "lambda":
        return lambda *args: host_f(*args)
    return HostObject()


def _f(*ts):
    r = 1
    for i, t in enumerate(ts):
        r += t * (i + 2)
    return r


SHAPES = {
    "global0": ("f()", [], 1, lambda v: _f()), "global1": ("f(a)", ["a"], 1, lambda v: _f(v["a"])),
    "global2": ("f(a, b)", ["a", "b"], 1, lambda v: _f(v["a"], v["b"])), "global3": ("f(a, b, c)", ["a", "b", "c"], 1, lambda v: _f(v["a"], v["b"], v["c"])),
    "method1": ("a.f()", ["a"], 1, lambda v: _f(v["a"])), "method2": ("a.f(b)", ["a", "b"], 1, lambda v: _f(v["a"], v["b"])),
    "method3": ("a.f(b, c)", ["a", "b", "c"], 1, lambda v: _f(v["a"], v["b"], v["c"])),
    "nested": ("f(f(a), b)", ["a", "b"], 2, lambda v: _f(_f(v["a"]), v["b"])),
    "arith": ("f(a + 1, b * 2) - 3", ["a", "b"], 1, lambda v: _f(v["a"] + 1, v["b"] * 2) - 3),
    "in-macro": ("[a, b].map(x, f(x))[1]", ["a", "b"], 2, lambda v: _f(v["b"])),
    "in-cond": ("true ? f(a) : f(b)", ["a", "b"], None, lambda v: _f(v["a"])),
    "in-or": ("f(a) > 0 || f(b) > 0", ["a", "b"], None, lambda v: bool(_f(v["a"]) > 0 or _f(v["b"]) > 0)),
    "in-or3": ("f(a) > 0 || f(b) > 0 || f(c) > 0", ["a", "b", "c"], None, lambda v: bool(_f(v["a"]) > 0 or _f(v["b"]) > 0 or _f(v["c"]) > 0)),
    "in-and": ("f(a) > 0 && f(b) > 0", ["a", "b"], None, lambda v: bool(_f(v["a"]) > 0 and _f(v["b"]) > 0)),
    "macro-or": ("[a, b].map(x, f(x) > 0 || x > 0)[1]", ["a", "b"], None, lambda v: bool(_f(v["b"]) > 0 or v["b"] > 0)),
}


def call(shape, style, runner, vals):
    from celpy import celtypes as ct
    src, names, ncalls, spec = SHAPES[shape]
    c = make_callable(style[1])
    functions = [c] if style[0] == "list" else {"f": c}
    where = f"`{src}` with functions supplied as {style[0]} of {style[1]} under {runner}"
    try:
        prog = make_program(src, runner, functions=functions)
    except Exception as ex:  # noqa: BLE001
        return False, f"{where}: program construction raised {type(ex).__name__}: {ex}"
    del CALLS[:]
    kd, r = evaluate_outcome(lambda: prog.evaluate({n: ct.IntType(vals[n]) for n in names}))
    if kd != "value":
        return False, f"{where}: the host function was not applied: {kd} {type(r).__name__}: {str(r)[:160]}"
    want = spec(vals)
    got = bool(r) if isinstance(want, bool) else int(r)
    if got != want:
        return False, f"{where} with {vals}: expected {want}, got {r!r}"
    if ncalls is not None and len(CALLS) != ncalls:
        return False, f"{where}: {len(CALLS)} invocations, expected {ncalls}"
    if ncalls is None:
        per_site = {}
        for _, args in CALLS:
            per_site[id(args[0]) if args else None] = per_site.get(id(args[0]) if args else None, 0) + 1
        if max(per_site.values(), default=0) > 1:
            return False, f"{where}: a call site was reached {sorted(per_site.values())} times (each at most once)"
    if shape in ("global1", "global2", "global3", "method1", "method2", "method3"):
        args = CALLS[-1][1]
        if [int(a) for a in args] != [vals[n] for n in names] or any(type(a).__name__ != "IntType" for a in args):
            return False, f"{where}: callable received {args!r}"
    return True, "ok"


def spelling(names, runner, vals):
    from celpy import celtypes as ct
    a, b = vals["a"], vals["b"]
    for nm in names:
        for form, src, want, nargs in (("method", f"a.{nm}(b)", 1 + 2 * a + 3 * b, 2), ("global", f"{nm}(a, b)", 1 + 2 * a + 3 * b, 2), ("method0", f"a.{nm}()", 1 + 2 * a, 1)):
            where = f"`{src}` with a host function supplied under the name {nm} ({runner})"
            try:
                prog = make_program(src, runner, functions={nm: host_f})
            except Exception as ex:  # noqa: BLE001
                return False, f"{where}: program construction raised {type(ex).__name__}: {ex}"
            del CALLS[:]
            kd, r = evaluate_outcome(lambda: prog.evaluate({"a": ct.IntType(a), "b": ct.IntType(b)}))
            if kd != "value" or not isinstance(r, int) or int(r) != want:
                return False, f"{where}: expected the host result {want}, got {kd} {str(r)[:120]}"
            if len(CALLS) != 1 or [int(x) for x in CALLS[0][1]] != [a, b][:nargs]:
                return False, f"{where}: host invocations {CALLS!r:.160}, expected one with {[a, b][:nargs]}"
    return True, "ok"


def host_rec(*args):
    from celpy import celtypes as ct
    CALLS.append(("rec", args))
    return ct.IntType(100 + len(args))


def receivers(runner, vals):
    from celpy import celtypes as ct
    for rc in ["null", "0", "''", "false", "[]", "{}", "0u", "0.0", "b''", "n", "m.k"]:
        for src in (f"({rc}).g(b)", f"g({rc}, b)"):
            where = f"`{src}` with host function g ({runner})"
            prog = make_program(src, runner, functions={"g": host_rec})
            del CALLS[:]
            kd, r = evaluate_outcome(lambda: prog.evaluate({"b": ct.IntType(vals["b"]), "n": None, "m": ct.MapType({ct.StringType("k"): None})}))
            if kd != "value" or int(r) != 102 or len(CALLS) != 1 or len(CALLS[0][1]) != 2:
                return False, f"{where}: expected g(receiver, b) = 102 with one invocation of two arguments, got {kd} {str(r)[:100]}; invocations {[(n, len(a)) for n, a in CALLS]}"
            recv = CALLS[0][1][0]
            if (rc in ("null", "n", "m.k")) != (recv is None) or (recv is not None and bool(recv)):
                return False, f"{where}: receiver handed to the host function is {recv!r}"
    return True, "ok"


def shadow(runner, vals):
    from celpy import celtypes as ct
    b = {"l": ct.ListType([ct.IntType(1), ct.IntType(2)]), "a": ct.IntType(vals["a"])}
    try:
        prog = make_program("size(l) + a", runner, functions={"size": size})
    except Exception as ex:  # noqa: BLE001
        return False, f"supplying a function named `size` under {runner}: program construction raised {type(ex).__name__}: {ex}"
    kd, r = evaluate_outcome(lambda: prog.evaluate(dict(b)))
    if kd != "value" or int(r) != 4242 + vals["a"]:
        return False, f"supplied `size` does not replace the built-in under {runner}: {kd} {r!r:.120}"
    plain = make_program("size(l) + a", runner)
    kd, r = evaluate_outcome(lambda: plain.evaluate(dict(b)))
    if kd != "value" or int(r) != 2 + vals["a"]:
        return False, f"the override leaked into another program under {runner}: {kd} {r!r:.120}"
    return True, "ok"


ERR_FUNCS = {"returns-error": host_err, "raises-ValueError": host_raise_value, "raises-TypeError": host_raise_type,
             "raises-bare-TypeError": host_raise_type_bare, "raises-bare-ValueError": host_raise_value_bare, "raises-ValueError-nontext-args": host_raise_value_args}
ERR_CTX = {"f(a) > 0 || true": True, "true || f(a) > 0": True, "f(a) > 0 && false": False, "false && f(a) > 0": False,
           "true ? 7 : f(a)": 7, "f(a)": "error", "f(a) > 0 || false": "error", "a.f() > 0 || true": True,
           "a.f(1) > 0 || true": True, "a.f(2.5, [a]) > 0 || true": True, "a.f('s')": "error", "f(a, 1, 'x') > 0 || true": True, "[a].f(a) == 1 && false": False,
           "a.f(1u)": "error", "false ? 1 : a.f(a, a)": "error"}


def error_behaviour(src, errkind, runner, vals):
    from celpy import celtypes as ct
    exp = ERR_CTX[src]
    where = f"`{src}` with f {errkind} under {runner}"
    try:
        prog = make_program(src, runner, functions={"f": ERR_FUNCS[errkind]})
    except Exception as ex:  # noqa: BLE001
        return False, f"{where}: program construction raised {type(ex).__name__}: {ex}"
    kd, r = evaluate_outcome(lambda: prog.evaluate({"a": ct.IntType(vals["a"])}))
    if exp == "error":
        return kd == "error", f"{where}: expected an evaluation error, got {kd} {r!r:.100}"
    if kd != "value":
        return False, f"{where}: expected {exp} (the error must be absorbed like a built-in error), got {kd} {type(r).__name__}: {str(r)[:120]}"
    ok = (bool(r) == exp) if isinstance(exp, bool) else (int(r) == exp)
    return ok, f"{where}: expected {exp}, got {r!r}"


def unbound(runner, vals):
    from celpy import celtypes as ct
    decls = {"limit": ct.IntType, "label": ct.StringType, "a": ct.IntType}
    for src, want, ann in (("nosuch(a)", "error", None), ("a.nosuch()", "error", None), ("nosuch(a) > 0 || true", "value", None),
                           ("limit(a)", "error", decls), ("a.limit()", "error", decls), ("label(a)", "error", decls), ("limit(a) > 0 || true", "value", decls),
                           ("a.label() == 'x' && false", "value", decls)):
        try:
            prog = make_program(src, runner, functions={"f": host_f}, annotations=ann)
        except Exception as ex:  # noqa: BLE001
            return False, f"`{src}` under {runner}: program construction raised {type(ex).__name__}"
        for extra in ({}, {"limit": ct.IntType(3), "label": ct.StringType("x")}):
            if extra and ann is None:
                continue
            kd, r = evaluate_outcome(lambda: prog.evaluate({"a": ct.IntType(vals["a"]), **extra}))
            if kd != want:
                return False, f"`{src}` under {runner}{' (name is a declared variable, bound)' if extra else ''}: no function of that name is bound, expected {want}, got {kd} {r!r:.100}"
    return True, "ok"


def tolerant(*args):
    from celpy import celtypes as ct
    return ct.IntType(7)


def reachable(case, runner, vals):
    """host callables importable from `operator` (reachable by generated code too)"""
    import operator
    from celpy import celtypes as ct
    a, b, c = vals["a"], vals["b"], vals["c"]
    E = "error"
    div_err = b == 0
    table = {
        "dict-sub": ({"f": operator.sub}, [("f(a, b)", a - b), ("a.f(b)", a - b), ("f(f(a, b), c)", a - b - c), ("a.f(b).f(c)", a - b - c), ("f(a, f(b, c))", a - (b - c)),
                                          ("[a, b].map(x, x.f(c))[1]", b - c), ("f(a, b) > 0 || f(b, a) >= 0", True)]),
        "list-sub": ([operator.sub], [("sub(a, b)", a - b), ("a.sub(b)", a - b), ("sub(a, b).sub(c)", a - b - c)]),
        "shadow-size": ({"size": operator.neg, "startsWith": operator.sub}, [("size(a)", -a), ("a.size()", -a), ("a.startsWith(b)", a - b), ("startsWith(a, b)", a - b),
                                                                           ("size(a) + a.size()", -2 * a)]),
        "leak-list": ([operator.sub, operator.neg], [("sub(a, b)", a - b), ("neg(a)", -a)]),
        "leak-dict": ({"sub": operator.sub, "neg": operator.neg}, [("sub(a, b)", a - b), ("neg(a)", -a)]),
        "tolerant-builtin-error": ({"g": operator.is_}, [("g(a / b, c)", E if div_err else False), ("(a / b).g(c)", E if div_err else False), ("g(c, a % b)", E if div_err else False)]),
        "tolerant-host-error": ({"g": tolerant, "f": host_err, "h": host_raise_value}, [("g(f(a), 2)", E), ("f(a).g(2)", E), ("g(2, h(a))", E), ("g(f(a), 2) > 0 || true", True), ("g(a, 2)", 7)]),
        "builtin-error-argument": ({"g": operator.is_}, [("string(a / b) == string(a / b)", E if div_err else True), ("size([a / b])", E if div_err else 1)]),
    }
    fns, progs = table[case]
    bind = {"a": ct.IntType(a), "b": ct.IntType(b), "c": ct.IntType(c)}
    for src, want in progs:
        where = f"`{src}` with functions {sorted(fns) if isinstance(fns, dict) else [f.__name__ for f in fns]} from `operator` under {runner} (a={a}, b={b}, c={c})"
        try:
            prog = make_program(src, runner, functions=fns)
        except Exception as ex:  # noqa: BLE001
            return False, f"{where}: program construction raised {type(ex).__name__}: {ex}"
        kd, r = evaluate_outcome(lambda: prog.evaluate(dict(bind)))
        if want == E:
            if kd != "error":
                return False, f"{where}: an erroring argument must make the call an evaluation error, got {kd} {r!r:.80}"
            continue
        if kd != "value":
            return False, f"{where}: expected {want}, got {kd} {type(r).__name__}: {str(r)[:120]}"
        if (bool(r) != want) if isinstance(want, bool) else (int(r) != want):
            return False, f"{where}: expected {want}, got {r!r}"
    if case.startswith("leak"):
        for src in ("sub(a, b)", "a.sub(b)", "neg(a)"):
            try:
                kd, r = evaluate_outcome(lambda: make_program(src, runner).evaluate(dict(bind)))
            except Exception as ex:  # noqa: BLE001
                kd, r = "construction", ex
            if kd != "error":
                return False, f"`{src}` in a later program built without functions under {runner}: expected an evaluation error (unbound), got {kd} {r!r:.80}"
        kd, r = evaluate_outcome(lambda: make_program("size([a, b]) + 0", runner).evaluate(dict(bind)))
        if kd != "value" or int(r) != 2:
            return False, f"built-in size() in a later program under {runner}: {kd} {r!r:.80}"
    return True, "ok"


def one_env(runner, vals):
    """several programs built from ONE Environment bind the same names to different callables: each runs its own"""
    import operator
    import celpy
    from celpy import celtypes as ct
    a = vals["a"]
    R = celpy.InterpretedRunner if runner == "interp" else celpy.CompiledRunner
    celpy.CELParser.CEL_PARSER = None
    env = celpy.Environment(runner_class=R)
    specs = [({"g": operator.neg}, "g(a) + a.g()", -2 * a), ({"g": operator.abs}, "g(a) + a.g()", 2 * abs(a)), ([operator.neg], "neg(a)", -a),
             ({"g": operator.pos, "size": operator.neg}, "g(a) + size(a)", 0), ({"size": operator.abs}, "size(a)", abs(a))]
    progs = [(src, want, env.program(env.compile(src), functions=fns)) for fns, src, want in specs]
    for rnd in (0, 1):
        for i, (src, want, prog) in enumerate(progs):
            kd, r = evaluate_outcome(lambda: prog.evaluate({"a": ct.IntType(a)}))
            if kd != "value" or int(r) != want:
                return False, f"program {i} `{src}` (one Environment, {len(progs)} programs, round {rnd}) under {runner} with a={a}: expected {want} from its own functions, got {kd} {r!r:.80}"
    return True, "ok"
