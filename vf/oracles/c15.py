"""Concrete oracle for C15 (real code): json_to_cel, CELJSONEncoder (incl. the C json text step), navigation."""
import base64
import json
import math

from .util import make_program, evaluate_outcome


def _build(s, vals, path=()):
    if "__obj__" in s:
        return {k: _build(v, vals, path + (k,)) for k, v in s["__obj__"]}
    if "__arr__" in s:
        return [_build(v, vals, path + (i,)) for i, v in enumerate(s["__arr__"])]
    if "__const__" in s:
        return s["__const__"]
    leaf = s["__leaf__"]
    n = "L" + "_".join(str(p) for p in path)
    if leaf[0] in ("int", "float"):
        return vals[n]
    return "".join(chr(vals[f"{n}_c{i}"]) for i in range(leaf[1]))


def _same(a, b):
    """strict JSON equality: bool is not int, int is not float, -0.0 distinguished"""
    if type(a) is not type(b):
        return False
    if isinstance(a, dict):
        return list(a) == list(b) and all(_same(a[k], b[k]) for k in a) if set(a) == set(b) else False
    if isinstance(a, list):
        return len(a) == len(b) and all(_same(x, y) for x, y in zip(a, b))
    if isinstance(a, float):
        return a == b and math.copysign(1, a) == math.copysign(1, b)
    return a == b


CLS = {bool: "BoolType", int: "IntType", float: "DoubleType", str: "StringType", list: "ListType", dict: "MapType", type(None): "NoneType"}


def _check_types(doc, cel, where):
    if type(cel).__name__ != CLS[type(doc)]:
        return f"{where}: {type(doc).__name__} became {type(cel).__name__}"
    if isinstance(doc, dict):
        if len(cel) != len(doc):
            return f"{where}: object size"
        for k, v in doc.items():
            ks = [c for c in cel if str(c) == k]
            if len(ks) != 1 or type(ks[0]).__name__ != "StringType":
                return f"{where}: key {k!r}"
            r = _check_types(v, cel[ks[0]], f"{where}.{k}")
            if r:
                return r
    elif isinstance(doc, list):
        if len(cel) != len(doc):
            return f"{where}: array size"
        for i, v in enumerate(doc):
            r = _check_types(v, cel[i], f"{where}[{i}]")
            if r:
                return r
    elif isinstance(doc, float):
        if not (float(cel) == doc and math.copysign(1, float(cel)) == math.copysign(1, doc)):
            return f"{where}: {doc!r} became {cel!r}"
    elif doc is not None and not (cel == doc):
        return f"{where}: {doc!r} became {cel!r}"
    return None


def _paths(doc, path=()):
    if isinstance(doc, dict):
        for k, v in doc.items():
            yield from _paths(v, path + (k,))
    elif isinstance(doc, list):
        for i, v in enumerate(doc):
            yield from _paths(v, path + (i,))
    else:
        yield path, doc


def _check_document(doc):
    import celpy
    from celpy.adapter import json_to_cel, CELJSONEncoder
    try:
        cel = json_to_cel(doc)
    except Exception as ex:  # noqa: BLE001 - a JSON document (integers within int64) that cannot be converted is the finding
        return False, f"json_to_cel({doc!r:.120}) raised {type(ex).__name__}: {ex}"
    r = _check_types(doc, cel, "doc")
    if r:
        return False, f"json_to_cel: {r}"
    back = CELJSONEncoder.to_python(cel)
    text = json.dumps(cel, cls=CELJSONEncoder)
    again = json.loads(text)
    if not _same(again, doc):
        return False, f"json.dumps(json_to_cel(d), cls=CELJSONEncoder) = {text[:120]} does not load back to the original {doc!r:.120}"
    for path, leaf in _paths(doc):
        variants = [""]
        for p in path:
            if isinstance(p, int):
                variants = [v + f"[{p}]" for v in variants]
            else:
                new = [v + f"[{json.dumps(p, ensure_ascii=False)}]" for v in variants]
                if p.isidentifier() and p not in ("true", "false", "null", "in"):
                    new += [v + f".{p}" for v in variants]
                variants = new[:4]
        srcs = ["doc" + v for v in variants]
        if not path:
            srcs += ["[doc][0]", "{'k': doc}.k", "{'k': doc}['k']", "[doc, doc].map(x, x)[1]"]
        for src_ in srcs:
            for runner in ("interp", "compiled"):
                prog = make_program(src_, runner)
                kd, got = evaluate_outcome(lambda: prog.evaluate({"doc": cel}))
                if kd != "value":
                    return False, f"`{src_}` under {runner}: {kd} {got!r:.100}"
                r = _check_types(leaf, got, src_)
                if r:
                    return False, f"navigation under {runner}: {r}"
    return True, "ok"


def document(shape, vals):
    return _check_document(_build(shape, vals))


def text_document(text):
    from celpy.adapter import CELJSONDecoder, CELJSONEncoder
    doc = json.loads(text)
    ok, detail = _check_document(doc)
    if not ok:
        return ok, detail
    cel = json.loads(text, cls=CELJSONDecoder)
    if not _same(json.loads(json.dumps(cel, cls=CELJSONEncoder)), doc):
        return False, f"CELJSONDecoder/CELJSONEncoder round trip of {text[:80]}"
    return True, "ok"


def special(kind, value):
    from celpy import celtypes as ct
    from celpy.adapter import CELJSONEncoder
    import datetime
    if kind == "timestamp":
        v = ct.TimestampType(value)
        text = json.loads(json.dumps([v], cls=CELJSONEncoder))[0]
        try:
            back = ct.TimestampType(text)
        except Exception as ex:  # noqa: BLE001
            return False, f"timestamp {value} encodes as {text!r}, which does not parse back: {ex}"
        rfc = len(text) >= 20 and text[4] == "-" and text[10] == "T" and (text.endswith("Z") or text[-6] in "+-")
        return (back == v and rfc), f"timestamp {value} encodes as {text!r}"
    if kind == "duration":
        v = ct.DurationType(datetime.timedelta(seconds=value))
        text = json.loads(json.dumps({"d": v}, cls=CELJSONEncoder))["d"]
        return text == f"{value}s", f"duration of {value} s encodes as {text!r}"
    v = ct.BytesType(bytes(value))
    text = json.loads(json.dumps([v], cls=CELJSONEncoder))[0]
    try:
        back = base64.b64decode(text, validate=True)
    except Exception as ex:  # noqa: BLE001
        return False, f"bytes {value[:8]} encode as {text[:40]!r}, which is not valid (standard alphabet) base64: {ex}"
    return back == bytes(value) and text == base64.b64encode(bytes(value)).decode(), f"bytes {value[:8]} encode as {text[:40]!r}"


def time_text(what, vals):
    """JSON encoding of a whole-second timestamp (instant es seconds, display offset o minutes) / duration (ds seconds)"""
    import datetime
    import re
    from celpy import celtypes as ct
    from celpy.adapter import CELJSONEncoder
    from . import c11
    if what == "duration-text":
        ds = vals["ds"]
        d = ct.DurationType(datetime.timedelta(days=ds // 86400, seconds=ds % 86400))
        text = json.loads(json.dumps([d], cls=CELJSONEncoder))[0]
        return text == f"{ds}s", f"duration of {ds} s encodes as {text!r}"
    es, o = vals["es"], vals["o"]
    t = c11._timestamp(es * 10**6, o)
    text = json.loads(json.dumps([t], cls=CELJSONEncoder))[0]
    m = re.fullmatch(r"(\d{4})-(\d\d)-(\d\d)T(\d\d):(\d\d):(\d\d)(Z|[+-]\d\d:\d\d)", text) if isinstance(text, str) else None
    if not m:
        return False, f"timestamp {es} s at offset {o} min encodes as {text!r}, which is not RFC 3339 date-time text"
    y, mo, d, h, mi, sec = (int(g) for g in m.groups()[:6])
    off = 0 if m.group(7) == "Z" else (-1 if m.group(7)[0] == "-" else 1) * (int(m.group(7)[1:3]) * 60 + int(m.group(7)[4:6]))
    if not (1 <= mo <= 12 and 1 <= d <= 31 and h < 24 and mi < 60 and sec < 60):
        return False, f"timestamp encodes as {text!r}: field out of range"
    inst = ((c11.ordinal(y, mo, d) - c11.EPOCH_ORD) * 86400 + h * 3600 + mi * 60 + sec) - off * 60
    return inst == es, f"timestamp for the instant {es} s (shown at offset {o} min) encodes as {text!r}, which denotes the instant {inst} s"
