"""Concrete oracle for C16 (real, un-shadowed code; real threads; stdlib + celpy only, no z3).

Documented threading contract = one Environment + program per thread.  `forced_schedule` runs every thread's workload
alone (solo outcome), then runs all of them concurrently while line-event gates (sys.monitoring LINE events, i.e. the
3.12 mechanism underneath sys.settrace, restricted to celpy code so that Lark runs untraced) force the given order of
source lines, and compares each thread's outcomes with its solo outcomes.  Gating only ever *delays* a thread at a
line boundary, so whatever the forced run returns is the outcome of a legitimate interleaving of the real code.

A schedule entry is {"t": thread#, "file": basename, "func": qualname, "line": <stripped source text> | <int>,
"nth": k, "occ": n}: thread t's n-th execution (0-based, counted from the start of its workload) of the line of
`func` whose stripped text is `line` (k-th such line inside the function; resolved against the *current* source at
replay time) or, for the exec-ed "<string>" code whose text is generated from the program, whose number is `line`.
An entry is one atomic step: everything the thread does from that line event up to its next traced line event.
"""
import linecache
import os
import sys
import threading
import time

REPO = os.environ.get("VERIF_REPO", "/repo")
SRC = os.path.join(os.path.realpath(os.path.join(REPO, "src")), "celpy") + os.sep
WAIT_S = float(os.environ.get("VERIF_C16_WAIT", "30"))     # absolute cap on one gate wait
STALL_S = float(os.environ.get("VERIF_C16_STALL", "1.5"))    # ... and: no thread that is not itself gated moved for this long


class _Interpreter:
    """pseudo namespace for process-wide interpreter state that is set/read through accessor functions"""


INTERPRETER = _Interpreter()
DEFAULT_RECURSION_LIMIT = 1000            # every scenario starts from Python's default, whatever ran before in the process
AMBIENT = {"recursionlimit": (sys.getrecursionlimit, sys.setrecursionlimit),
           "switchinterval": (sys.getswitchinterval, sys.setswitchinterval)}


def celpy_mod():
    src = os.path.dirname(os.path.dirname(SRC))
    if src not in sys.path:
        sys.path.insert(0, src)
    import celpy
    import celpy.evaluation  # noqa: F401
    if not os.path.realpath(celpy.__file__).startswith(SRC):
        raise RuntimeError(f"celpy imported from {celpy.__file__}, expected {SRC}")
    return celpy


def traced(code, frame):
    """celpy source files, and "<string>" code reached from them (the transpiled program, its lambdas)"""
    fn = code.co_filename
    if fn != "<string>":
        return fn.startswith(SRC) or os.path.realpath(fn).startswith(SRC)
    f = frame.f_back
    while f is not None and f.f_code.co_filename == "<string>":
        f = f.f_back
    return f is not None and traced(f.f_code, f)


class Monitor:
    """sys.monitoring (PEP 669) session delivering LINE (and optionally INSTRUCTION) events for traced code only;
    every other code object is switched off at its first PY_START, so Lark etc. run at full speed."""
    TOOL = 3

    def __init__(self, on_line, on_instruction=None):
        self.on_line, self.on_instruction, self.codes = on_line, on_instruction, {}   # id -> code (equal code objects differ)

    def _start(self, code, offset):
        if id(code) not in self.codes and traced(code, sys._getframe(1)):
            E = sys.monitoring.events
            self.codes[id(code)] = code
            sys.monitoring.set_local_events(self.TOOL, code, E.LINE | (E.INSTRUCTION if self.on_instruction else 0))
        return sys.monitoring.DISABLE

    def __enter__(self):
        m, E = sys.monitoring, sys.monitoring.events
        m.use_tool_id(self.TOOL, "vf.c16")
        m.register_callback(self.TOOL, E.PY_START, self._start)
        m.register_callback(self.TOOL, E.LINE, lambda code, line: self.on_line(sys._getframe(1), code, line))
        if self.on_instruction:
            m.register_callback(self.TOOL, E.INSTRUCTION, lambda code, off: self.on_instruction(sys._getframe(1), code, off))
        m.set_events(self.TOOL, E.PY_START)
        m.restart_events()
        return self

    def __exit__(self, *exc):
        m, E = sys.monitoring, sys.monitoring.events
        m.set_events(self.TOOL, 0)
        for code in self.codes.values():
            m.set_local_events(self.TOOL, code, 0)
        for ev in (E.PY_START, E.LINE, E.INSTRUCTION):
            m.register_callback(self.TOOL, ev, None)
        m.free_tool_id(self.TOOL)


_keys = {}


def gate_key(code, lineno):
    """(basename, qualname, text | lineno, nth): position-independent identity of a source line"""
    k = _keys.get((code, lineno))
    if k is None:
        fn = code.co_filename
        if fn == "<string>":
            k = ("<string>", code.co_qualname, lineno, 0)
        else:
            lines = linecache.getlines(fn)
            text = lines[lineno - 1].strip() if 0 < lineno <= len(lines) else ""
            nth = sum(1 for i in range(code.co_firstlineno, lineno) if lines[i - 1].strip() == text) if text else 0
            k = (os.path.basename(fn), code.co_qualname, text or lineno, nth)
        _keys[(code, lineno)] = k
    return k


def to_cel(v):
    from celpy import celtypes as ct
    if isinstance(v, bool):
        return ct.BoolType(v)
    if isinstance(v, int):
        return ct.IntType(v)
    if isinstance(v, float):
        return ct.DoubleType(v)
    if isinstance(v, str):
        return ct.StringType(v)
    if isinstance(v, list):
        return ct.ListType([to_cel(x) for x in v])
    if isinstance(v, dict):
        return ct.MapType({to_cel(k): to_cel(x) for k, x in v.items()})
    raise TypeError(f"binding value {v!r}")


def runners(runner, n):
    """per-thread runner names: "interp" / "compiled" for all threads, or "compiled+interp" (cycled) for mixed scenarios"""
    parts = runner.split("+")
    return [parts[i % len(parts)] for i in range(n)]


def workload(runner, src, binding, evals=1):
    """the documented contract, executed entirely inside the calling thread; returns the list of outcomes"""
    celpy = celpy_mod()
    R = celpy.InterpretedRunner if runner == "interp" else celpy.CompiledRunner
    ctx = {k: to_cel(v) for k, v in binding.items()}

    def run():
        out = []
        try:
            env = celpy.Environment(runner_class=R)
            prog = env.program(env.compile(src))
        except Exception as ex:  # noqa: BLE001
            return [["escape-in-setup", type(ex).__name__, repr(ex.args)[:200]]]
        for _ in range(evals):
            try:
                r = prog.evaluate(dict(ctx))
                out.append(["value", type(r).__name__, repr(r)])
            except celpy.CELEvalError as ex:
                out.append(["error", type(ex).__name__, repr(ex.args)[:200]])
            except Exception as ex:  # noqa: BLE001
                out.append(["escape", type(ex).__name__, repr(ex.args)[:200]])
        return out
    return run


class State:
    """initial state of the tracked shared namespaces: celpy module dicts and celpy class attributes"""

    def __init__(self):
        celpy_mod()
        self.spaces = {}
        for name, m in list(sys.modules.items()):
            if m is not None and (name == "celpy" or name.startswith("celpy.")):
                self.spaces[id(m.__dict__)] = (name, m.__dict__, None)
                for c in list(vars(m).values()):
                    if isinstance(c, type) and (c.__module__ or "").startswith("celpy"):
                        self.spaces[id(c)] = (f"{c.__module__}.{c.__qualname__}", c.__dict__, c)
        self.ambient = {k: get() for k, (get, _) in AMBIENT.items()}
        self.saved = {ns: dict(d) for ns, (_, d, _) in self.spaces.items()}
        self.saved_fp = {ns: {k: self._fp(v) for k, v in s.items()} for ns, s in self.saved.items()}
        self.contents = {(ns, k): (v.copy() if not isinstance(v, list) else list(v)) for ns, s in self.saved.items()
                         for k, v in s.items() if type(v) in (dict, list, set)}    # to undo in-place mutation

    @staticmethod
    def _fp(v):
        if isinstance(v, dict):
            return (id(v), len(v), hash(tuple((id(k), id(x)) for k, x in v.items())))
        if isinstance(v, (list, set)):
            return (id(v), len(v), hash(tuple(sorted(id(x) for x in v))))
        return id(v)

    def diff(self):
        """(namespace id, label, name, 'rebound'|'mutated') for every tracked name changed since the snapshot"""
        out = []
        for ns, (label, d, _) in self.spaces.items():
            old, fps = self.saved[ns], self.saved_fp[ns]
            for k in set(d) | set(old):
                if k.startswith("__") and k.endswith("__"):
                    continue
                if k not in d or k not in old or d[k] is not old[k]:
                    out.append((ns, label, k, "rebound"))
                elif self._fp(d[k]) != fps[k]:
                    out.append((ns, label, k, "mutated"))
        out += [(id(INTERPRETER), "interpreter", k, "rebound") for k, (get, _) in AMBIENT.items() if get() != self.ambient[k]]
        return out

    def restore(self):
        for ns, label, k, how in self.diff():
            if ns == id(INTERPRETER):
                AMBIENT[k][1](self.ambient[k])
                continue
            _, d, cls = self.spaces[ns]
            old = self.saved[ns]
            if how == "mutated":
                v, was = d[k], self.contents.get((ns, k))
                if was is not None:
                    if isinstance(v, list):
                        v[:] = was
                    else:
                        v.clear()
                        v.update(was)
                continue
            if cls is None:
                if k in old:
                    d[k] = old[k]
                else:
                    del d[k]
            elif k in old:
                setattr(cls, k, old[k])
            else:
                delattr(cls, k)

    def close(self):
        """leave the process as it was found: the scenario's own initial limit must not leak into later work"""
        self.restore()
        sys.setrecursionlimit(self.previous_limit)


def initial_state(runner="interp", warm=False):
    """Snapshot of the scenario's initial state.  The parser singleton is cleared (its specialisation to the first
    runner's tree class is C05's subject); `warm`: an earlier Environment of the same runner class already built it."""
    celpy = celpy_mod()
    celpy.CELParser.CEL_PARSER = None
    previous = sys.getrecursionlimit()
    if warm:
        celpy.Environment(runner_class=celpy.InterpretedRunner if runners(runner, 1)[0] == "interp" else celpy.CompiledRunner)
    sys.setrecursionlimit(DEFAULT_RECURSION_LIMIT)
    state = State()
    state.previous_limit = previous
    return state


def solo(runner, programs, bindings, evals=1, state=None):
    own, state = state is None, state or initial_state(runner)
    out = []
    try:
        for src, b in zip(programs, bindings):
            state.restore()
            out.append(workload(runners(runner, len(programs))[len(out)], src, b, evals)())
    finally:
        state.close() if own else state.restore()
    return out


class Gates:
    def __init__(self, schedule, nthreads):
        self.sched = [(e["t"], (e["file"], e["func"], e["line"], e.get("nth", 0)), e.get("occ", 0)) for e in schedule]
        # `with self.lock` enters/exits in C: a thread held above a recursion limit that another thread has just lowered
        # cannot call Condition.__exit__ (a Python frame) and would leave the lock held for ever
        self.lock = threading.RLock()
        self.cv = threading.Condition(self.lock)
        self.ptr = 0
        self.status = ["pending"] * len(self.sched)     # pending | inflight | done | skipped
        self.queue = {t: [i for i, e in enumerate(self.sched) if e[0] == t] for t in range(nthreads)}
        self.inflight = {t: None for t in range(nthreads)}
        self.finished = {t: False for t in range(nthreads)}
        self.occ = {t: {} for t in range(nthreads)}
        self.wanted = {t: {e[1] for e in self.sched if e[0] == t} for t in range(nthreads)}
        self.broken_at = None
        self.order = []
        self.threads = {}
        self.waiting = set()

    def _advance(self):
        while self.ptr < len(self.sched) and (self.status[self.ptr] in ("done", "skipped") or
                                                (self.status[self.ptr] == "pending" and self.finished[self.sched[self.ptr][0]])):
            if self.status[self.ptr] == "pending":
                self.status[self.ptr] = "skipped"
            self.ptr += 1
        self.cv.notify_all()

    def line(self, t, code, lineno):
        key = gate_key(code, lineno)
        with self.lock:
            i = self.inflight[t]
            if i is not None:
                self.status[i], self.inflight[t] = "done", None
                self._advance()
            if key not in self.wanted[t]:
                return
            n = self.occ[t].get(key, 0)
            self.occ[t][key] = n + 1
            q = self.queue[t]
            hit = next((j for j, i in enumerate(q) if self.sched[i][1] == key and self.sched[i][2] == n), None)
            if hit is None:
                return
            for i in q[:hit]:                      # control flow left the solo path: those steps did not happen
                self.status[i] = "skipped"
            i = q[hit]
            del q[:hit + 1]
            self._advance()
            end, stall, last = time.time() + WAIT_S, time.time(), None
            self.waiting.add(t)
            while self.ptr != i and self.broken_at is None:
                self.cv.wait(0.05)
                now, snap = time.time(), self._running()
                if snap != last:
                    last, stall = snap, now
                if now > end or now - stall > STALL_S:
                    self.broken_at = self.ptr  # cannot be forced (e.g. a lock): open every gate, report inconclusive
                    self.cv.notify_all()
            self.waiting.discard(t)
            self.status[i], self.inflight[t] = "inflight", i
            self.order.append(i)

    def _running(self):
        """where every workload thread that is not held at a gate currently is (thread, frame, instruction)"""
        frames = sys._current_frames()
        return [(t, id(frames.get(ident)), getattr(frames.get(ident), "f_lasti", -1))
                for ident, t in sorted(self.threads.items()) if t not in self.waiting and not self.finished[t]]

    def end(self, t):
        with self.lock:
            i = self.inflight[t]
            if i is not None:
                self.status[i], self.inflight[t] = "done", None
            self.finished[t] = True
            self._advance()

    def on_line(self, frame, code, lineno):
        t = self.threads.get(threading.get_ident())
        if t is not None:
            self.line(t, code, lineno)


def run_forced(runner, programs, bindings, schedule, evals=1, state=None):
    """-> (outcomes per thread, gates).  Real threads, each building its own Environment/program inside the thread."""
    own, state = state is None, state or initial_state(runner)
    state.restore()
    n = len(programs)
    g = Gates(schedule, n)
    res = [None] * n
    start = threading.Barrier(n)

    def body(t):
        fn = workload(runners(runner, n)[t], programs[t], bindings[t], evals)
        start.wait()
        with g.lock:
            g.threads[threading.get_ident()] = t
        try:
            res[t] = fn()
        finally:
            g.end(t)
    ths = [threading.Thread(target=body, args=(t,), daemon=True) for t in range(n)]
    with Monitor(g.on_line):
        for th in ths:
            th.start()
        for th in ths:
            th.join(WAIT_S * (len(schedule) + 2))
    state.close() if own else state.restore()
    return res, g


def verdict(solo_res, res, g, target=None):
    """-> (differs, forced, text)"""
    differs = [t for t in range(len(res)) if res[t] != solo_res[t]]
    need = max(target["write"], target["read"]) if target else len(g.sched) - 1
    forced = g.broken_at is None or g.broken_at > need
    if target:
        forced = forced and g.status[target["write"]] == "done" and g.status[target["read"]] == "done" \
            and g.order.index(target["write"]) < g.order.index(target["read"])
    else:
        forced = forced and all(s == "done" for s in g.status)
    text = "; ".join(f"thread {t} ({'solo' if res[t] == solo_res[t] else 'DIFFERS'}): solo={solo_res[t]} forced={res[t]}"
                     for t in range(len(res)))
    skipped = sum(1 for s in g.status if s == "skipped")
    return differs, forced, f"{text}; schedule {'forced' if forced else 'NOT forced (inconclusive)'}, " \
                            f"{len(g.order)}/{len(g.sched)} steps gated, {skipped} skipped"


def forced_schedule(runner, programs, bindings, schedule, evals=1, target=None, warm=False):
    """ok == False iff some thread's outcomes under the forced schedule differ from its outcomes when run alone."""
    state = initial_state(runner, warm)     # recursion limit 1000, parser singleton cleared / pre-built
    try:
        s = solo(runner, programs, bindings, evals, state)
        again = solo(runner, programs, bindings, evals, state)
        if s != again:
            raise RuntimeError(f"solo outcomes are not deterministic: {s} vs {again}")
        res, g = run_forced(runner, programs, bindings, schedule, evals, state)
        if any(r is None for r in res):
            raise RuntimeError("a thread did not finish")
        differs, forced, text = verdict(s, res, g, target)
        return (not differs), text
    finally:
        state.close()
