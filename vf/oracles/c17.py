"""Concrete oracles for C17 (real c7nlib, real ipaddress)."""
import fnmatch
import ipaddress

from .util import evaluate_outcome


def _lib():
    import celpy.c7nlib as m
    return m


def _prog(text):
    import celpy
    m = _lib()
    celpy.CELParser.CEL_PARSER = None
    env = celpy.Environment(annotations=dict(m.DECLARATIONS))
    return env.program(env.compile(text), functions=dict(m.FUNCTIONS))


def sets(n, m, kind, vals):
    from celpy import celtypes as ct
    lib = _lib()
    if kind == "int":
        a, b = [vals[f"a_{i}"] for i in range(n)], [vals[f"b_{i}"] for i in range(m)]
        ca, cb = ct.ListType([ct.IntType(x) for x in a]), ct.ListType([ct.IntType(x) for x in b])
    else:
        a, b = [chr(vals[f"a_{i}_c0"]) for i in range(n)], [chr(vals[f"b_{i}_c0"]) for i in range(m)]
        ca, cb = ct.ListType([ct.StringType(x) for x in a]), ct.ListType([ct.StringType(x) for x in b])
    want = {"intersect": any(x in b for x in a), "difference": any(x not in b for x in a), "unique_size": len(set(a))}
    for fn in ("intersect", "difference"):
        for kd, r in (evaluate_outcome(lambda: getattr(lib, fn)(ca, cb)), evaluate_outcome(lambda: _prog(f"a.{fn}(b)").evaluate({"a": ca, "b": cb}))):
            if kd != "value" or bool(r) != want[fn]:
                return False, f"{fn}({a}, {b}): expected {want[fn]}, got {kd} {r!r}"
    for kd, r in (evaluate_outcome(lambda: lib.unique_size(ca)), evaluate_outcome(lambda: _prog("unique_size(a)").evaluate({"a": ca}))):
        if kd != "value" or int(r) != want["unique_size"]:
            return False, f"unique_size({a}): expected {want['unique_size']}, got {kd} {r!r}"
    return True, "ok"


def cidr(pn, px, vals, address):
    lib = _lib()
    na, xa = vals["na"], vals["xa"]
    n_ok = na % 2 ** (32 - pn) == 0
    try:
        net = lib.IPv4Network((na, pn))
    except ValueError:
        return (not n_ok), f"network {na}/{pn} rejected although it has no host bits set"
    if not n_ok:
        return False, f"network {na}/{pn} accepted although host bits are set"
    if address:
        got = net.contains(ipaddress.IPv4Address(xa))
        want = (xa >> (32 - pn)) == (na >> (32 - pn)) if pn else True
        return bool(got) == want, f"{net}.contains({ipaddress.IPv4Address(xa)}): expected {want}, got {got}"
    x_ok = xa % 2 ** (32 - px) == 0
    try:
        sub = lib.IPv4Network((xa, px))
    except ValueError:
        return (not x_ok), f"network {xa}/{px} rejected although it has no host bits set"
    if not x_ok:
        return False, f"network {xa}/{px} accepted although host bits are set"
    want = px >= pn and ((xa >> (32 - pn)) == (na >> (32 - pn)) if pn else True)
    for got in (net.contains(sub), sub in net):
        if bool(got) != want:
            return False, f"{net}.contains({sub}): expected {want}, got {got}"
    return True, "ok"


def cidr_text(net, other, want):
    from celpy import celtypes as ct
    lib = _lib()
    got = lib.parse_cidr(net).contains(lib.parse_cidr(other))
    kd, r = evaluate_outcome(lambda: _prog("parse_cidr(n).contains(parse_cidr(x))").evaluate({"n": ct.StringType(net), "x": ct.StringType(other)}))
    ok = bool(got) == want and kd == "value" and bool(r) == want
    return ok, f"parse_cidr({net!r}).contains(parse_cidr({other!r})): expected {want}, got {got} / {kd} {r!r}"


def cidr_size(text, want):
    lib = _lib()
    got = lib.size_parse_cidr(text)
    return (got is None and want is None) or (got is not None and want is not None and int(got) == want), f"size_parse_cidr({text!r}): expected {want}, got {got!r}"


def key(vals):
    from celpy import celtypes as ct
    lib = _lib()
    tags = ct.ListType([ct.MapType({ct.StringType("Key"): ct.StringType(chr(vals[f"k{i}"])), ct.StringType("Value"): ct.IntType(vals[f"v{i}"])}) for i in range(3)])
    t = chr(vals["t"])
    want = next((vals[f"v{i}"] for i in range(3) if chr(vals[f"k{i}"]) == t), None)
    for kd, r in (evaluate_outcome(lambda: lib.key(tags, ct.StringType(t))),
                  evaluate_outcome(lambda: _prog('resource["Tags"].key(target)').evaluate({"resource": ct.MapType({ct.StringType("Tags"): tags}), "target": ct.StringType(t)}))):
        if kd != "value" or (r is None) != (want is None) or (r is not None and int(r) != want):
            return False, f"key(tags with keys {[chr(vals[f'k{i}']) for i in range(3)]}, {t!r}): expected {want}, got {kd} {r!r}"
    return True, "ok"


def marked_key(vals, date, form):
    from celpy import celtypes as ct
    lib = _lib()
    head = "".join(chr(vals[f"c{i}"]) for i in range(5))
    value = head + "@" + date
    tags = ct.ListType([ct.MapType({ct.StringType("Key"): ct.StringType("status"), ct.StringType("Value"): ct.StringType(value)})])
    kd, r = evaluate_outcome(lambda: lib.marked_key(tags, ct.StringType("status")))
    if kd != "value":
        return False, f"marked_key on {value!r}: {kd} {r!r}"
    if ":" not in head:
        return r is None, f"marked_key on {value!r} (no ':'): expected null, got {r!r}"
    msg, tgt = value.rsplit(":", 1)
    action = tgt.split("@", 1)[0]
    if r is None:
        return False, f"marked_key on {value!r}: expected message {msg!r}, action {action!r}; got null"
    ok = str(r["message"]) == msg and str(r["action"]) == action
    return ok, f"marked_key on {value!r}: expected message {msg!r}, action {action!r}; got {dict(r)!r:.120}"


def arn(nf, vals):
    from celpy import celtypes as ct
    lib = _lib()
    names = ("partition", "service", "region", "account-id", "resource-id") if nf == 5 else ("partition", "service", "region", "account-id", "resource-type", "resource-id")
    parts = [chr(vals[f"f{i}"]) for i in range(nf)]
    text = "arn:" + ":".join(parts)
    for i, name in enumerate(names):
        kd, r = evaluate_outcome(lambda: lib.arn_split(ct.StringType(text), ct.StringType(name)))
        if kd != "value" or str(r) != parts[i]:
            return False, f"arn_split({text!r}, {name!r}): expected {parts[i]!r}, got {kd} {r!r}"
    kd, r = evaluate_outcome(lambda: lib.arn_split(ct.StringType("xrn:a:b:c:d:e"), ct.StringType("service")))
    return kd != "value", f"arn_split on a non-ARN returned {r!r}"


def normalize(n, vals):
    from celpy import celtypes as ct
    s = "".join(chr(vals[f"s_c{i}"]) for i in range(n))
    kd, r = evaluate_outcome(lambda: _lib().normalize(ct.StringType(s)))
    want = "".join(chr(ord(c) + 32) if "A" <= c <= "Z" else c for c in s).strip("\t\n\x0b\x0c\r\x1c\x1d\x1e\x1f ")
    return kd == "value" and str(r) == want and type(r).__name__ == "StringType", f"normalize({s!r}): expected {want!r}, got {kd} {r!r}"


def glob(pattern, vals):
    from celpy import celtypes as ct
    s = chr(vals["s_c0"]) + chr(vals["s_c1"])
    kd, r = evaluate_outcome(lambda: _lib().glob(ct.StringType(s), ct.StringType(pattern)))
    want = fnmatch.fnmatchcase(s, pattern)
    return kd == "value" and bool(r) == want, f"glob({s!r}, {pattern!r}): expected {want}, got {kd} {r!r}"


class _Filter:
    def __init__(self, tag):
        self.tag = tag


def context(vals):
    import celpy
    from celpy import celtypes as ct
    lib = _lib()
    seen = []

    def probe(v):
        seen.append(lib.C7N.filter.tag if lib.C7N is not None else None)
        return v

    def boom(v):
        raise RuntimeError("host failure")

    def make(src):
        celpy.CELParser.CEL_PARSER = None
        env = celpy.Environment(runner_class=lib.C7N_Interpreted_Runner)
        return env.program(env.compile(src), functions={"probe": probe, "boom": boom})
    steps = [(make("probe(10 / x)"), "F1", {"x": ct.IntType(vals["x"])}), (make("probe(10 / y) + boom(y)"), "F2", {"y": ct.IntType(vals["y"])}),
             (make("probe(y)"), "F1", {"y": ct.IntType(vals["y"])})]
    for prog, tag, b in steps:
        n0 = len(seen)
        kd, r = evaluate_outcome(lambda: prog.evaluate(b, _Filter(tag)))
        if lib.C7N is not None:
            lib.C7N = None
            return False, f"after an evaluation that ended in {kd} ({type(r).__name__}) the filter context is still installed"
        if any(t != tag for t in seen[n0:]):
            return False, f"host function saw context {seen[n0:]} during the evaluation with filter {tag}"
    p1, bx = steps[0][0], steps[0][2]
    n0 = len(seen)
    with lib.C7NContext(filter=_Filter("F3")):
        kd, r = evaluate_outcome(lambda: p1.evaluate(bx, _Filter("F1")))
    if lib.C7N is not None:
        lib.C7N = None
        return False, "after an explicit `with C7NContext(...)` block around an evaluation the filter context is still installed"
    if any(t != "F1" for t in seen[n0:]):
        return False, f"inside an enclosing context the host function saw {seen[n0:]}, the evaluation's filter is F1"
    p5, f4 = make("probe(10 / x)"), _Filter("F4")
    with lib.C7NContext(filter=_Filter("F3")):
        evaluate_outcome(lambda: p5.evaluate(bx, f4))
    if lib.C7N is not None:
        lib.C7N = None
        return False, "after an explicit `with C7NContext(...)` block around a program's first evaluation the filter context is still installed"
    kd, r = evaluate_outcome(lambda: p5.evaluate(bx, f4))
    if lib.C7N is not None:
        stale = getattr(getattr(lib.C7N, "filter", None), "tag", lib.C7N)
        lib.C7N = None
        return False, f"a program first evaluated inside an enclosing context, evaluated again outside it (outcome {kd}): the filter context is still installed afterwards ({stale!r})"
    for tag in ("F1", "F2", "F1"):
        n0 = len(seen)
        kd, r = evaluate_outcome(lambda: p1.evaluate(bx, _Filter(tag)))
        if lib.C7N is not None:
            stale = getattr(getattr(lib.C7N, "filter", None), "tag", lib.C7N)
            lib.C7N = None
            return False, f"after re-evaluating (outcome {kd}) a program that was once evaluated inside an enclosing context, the filter context is still installed ({stale!r})"
        if any(t != tag for t in seen[n0:]):
            return False, f"host function saw context {seen[n0:]} during the evaluation with filter {tag}"
    return True, "ok"


def version_order(la, lb, vals):
    """version(a) <op> version(b), directly and through CEL: numeric component order, missing components are zero"""
    import celpy
    import celpy.c7nlib as c7n
    from celpy import celtypes as ct
    a = "".join(chr(vals[f"a_c{i}"]) for i in range(la))
    b = "".join(chr(vals[f"b_c{i}"]) for i in range(lb))
    A, B = [int(x) for x in a.split(".")], [int(x) for x in b.split(".")]
    n = max(len(A), len(B))
    A, B = A + [0] * (n - len(A)), B + [0] * (n - len(B))
    want = {"<": A < B, "<=": A <= B, ">": A > B, ">=": A >= B, "==": A == B, "!=": A != B}
    import operator
    pyop = {"<": operator.lt, "<=": operator.le, ">": operator.gt, ">=": operator.ge, "==": operator.eq, "!=": operator.ne}
    env = celpy.Environment(annotations=dict(c7n.DECLARATIONS))
    for op, w in want.items():
        got = pyop[op](c7n.version(ct.StringType(a)), c7n.version(ct.StringType(b)))
        if bool(got) != w:
            return False, f"version({a!r}) {op} version({b!r}) is {got}, numeric component order gives {w}"
        prog = env.program(env.compile(f"version(a) {op} version(b)"), functions=dict(c7n.FUNCTIONS))
        kd, r = evaluate_outcome(lambda: prog.evaluate({"a": ct.StringType(a), "b": ct.StringType(b)}))
        if kd != "value" or bool(r) != w:
            return False, f"CEL `version(a) {op} version(b)` with a={a!r}, b={b!r}: {kd} {r!r:.80}, numeric component order gives {w}"
    return True, "ok"
