"""Concrete oracle for C18 (real translator, parser and evaluator)."""
import contextlib
import io

from .util import make_program, evaluate_outcome


def _leaf(kind, i, vals):
    f, g = f"f{i}", f"g{i}"
    if kind == "eq":
        return {"type": "value", "key": f, "op": "eq", "value": 1}, vals[f] == 1
    if kind == "ni":
        return {"type": "value", "key": f, "op": "ni", "value": [1, 2]}, vals[f] not in (1, 2)
    if kind == "gt":
        return {"type": "value", "key": f, "op": "gt", "value": 0}, vals[f] > 0
    if kind == "stub-or":
        return {"type": "verif-stub", "text": f'resource["{f}"] == 1 || resource["{g}"] == 1'}, vals[f] == 1 or vals[g] == 1
    if kind == "stub-and":
        return {"type": "verif-stub", "text": f'resource["{f}"] == 1 && resource["{g}"] == 1'}, vals[f] == 1 and vals[g] == 1
    if kind == "stub-cond":
        return {"type": "verif-stub", "text": f'resource["{f}"] == 1 ? resource["{g}"] == 1 : resource["{g}"] == 2'}, \
            (vals[g] == 1 if vals[f] == 1 else vals[g] == 2)
    if kind == "stub-paren-and":
        return {"type": "verif-stub", "text": f'(resource["{f}"] == 1) && (resource["{g}"] == 1)'}, vals[f] == 1 and vals[g] == 1
    if kind == "stub-paren-or":
        return {"type": "verif-stub", "text": f'(resource["{f}"] == 1) || (resource["{g}"] == 1)'}, vals[f] == 1 or vals[g] == 1
    if kind == "stub-bslash-or":
        return {"type": "verif-stub", "text": f'resource["{f}"] == 1 && "\\\\" != "" || resource["{g}"] == 1'}, vals[f] == 1 or vals[g] == 1
    if kind == "stub-apos-or":
        return {"type": "verif-stub", "text": f'resource["{f}"] == 1 && "O\'B" != "" || resource["{g}"] == 1'}, vals[f] == 1 or vals[g] == 1
    if kind == "stub-not":
        return {"type": "verif-stub", "text": f'! [1].contains(resource["{f}"])'}, not (vals[f] == 1)
    raise ValueError(kind)


def _inst(t, kinds, counter, vals):
    if t[0] == "L":
        i = counter[0]
        counter[0] += 1
        return _leaf(kinds[i % len(kinds)], i, vals)
    conn, kids = t
    subs = [_inst(k, kinds, counter, vals) for k in kids]
    structs, truths = [s[0] for s in subs], [s[1] for s in subs]
    if conn == "list":
        return structs, all(truths)
    if conn == "and":
        return {"and": structs}, all(truths)
    if conn == "or":
        return {"or": structs}, any(truths)
    return {"not": structs}, not all(truths)


def tree(top, kinds, vals):
    from celpy import celtypes as ct
    from xlate.c7n_to_cel import C7N_Rewriter
    orig = C7N_Rewriter.primitive

    def primitive(resource, c7n_filter):
        if isinstance(c7n_filter, dict) and c7n_filter.get("type") == "verif-stub":
            return c7n_filter["text"]
        return orig(resource, c7n_filter)
    filt, expected = _inst(top, kinds, [0], vals)
    C7N_Rewriter.primitive = staticmethod(primitive)
    try:
        with contextlib.redirect_stdout(io.StringIO()):
            text = C7N_Rewriter.logical_connector("ec2", filt)
    except Exception as ex:  # noqa: BLE001
        return False, f"translation of {filt!r:.200} raised {type(ex).__name__}: {ex}"
    finally:
        C7N_Rewriter.primitive = staticmethod(orig)
    try:
        prog = make_program(text, "interp")
    except Exception as ex:  # noqa: BLE001
        return False, f"emitted text `{text}` does not parse: {type(ex).__name__}"
    res = ct.MapType({ct.StringType(n): ct.IntType(v) for n, v in vals.items()})
    kd, r = evaluate_outcome(lambda: prog.evaluate({"resource": res}))
    if kd != "value":
        return False, f"`{text}` on {vals}: {kd} {r!r:.100}"
    return bool(r) == bool(expected), f"filters {filt!r:.200} -> `{text}` on {vals}: evaluates to {bool(r)}, Custodian combinators give {bool(expected)}"
