"""Concrete oracles for C19 (real translator + real interpreter + real c7nlib)."""
import ast
import contextlib
import io
import os

from .util import evaluate_outcome
from . import values as V

WS = (9, 10, 11, 12, 13, 28, 29, 30, 31, 32, 0x85, 0xA0, 0x1680, 0x2000, 0x2001, 0x2002, 0x2003, 0x2004, 0x2005, 0x2006, 0x2007, 0x2008, 0x2009, 0x200A, 0x2028, 0x2029, 0x202F, 0x205F, 0x3000)


def _translate(clause, resource="ec2"):
    from xlate.c7n_to_cel import C7N_Rewriter
    with contextlib.redirect_stdout(io.StringIO()):
        return C7N_Rewriter.primitive(resource, clause)


def _program(text):
    import celpy
    import celpy.c7nlib as c7n
    celpy.CELParser.CEL_PARSER = None
    env = celpy.Environment(annotations=dict(c7n.DECLARATIONS))
    return env.program(env.compile(text), functions=dict(c7n.FUNCTIONS))


def _attr(shape, vals):
    from celpy import celtypes as ct
    k = shape[0]
    if k == "int" or k == "nested-int":
        return ct.IntType(vals["r"]), vals["r"]
    if k == "bool":
        return ct.BoolType(bool(vals["r"])), bool(vals["r"])
    if k in ("string", "digits", "tags"):
        s = "".join(chr(vals[f"r_c{i}"]) for i in range(shape[1]))
        return ct.StringType(s), s
    if k == "list":
        xs = [vals[f"r_{i}"] for i in range(len(shape[1]))]
        return ct.ListType([ct.IntType(x) for x in xs]), xs
    raise ValueError(shape)


def _expected(cid, clause, py):
    op, v, vt = clause.get("op"), clause.get("value"), clause.get("value_type")
    R = {"eq": lambda a, b: a == b, "equal": lambda a, b: a == b, "ne": lambda a, b: a != b, "not-equal": lambda a, b: a != b,
         "gt": lambda a, b: a > b, "greater-than": lambda a, b: a > b, "ge": lambda a, b: a >= b, "gte": lambda a, b: a >= b,
         "lt": lambda a, b: a < b, "less-than": lambda a, b: a < b, "le": lambda a, b: a <= b, "lte": lambda a, b: a <= b,
         "in": lambda a, b: a in b, "ni": lambda a, b: a not in b, "not-in": lambda a, b: a not in b,
         "contains": lambda a, b: b in a, "intersect": lambda a, b: bool(set(a) & set(b)), "difference": lambda a, b: bool(set(a) - set(b))}
    if op == "glob":
        import fnmatch
        return fnmatch.fnmatchcase(py, v)
    if isinstance(v, bool) or v in ("true", "false"):
        want = v in (True, "true")
        return (py == want) if op in ("eq", "equal") else (py != want)
    if vt == "size":
        return R[op](len(py), v)
    if vt == "unique_size":
        return R[op](len(set(py)), v)
    if vt == "swap":
        return R[op](v, py)  # operands exchanged: `value in attribute` becomes `attribute in value`
    if vt == "normalize":
        return R[op]("".join(c.lower() for c in py).strip(), v)
    if vt == "integer":
        return R[op](int(py), v)
    if isinstance(py, str) and op in ("lt", "ge", "gt", "le") and isinstance(v, str):
        return R[op]([ord(c) for c in py], [ord(c) for c in v])
    return R[op](py, v)


def op_case(cid, clause, shape, vals, prelude=()):
    from celpy import celtypes as ct
    for res, c in prelude:
        try:
            _translate(dict(c), res)
        except Exception:  # noqa: BLE001
            pass
    cel, py = _attr(shape, vals)
    if shape[0] == "nested-int":
        res = ct.MapType({ct.StringType("a"): ct.MapType({ct.StringType("b"): cel})})
    elif shape[0] == "tags":
        tag = lambda k, val: ct.MapType({ct.StringType("Key"): ct.StringType(k), ct.StringType("Value"): val})
        name = clause["key"][4:]
        res = ct.MapType({ct.StringType("Tags"): ct.ListType([tag("Other", ct.StringType("zz")), tag(name.rpartition(":")[2] + "x", ct.StringType("ab")), tag(name, cel),
                                                              tag(name, ct.StringType("second"))] + ([tag(name.rpartition(":")[2], ct.StringType("ab")), tag(name.partition(":")[0], ct.StringType("ab"))]
                                                                                                    if ":" in name else []))})
    else:
        res = ct.MapType({ct.StringType("k"): cel})
    try:
        text = _translate(clause)
    except Exception as ex:  # noqa: BLE001
        return False, f"translation of {clause} raised {type(ex).__name__}: {ex}"
    try:
        prog = _program(text)
    except Exception as ex:  # noqa: BLE001
        return False, f"{clause} -> `{text}` does not parse: {type(ex).__name__}"
    kd, r = evaluate_outcome(lambda: prog.evaluate({"resource": res}))
    want = _expected(cid, clause, py)
    if kd != "value":
        return False, f"{clause} -> `{text}` on attribute {py!r}: {kd} {r!r:.120}; the relation gives {want}"
    if not isinstance(r, (bool, ct.BoolType)):
        return False, f"{clause} -> `{text}` on attribute {py!r}: evaluates to the non-boolean {r!r:.80}, not to a match decision"
    return bool(r) == bool(want), f"{clause} -> `{text}` on attribute {py!r}: evaluates to {bool(r)}, the relation named by the op gives {bool(want)}"


def q_round_trip(text, quote):
    import celpy
    from xlate.c7n_to_cel import C7N_Rewriter
    s = "".join(chr(c) for c in text)
    lit = C7N_Rewriter.q(s, quote)
    celpy.CELParser.CEL_PARSER = None
    env = celpy.Environment()
    try:
        prog = env.program(env.compile(lit))
    except Exception as ex:  # noqa: BLE001
        return False, f"q({s!r}) = {lit!r} is not a valid CEL literal: {type(ex).__name__}"
    kd, r = evaluate_outcome(lambda: prog.evaluate({}))
    if kd != "value" or not isinstance(r, str):
        return False, f"q({s!r}) = {lit!r} evaluates to {kd} {r!r:.80}"
    return str(r) == s, f"q({s!r}) = {lit!r} evaluates to {str(r)!r}, not the original string"


def present_case(value, kind, vals):
    from celpy import celtypes as ct
    shapes = {"null": None, "empty-string": ("string", 0), "string": ("string", 1), "int": ("int",), "empty-list": ("list", []), "list": ("list", [("int",)])}
    shape = shapes[kind]
    cel = None if shape is None else _attr(shape, vals)[0]
    text = _translate({"type": "value", "key": "k", "value": value})
    prog = _program(text)
    kd, r = evaluate_outcome(lambda: prog.evaluate({"resource": ct.MapType({ct.StringType("k"): cel})}))
    want = (kind != "null") if value == "present" else (kind == "null")
    if kd != "value":
        return False, f"value: {value} -> `{text}` on a {kind} attribute: {kd} {r!r:.80}"
    return bool(r) == want, f"value: {value} -> `{text}` on a {kind} attribute ({cel!r}): evaluates to {bool(r)}, Custodian decides {want}"


SAMPLES = {
    "type_age_rewrite": {"type": "age", "days": 21, "op": "gt"},
    "type_security_group_rewrite": {"type": "security-group", "key": "GroupName", "op": "eq", "value": "x"},
    "type_vpc_rewrite": {"type": "vpc", "key": "VpcId", "op": "eq", "value": "vpc-1"},
    "type_kms_key_rewrite": {"type": "kms-key", "key": "AliasName", "op": "regex", "value": "^a"},
    "cross_account_rewrite": {"type": "cross-account"},
    "used_rewrite": {"type": "used"},
}


def table_entries():
    """(rewriter name, resource type) for every entry of every per-resource-type table found in the current source"""
    src = os.path.join(os.environ.get("VERIF_REPO", "/repo"), "src", "xlate", "c7n_to_cel.py")
    tree = ast.parse(open(src).read())
    out = []
    for cls in tree.body:
        if not isinstance(cls, ast.ClassDef):
            continue
        for fn in cls.body:
            if isinstance(fn, ast.FunctionDef) and fn.name in SAMPLES:
                for n in ast.walk(fn):
                    if isinstance(n, ast.Assign) and isinstance(n.value, ast.Dict) and len(n.value.keys) >= 3 and \
                            all(isinstance(k, ast.Constant) and isinstance(k.value, str) for k in n.value.keys) and \
                            isinstance(n.targets[0], ast.Name) and n.targets[0].id in ("attribute_map", "resource_type_map"):
                        out += [(fn.name, k.value) for k in n.value.keys]
    return out


def table_entry(rewriter, resource):
    import celpy
    from xlate.c7n_to_cel import C7N_Rewriter
    f = getattr(C7N_Rewriter, rewriter)
    try:
        with contextlib.redirect_stdout(io.StringIO()):
            text = f(resource, dict(SAMPLES[rewriter]))
    except Exception as ex:  # noqa: BLE001
        return False, f"{rewriter}({resource!r}) raised {type(ex).__name__}: {ex}"
    celpy.CELParser.CEL_PARSER = None
    try:
        celpy.Environment().compile(text)
    except celpy.CELParseError as ex:
        return False, f"{rewriter}({resource!r}) emits `{text}`, which is not valid CEL (line {ex.line}, column {ex.column})"
    return True, text


def duration_literal(kind, n):
    """the duration literal emitted for a count of seconds / days / quarter days, evaluated as CEL, is that length of time"""
    import celpy
    from fractions import Fraction
    from xlate.c7n_to_cel import C7N_Rewriter
    if kind == "seconds":
        lit, want = C7N_Rewriter.seconds_to_duration(n), n
    elif kind == "age-days":
        lit, want = C7N_Rewriter.age_to_duration(n), n * 86400
    else:
        lit, want = C7N_Rewriter.age_to_duration(n / 4), n * 21600
    celpy.CELParser.CEL_PARSER = None
    env = celpy.Environment()
    try:
        prog = env.program(env.compile(f"duration({lit})"))
    except Exception as ex:  # noqa: BLE001
        return False, f"{kind} {n}: emitted {lit!r}, `duration({lit})` does not parse: {type(ex).__name__}"
    kd, r = evaluate_outcome(lambda: prog.evaluate({}))
    if kd != "value":
        return False, f"{kind} {n}: duration({lit}) is {kd} {r!r:.80}"
    got = (r.days * 86400 + r.seconds) * 10**6 + r.microseconds
    return got == want * 10**6, f"{kind} count {n if kind != 'age-quarter-days' else Fraction(n, 4)}: emitted duration({lit}) is {got / 10**6} s, expected {want} s"
