"""Concrete oracles for C20: the real main() with real stdin/stdout and real JSON text; also `python -m celpy`."""
import contextlib
import io
import json
import os
import subprocess
import sys


def _main(argv, stdin_text=""):
    import celpy.__main__ as m
    out, err = io.StringIO(), io.StringIO()
    saved = sys.stdin
    sys.stdin = io.StringIO(stdin_text)
    try:
        with contextlib.redirect_stdout(out), contextlib.redirect_stderr(err):
            try:
                status = m.main(argv)
            except SystemExit as ex:
                status = ex.code
    finally:
        sys.stdin = saved
    return status, out.getvalue().splitlines(), err.getvalue()


EXPECT = {
    "x > 5": lambda x: ("bool", x > 5, False), "x == 0 || x > 100": lambda x: ("bool", x == 0 or x > 100, False),
    "x + 1": lambda x: ("int", x + 1, x + 1 > 2**63 - 1), "x": lambda x: ("int", x, False),
    "10 / x > 1": lambda x: ("bool", 1 <= x <= 5, x == 0), "x > 0 ? 'pos' : 'non'": lambda x: ("str", "pos" if x > 0 else "non", False),
    "[x, x + 1]": lambda x: ("list", [x, x + 1], x + 1 > 2**63 - 1), "x % 2 == 0 && x != 4": lambda x: ("bool", (abs(x) % 2 == 0) and x != 4, False),
}


def null_input(src, b, x):
    kind, val, err = EXPECT[src](x)
    argv = ["-n"] + (["-b"] if b else []) + ["-a", f"x:int={x}", src]
    status, out, _ = _main(argv)
    if b:
        want = 2 if (err or kind != "bool") else (0 if val else 1)
        return status == want, f"celpy {' '.join(argv)}: exit status {status}, expected {want}"
    if err:
        return status == 2, f"celpy {' '.join(argv)}: evaluation error must exit 2, got {status} with output {out}"
    if status != 0 or len(out) != 1:
        return False, f"celpy {' '.join(argv)}: status {status}, output {out}"
    got = json.loads(out[0])
    ok = (got == val) and (type(got) is type(val))
    return ok, f"celpy {' '.join(argv)}: printed {out[0]}, expected the JSON of {val!r}"


def _doc(a, bad, extra=False):
    return "this is not json" if bad else json.dumps({"a": a, "b": 7, **({"c": 1} if extra else {})})


def stream(src, k, bad, b, mode, slurp, vals, hetero=False):
    opt, name = mode
    base = (["-b"] if b else []) + (["-s"] if slurp else []) + [f"-{opt}", name, src]
    docs = [_doc(vals[f"a{i}"], bad[i], hetero and i % 2 == 0) for i in range(k)]
    status, out, _ = _main(base, "".join(d + "\n" for d in docs))
    singles = [_main(base, d + "\n") for d in docs]
    worst = max(s for s, _, _ in singles)
    if status != worst:
        return False, f"celpy {' '.join(base)} on {docs}: status {status}, but the documents alone give {[s for s, _, _ in singles]}"
    if b and k == 1 and not bad[0] and len(out) == 1 and out[0] in ("true", "false"):
        want = 0 if out[0] == "true" else 1
        if status != want:
            return False, f"celpy {' '.join(base)} on {docs}: result {out[0]} under -b must give status {want}, got {status}"
    if any(bad) and status != 3:
        return False, f"celpy {' '.join(base)} on {docs}: malformed JSON must give status 3, got {status}"
    flat = [line for _, o, _ in singles for line in o]
    if out != flat:
        return False, f"celpy {' '.join(base)} on {docs}: output {out}, but the documents alone print {flat}"
    return True, "ok"


def arg(typ, text):
    import celpy.__main__ as m
    name, tdef, value = m.arg_type_value(f"name:{typ}={text}")
    return name == "name" and int(value) == int(text) and type(value).__name__ == ("IntType" if typ == "int" else "UintType"), f"-a name:{typ}={text} -> {value!r}"


def arg_string(form, text, envset=False):
    import os
    import celpy.__main__ as m
    os.environ.pop("name", None)
    if envset:
        os.environ["name"] = "from-the-environment"
    try:
        name, tdef, value = m.arg_type_value(form + text)
    finally:
        os.environ.pop("name", None)
    return name == "name" and type(value).__name__ == "StringType" and str(value) == text, f"-a {form}{text} binds {value!r}, expected the string {text!r}"


def syntax_error(src):
    status, out, err = _main(["-n", src])
    return status == 1 and bool(err.strip()) and not out, f"celpy -n {src!r}: status {status}, stdout {out}, stderr {err[:80]!r} (a syntax error must exit 1 with a message)"


def process(argv, stdin, status, stdout):
    """`python -m celpy` as a real process"""
    env = dict(os.environ)
    env["PYTHONPATH"] = os.path.join(os.environ.get("VERIF_REPO", "/repo"), "src")
    p = subprocess.run([sys.executable, "-m", "celpy"] + argv, input=stdin, capture_output=True, text=True, env=env, timeout=60)
    got = p.stdout.splitlines()
    ok = p.returncode == status and (not stdout or got == stdout)
    return ok, f"python -m celpy {argv}: exit {p.returncode} (expected {status}), stdout {got} (expected {stdout})"


def long_stream(argv, bad, good, n, last, status):
    """NDJSON: n documents whose evaluation fails, then one that succeeds: the last output line and the status are those of the last
    document evaluated on its own stream (the k-th line depends only on the k-th document, however long the stream)"""
    env = dict(os.environ)
    env["PYTHONPATH"] = os.path.join(os.environ.get("VERIF_REPO", "/repo"), "src")
    stdin = (bad + "\n") * n + good + "\n"
    p = subprocess.run([sys.executable, "-m", "celpy"] + argv, input=stdin, capture_output=True, text=True, env=env, timeout=120)
    got = p.stdout.splitlines()
    ok = len(got) == n + 1 and got[-1] == last and p.returncode == status
    return ok, f"python -m celpy {argv} on {n} failing documents and then {good}: {len(got)} output lines, last {got[-1:]!r} (expected {last!r}), exit {p.returncode} (expected {status})"
