"""Shared helpers for concrete oracles (real code, clean interpreter)."""


def make_program(src, runner, functions=None, annotations=None, package=None):
    import celpy
    R = celpy.InterpretedRunner if runner == "interp" else celpy.CompiledRunner
    celpy.CELParser.CEL_PARSER = None  # factor out the parser-singleton history dependence (that is C05's subject)
    env = celpy.Environment(package=package, annotations=annotations, runner_class=R)
    return env.program(env.compile(src), functions=functions)


def evaluate_outcome(thunk):
    import celpy
    try:
        return "value", thunk()
    except celpy.CELEvalError as e:
        return "error", e
    except Exception as e:  # noqa: BLE001
        return "escape", e
