"""Shared helpers for concrete oracles (real code, clean interpreter)."""
_parsers = {}


def make_program(src, runner, functions=None, annotations=None, package=None):
    import celpy
    R = celpy.InterpretedRunner if runner == "interp" else celpy.CompiledRunner
    # factor out the parser-singleton history dependence (that is C05's subject): one Lark object per tree class
    celpy.CELParser.CEL_PARSER = _parsers.get(runner)
    env = celpy.Environment(package=package, annotations=annotations, runner_class=R)
    _parsers[runner] = celpy.CELParser.CEL_PARSER
    return env.program(env.compile(src), functions=functions)


def evaluate_outcome(thunk):
    import celpy
    try:
        return "value", thunk()
    except celpy.CELEvalError as e:
        return "error", e
    except Exception as e:  # noqa: BLE001
        return "escape", e
