"""Witness encoding of CEL values for the concrete oracles, plus reference (Python-level) semantics on it.

{"t":"int","v":n} {"t":"uint","v":n} {"t":"bool","v":b} {"t":"double","v":float} {"t":"string","v":[code points] | "text"}
{"t":"bytes","v":[octets]} {"t":"list","v":[...]} {"t":"map","v":[[key, value], ...]} {"t":"null"}
(after vf.replay.dec: big ints and floats are already decoded)"""
import math


def from_json(j):
    from celpy import celtypes as ct
    t = j["t"]
    if t == "int":
        return ct.IntType(j["v"])
    if t == "uint":
        return ct.UintType(j["v"])
    if t == "bool":
        return ct.BoolType(j["v"])
    if t == "double":
        return ct.DoubleType(j["v"])
    if t == "string":
        return ct.StringType(text(j))
    if t == "bytes":
        return ct.BytesType(bytes(j["v"]))
    if t == "null":
        return None
    if t == "list":
        return ct.ListType([from_json(x) for x in j["v"]])
    if t == "map":
        return ct.MapType({from_json(k): from_json(v) for k, v in j["v"]})
    if t == "timestamp":
        import datetime
        tz = datetime.timezone(datetime.timedelta(minutes=j.get("off", 0)))
        dt = (datetime.datetime.fromtimestamp(0, datetime.timezone.utc) + datetime.timedelta(microseconds=j["us"])).astimezone(tz)
        if j.get("text"):
            # built from its RFC 3339 text (the library parses the written offset), not from a datetime object
            return ct.TimestampType(ct.StringType(dt.isoformat()))
        return ct.TimestampType(dt)
    if t == "duration":
        import datetime
        if "text" in j:
            return ct.DurationType(ct.StringType(j["text"]))  # built from its text (units down to ns)
        return ct.DurationType(datetime.timedelta(microseconds=j["us"]))
    raise ValueError(j)


def text(j):
    v = j["v"]
    return v if isinstance(v, str) else "".join(chr(c) for c in v)


def key_of(j):
    """hashable identity of a scalar key"""
    t = j["t"]
    if t == "string":
        return ("string", text(j))
    return (t, j["v"])


def ref_eq(a, b):
    """CEL equality on same-type witness values; None when not same-type (nothing to assert)"""
    if a["t"] != b["t"]:
        return None
    t = a["t"]
    if t in ("int", "uint", "bool", "double"):
        return a["v"] == b["v"]
    if t == "string":
        return text(a) == text(b)
    if t == "bytes":
        return list(a["v"]) == list(b["v"])
    if t == "null":
        return True
    if t in ("timestamp", "duration"):
        if "us" not in a or "us" not in b:
            return None  # text-built duration: no reference value, only the laws
        return a["us"] == b["us"]
    if t == "list":
        if len(a["v"]) != len(b["v"]):
            return False
        r = True
        for x, y in zip(a["v"], b["v"]):
            e = ref_eq(x, y)
            if e is None:
                return None
            r = r and e
        return r
    if t == "map":
        ka = {key_of(k): v for k, v in a["v"]}
        kb = {key_of(k): v for k, v in b["v"]}
        if set(ka) != set(kb):
            return False
        r = True
        for k in ka:
            e = ref_eq(ka[k], kb[k])
            if e is None:
                return None
            r = r and e
        return r
    raise ValueError(t)


def ref_lt(a, b):
    if a["t"] != b["t"]:
        return None
    t = a["t"]
    if t in ("int", "uint", "bool", "double"):
        return a["v"] < b["v"]
    if t == "string":
        return [ord(c) for c in text(a)] < [ord(c) for c in text(b)]
    if t == "bytes":
        return list(a["v"]) < list(b["v"])
    if t in ("timestamp", "duration"):
        return (a["us"] < b["us"]) if ("us" in a and "us" in b) else None
    return None


def has_nan(j):
    t = j["t"]
    if t == "double":
        return isinstance(j["v"], float) and math.isnan(j["v"])
    if t == "list":
        return any(has_nan(x) for x in j["v"])
    if t == "map":
        return any(has_nan(v) for _, v in j["v"])
    return False


CLASS_OF = {"int": "IntType", "uint": "UintType", "bool": "BoolType", "double": "DoubleType", "string": "StringType",
            "bytes": "BytesType", "list": "ListType", "map": "MapType", "null": "NoneType",
            "timestamp": "TimestampType", "duration": "DurationType"}


def show(j):
    try:
        return repr(from_json(j))
    except Exception as ex:  # noqa: BLE001
        return f"<{j}: {ex}>"
