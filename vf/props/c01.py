"""C01 numeric operators are exact: int64/uint64 overflow-checked, double IEEE-754."""
import operator

import z3

from .. import explore, refsem
from ..explore import Harness, Ob
from ..refsem import MIN64, MAX64, MAXU64
from ..sym.core import SInt, SFloat, mk, mkf, tm, ft, f_is_sym, is_sym
from . import common
from ..replay import enc

PROP = "C01"
LEVEL = "model_checking"
FIDELITY_TESTS = ["tests/test_celtypes.py"]
BOUNDS = {
    "quick": {"int/uint operands": "all of int64 x int64 and uint64 x uint64 (mathematical integers, no width reduction)",
              "double operands": "all of binary64 x binary64 incl. +-0, +-inf, NaN, subnormals; per-query cap 20 s",
              "routes": "celtypes API direct, API reflected (plain-int / plain-float left operand), InterpretedRunner, CompiledRunner"},
    "thorough": {"int/uint operands": "same, plus 3-operand chains a op b op c through both runners",
                 "double operands": "same; per-query cap 120 s", "routes": "same"},
}
OUTSIDE = ["double % (not constrained by the statement)", "mixed int/uint/double operands (no such overload in CEL)"]
ASSUMPTIONS = [
    "z3's FloatingPoint theory (RNE) is IEEE-754 binary64, as is CPython float on this platform (cross-checked on witnesses)",
    "Python int arithmetic on concrete values is exact (trusted base)",
    "shadow classes SInt/SFloat represent int/float faithfully (fidelity self-check + validation replays)",
]
TRUSTED = ["z3 5.1", "CPython 3.12", "vf.sym shadows", "vf.refsem"]

OPS = {"add": ("+", operator.add), "sub": ("-", operator.sub), "mul": ("*", operator.mul),
       "div": ("/", operator.truediv), "mod": ("%", operator.mod)}
API_ERRORS = (ValueError, ZeroDivisionError, OverflowError, TypeError)


def tasks(tier):
    ts = []
    for kind in ("int", "uint"):
        for op in list(OPS) + ["neg"]:
            ts.append({"kind": kind, "op": op})
    for op in ("add", "sub", "mul", "div", "neg"):
        ts.append({"kind": "double", "op": op})
    ts += [{"kind": kind, "negspell": True} for kind in ("int", "uint")]
    if tier == "thorough":
        for kind in ("int", "uint"):
            for op1 in OPS:
                ts.append({"kind": kind, "chain": op1})
    return ts


def _routes(op):
    if op == "neg":
        return ["api", "interp", "compiled"]
    return ["api", "api-reflected", "interp", "compiled"]


def run_task(task, kf):
    out = []
    tier_timeout = 20000
    if "chain" in task:
        for op2 in OPS:
            for runner in common.RUNNERS:
                out.append(explore.explore(_chain_harness(task["kind"], task["chain"], op2, runner), kf))
        return out
    if task.get("negspell"):
        return [explore.explore(_neg_spelling_harness(task["kind"], runner), kf) for runner in common.RUNNERS]
    first = True
    for route in _routes(task["op"]):
        if task["kind"] == "double":
            h = _double_harness(task["op"], route)
        else:
            h = _int_harness(task["kind"], task["op"], route)
        from ..sym import loader
        out.append(explore.explore(h, kf, profile_root=loader.SRC if first else None))
        first = False
    return out


def _int_harness(kind, op, route):
    celpy, ct, ev = common.mods()
    cls = ct.IntType if kind == "int" else ct.UintType
    lo, hi = (MIN64, MAX64) if kind == "int" else (0, MAXU64)
    A, B = z3.Int("a"), z3.Int("b")
    pre = [A >= lo, A <= hi]
    vars = {"a": A}
    if op != "neg":
        pre += [B >= lo, B <= hi]
        vars["b"] = B
    prog = None
    if route in common.RUNNERS:
        src = "-a" if op == "neg" else f"a {OPS[op][0]} b"
        prog = common.make_program(src, route)
    if op == "neg":
        err, val = refsem.int_op("neg", A, None, lo, hi)
        if kind == "uint":
            err = z3.BoolVal(True)  # negating a uint is always an error
    else:
        err, val = refsem.int_op(op, A, B, lo, hi)

    def run(vals):
        a = cls(mk(SInt, A, vals["a"]))
        b = cls(mk(SInt, B, vals["b"])) if op != "neg" else None
        if route == "api":
            thunk = (lambda: -a) if op == "neg" else (lambda: OPS[op][1](a, b))
        elif route == "api-reflected":
            pa = mk(SInt, A, vals["a"])  # plain int left operand: dispatches to the reflected method
            thunk = lambda: OPS[op][1](pa, b)
        else:
            thunk = lambda: prog.evaluate({"a": a, "b": b} if op != "neg" else {"a": a})
        try:
            r = thunk()
        except celpy.CELEvalError:
            if route in common.RUNNERS:
                return [Ob(f"C01/{kind}/{op}/error@{route}", err, note="error signalled only when the exact result does not fit")]
            return [Ob(f"C01/{kind}/{op}/escape@{route}", z3.BoolVal(False))]
        except API_ERRORS as ex:
            if route in common.RUNNERS:
                return [Ob(f"C01/{kind}/{op}/escape@{route}", z3.BoolVal(False), note=f"{type(ex).__name__} escaped the runner")]
            return [Ob(f"C01/{kind}/{op}/error@{route}", err)]
        obs = [Ob(f"C01/{kind}/{op}/value@{route}", z3.And(z3.Not(err), tm(r) == val), observe={"result": tm(r)},
                  note="exact value, and a value only when it fits")]
        if type(r) is not cls:
            obs.append(Ob(f"C01/{kind}/{op}/class@{route}", z3.BoolVal(False), note=f"result class {type(r).__name__}"))
        return obs

    def witness(vals):
        return {"check": "c01.int_binop", "args": enc({"kind": kind, "op": op, "route": route, "a": vals["a"], "b": vals.get("b", 0)})}

    return Harness(id=f"C01/{kind}/{op}@{route}", vars=vars, pre=pre, run=run, witness=witness)


NEG_SPELLINGS = [("--a", 2), ("- -a", 2), ("-(-a)", 2), ("---a", 3), ("-(-(-a))", 3), ("- - - -a", 4), ("0 - -a", "0--"), ("-a - -a", "zero")]


def _neg_spelling_harness(kind, runner):
    """repeated unary minus in every spelling: each application is range-checked (int: -MIN overflows; uint: always an error)"""
    celpy, ct, ev = common.mods()
    cls = ct.IntType if kind == "int" else ct.UintType
    lo, hi = (MIN64, MAX64) if kind == "int" else (0, MAXU64)
    A = z3.Int("a")
    progs = [(src, n, common.make_program(src, runner)) for src, n in NEG_SPELLINGS]

    def spec(n):
        if kind == "uint":
            return z3.BoolVal(True), None
        if n == "0--":      # 0 - (-a): -a overflows for MIN, then 0 - (-a) = a
            return A == MIN64, A
        if n == "zero":     # (-a) - (-a)
            return A == MIN64, z3.IntVal(0)
        return A == MIN64, (A if n % 2 == 0 else -A)

    def run(vals):
        a = cls(mk(SInt, A, vals["a"]))
        obs = []
        for src, n, prog in progs:
            err, val = spec(n)
            kd, r = common.outcome(lambda: prog.evaluate({"a": a}))
            if kd == "error":
                obs.append(Ob(f"C01/{kind}/neg-spelling/error@{runner}", err, note=src))
            elif kd == "value":
                obs.append(Ob(f"C01/{kind}/neg-spelling/value@{runner}", z3.And(z3.Not(err), tm(r) == val) if val is not None else z3.BoolVal(False), note=f"`{src}` gave {r!r}"[:80]))
            else:
                obs.append(Ob(f"C01/{kind}/neg-spelling/escape@{runner}", z3.BoolVal(False), note=f"`{src}`: {r!r}"[:100]))
        return obs

    def witness(vals):
        return {"check": "c01.neg_spellings", "args": enc({"kind": kind, "runner": runner, "a": vals["a"]})}
    return Harness(id=f"C01/{kind}/neg-spellings@{runner}", vars={"a": A}, pre=[A >= lo, A <= hi], run=run, witness=witness)


def _chain_harness(kind, op1, op2, runner):
    celpy, ct, ev = common.mods()
    cls = ct.IntType if kind == "int" else ct.UintType
    lo, hi = (MIN64, MAX64) if kind == "int" else (0, MAXU64)
    A, B, Cc = z3.Int("a"), z3.Int("b"), z3.Int("c")
    pre = [A >= lo, A <= hi, B >= lo, B <= hi, Cc >= lo, Cc <= hi]
    s1, s2 = OPS[op1][0], OPS[op2][0]
    src = f"a {s1} b {s2} c"
    prog = common.make_program(src, runner)
    # CEL precedence: * / % bind tighter than + -, otherwise left-assoc
    tight = lambda o: o in ("mul", "div", "mod")
    if tight(op2) and not tight(op1):
        e2, v2 = refsem.int_op(op2, B, Cc, lo, hi)
        e1, v1 = refsem.int_op(op1, A, v2, lo, hi)
        err, val = z3.Or(e2, e1), v1
    else:
        e1, v1 = refsem.int_op(op1, A, B, lo, hi)
        e2, v2 = refsem.int_op(op2, v1, Cc, lo, hi)
        err, val = z3.Or(e1, e2), v2

    def run(vals):
        b = {n: cls(mk(SInt, t, vals[n])) for n, t in (("a", A), ("b", B), ("c", Cc))}
        try:
            r = prog.evaluate(b)
        except celpy.CELEvalError:
            return [Ob(f"C01/{kind}/chain/error@{runner}", err)]
        except Exception:
            return [Ob(f"C01/{kind}/chain/escape@{runner}", z3.BoolVal(False))]
        return [Ob(f"C01/{kind}/chain/value@{runner}", z3.And(z3.Not(err), tm(r) == val))]

    def witness(vals):
        return {"check": "c01.int_chain", "args": enc({"kind": kind, "src": src, "runner": runner,
                                                       "a": vals["a"], "b": vals["b"], "c": vals["c"]})}

    return Harness(id=f"C01/{kind}/chain/{op1}-{op2}@{runner}", vars={"a": A, "b": B, "c": Cc}, pre=pre, run=run,
                   witness=witness, max_paths=200)


def _double_harness(op, route):
    celpy, ct, ev = common.mods()
    X, Y = common.fp_var("x"), common.fp_var("y")
    vars = {"x": X} if op == "neg" else {"x": X, "y": Y}
    prog = None
    if route in common.RUNNERS:
        prog = common.make_program("-x" if op == "neg" else f"x {OPS[op][0]} y", route)
    spec = refsem.fp_op(op, X, Y if op != "neg" else None)

    def run(vals):
        x = ct.DoubleType(mkf(SFloat, X, vals["x"]))
        y = ct.DoubleType(mkf(SFloat, Y, vals["y"])) if op != "neg" else None
        if route == "api":
            thunk = (lambda: -x) if op == "neg" else (lambda: OPS[op][1](x, y))
        elif route == "api-reflected":
            px = mkf(SFloat, X, vals["x"])
            thunk = lambda: OPS[op][1](px, y)
        else:
            thunk = lambda: prog.evaluate({"x": x, "y": y} if op != "neg" else {"x": x})
        try:
            r = thunk()
        except Exception as ex:
            return [Ob(f"C01/double/{op}/no-error@{route}", z3.BoolVal(False),
                       note=f"double arithmetic never errors in IEEE-754; got {type(ex).__name__}")]
        if not isinstance(r, float):
            return [Ob(f"C01/double/{op}/value@{route}", z3.BoolVal(False), note=f"non-double result {type(r).__name__}")]
        return [Ob(f"C01/double/{op}/value@{route}", refsem.fp_same(ft(r), spec), observe={"result": ft(r)},
                   note="IEEE-754 binary64 result (NaN compared by isNaN, zeros by sign)")]

    def witness(vals):
        return {"check": "c01.double_op", "args": enc({"op": op, "route": route, "x": vals["x"], "y": vals.get("y", 0.0)})}

    return Harness(id=f"C01/double/{op}@{route}", vars=vars, pre=[], run=run, witness=witness, timeout_ms=20000)

MANIFEST = {
    "text": "Bounded-exhaustive symbolic execution: for every path of the real operator code (celtypes dunders, int64/uint64 decorators, "
            "Evaluator/transpiled code, result()) z3 proves path-condition => exact-result-or-error over ALL int64/uint64 pairs and all binary64 pairs; "
            "no operand sampling. Right level because the property is a for-all over operand pairs of a loop-free kernel.",
    "note": "Trusted: z3 FP/LIA theories, CPython on concrete values, the SInt/SFloat shadows (fidelity self-check runs the repo's tests under shadow loading; "
            "each fully discharged path is cross-validated on the un-shadowed code). double % and mixed-type operands are outside the statement.",
    "technique": "symbolic execution of the real Python byte-code with shadow builtins + z3 (SMT: LIA, FloatingPoint); counterexample replay",
    "design_ref": "DESIGN.md §2, §7 C01",
}
