"""C02 logical operators absorb errors commutatively; conditionals are lazy; all/exists absorb."""
import itertools

import z3

from .. import explore
from ..explore import Harness, Ob
from ..refsem import MIN64, MAX64
from ..sym.core import SInt, SBool, mk, tm, is_sym
from . import common
from ..replay import enc

PROP = "C02"
LEVEL = "model_checking"
FIDELITY_TESTS = ["tests"]
BOUNDS = {
    "quick": {"nestings": "every nesting of && || ?: with <= 3 operand positions; ! on leaves (<= 2 positions), on one inner node and on the root",
              "operand outcomes": "true/false/error decided by symbolic data at every position simultaneously (3^k classes per program covered by path splitting), "
                                  "error kinds: div-by-zero, list index, missing map key, undeclared name, no-overload, error raised inside a map() macro, int(infinity) (OverflowError), int(bad text) and uint(negative) (ValueError); non-boolean int operands",
              "spellings": "fully parenthesised, and the fewest parentheses CEL's grammar allows (every 3-position tree; un-parenthesised `||` / `&&` chains of 4 operands and else-if chains of 2-3 `?:` links, "
                           "with neighbouring failing / non-boolean operands before an absorbing one)",
              "all/exists": "lists of length 0..3 with a symbolic element per position", "routes": "both runners + bare celtypes.logical_* functions"},
    "thorough": {"nestings": "<= 4 operand positions (every && || ?: shape; ! on leaves up to 3 positions, on inner nodes and root), 5 positions (5 sampled shapes)",
                 "all/exists": "lists of length 0..5", "routes": "same"},
}
OUTSIDE = ["`true && 5`, `error && 5`, `!5` and similar mixes the statement leaves open carry no obligation (class U)",
           "negative list indexes (C09's subject) are excluded from the index-error template"]
ASSUMPTIONS = ["operand templates realise outcome classes through data: `1 / x == 1`, `[1, 0][x] == 1`, `{1: true, 2: false}[x]`, `[x].map(y, 1 / y)[0] == 1`"]
TRUSTED = ["z3 5.1", "CPython 3.12 on concrete values", "vf.sym shadows", "three-valued reference tables in this module (from the property statement)"]
MANIFEST = {
    "text": "Symbolic execution of the real logical_and/or/not/condition, Evaluator.expr/conditionalor/conditionaland/unary, transpiled ex_N lambdas + result(), "
            "member_dot_arg / macro_all / macro_exists on programs whose operand outcome classes (true/false/error/non-bool) are decided by symbolic data; z3 proves that "
            "the outcome on every path equals the three-valued reference table of the statement, for all data values, for every nesting within the bound.",
    "note": "Program shapes are enumerated to a bound (stated in evidence); the data deciding each position's outcome is symbolic. Cases the statement leaves open are not asserted.",
    "technique": "symbolic execution of the real Python byte-code with shadow builtins + z3; three-valued reference semantics; counterexample replay",
    "design_ref": "DESIGN.md §7 C02",
}

# outcome classes
T, F, E, N, U = 0, 1, 2, 3, 4  # true, false, error, non-bool value, unspecified by the statement

LEAF_KINDS = ("div", "idx", "key", "bool", "int", "undecl", "noov", "map", "ovf", "conv", "uint", "attr", "tzarg")


def leaf_src(kind, i):
    return {
        "div": f"(1 / x{i} == 1)",
        "idx": f"([1, 0][x{i}] == 1)",
        "key": f"{{1: true, 2: false}}[x{i}]",
        "bool": f"x{i}",
        "int": f"x{i}",
        "undecl": f"nope{i}",
        "noov": f"('a' < x{i})",
        "map": f"([x{i}].map(y, 1 / y)[0] == 1)",
        # further Python exception classes behind the evaluation error: OverflowError, ValueError (text), ValueError (range)
        "ovf": f"(int(1.0 / 0.0) == x{i})",
        "conv": f"(int('1a') == x{i})",
        "uint": f"(uint(x{i}) == 1u)",
        # a method the receiver's type does not have (AttributeError behind the error); an accessor given an argument it rejects
        "attr": f"('a'.getDate() == x{i})",
        "tzarg": f"(duration('1h').getHours('UTC') == x{i})",
    }[kind]


def leaf_spec(kind, i):
    """(class term, value term, precondition list)"""
    x = z3.Int(f"x{i}")
    I = z3.IntVal
    pre = [x >= MIN64, x <= MAX64]
    if kind in ("div", "map"):
        return z3.If(x == 1, I(T), z3.If(x == 0, I(E), I(F))), I(0), pre
    if kind == "idx":
        return z3.If(x == 0, I(T), z3.If(x == 1, I(F), I(E))), I(0), pre + [x >= 0]
    if kind == "key":
        return z3.If(x == 1, I(T), z3.If(x == 2, I(F), I(E))), I(0), pre
    if kind == "bool":
        return z3.If(x == 1, I(T), I(F)), I(0), [x >= 0, x <= 1]
    if kind == "int":
        return I(N), x, pre
    if kind in ("undecl", "noov", "ovf", "conv", "attr", "tzarg"):
        return I(E), I(0), pre
    if kind == "uint":
        return z3.If(x == 1, I(T), z3.If(x < 0, I(E), I(F))), I(0), pre
    raise ValueError(kind)


# trees: ("leaf", i) | ("not", t) | ("and", l, r) | ("or", l, r) | ("cond", c, x, y)
def trees(k, nots="leaf"):
    """all trees with exactly k leaves; `!` is applied to leaves (nots='leaf') or nowhere ('none');
    negation of inner nodes / the root is added by programs()"""
    if k == 1:
        yield ("leaf",)
        if nots == "leaf":
            yield ("not", ("leaf",))
        return
    for a in range(1, k):
        for l in trees(a, nots):
            for r in trees(k - a, nots):
                yield ("and", l, r)
                yield ("or", l, r)
    if k >= 3:
        for a in range(1, k - 1):
            for b in range(1, k - a):
                for c_ in trees(a, "none"):
                    for x in trees(b, "none"):
                        for y in trees(k - a - b, "none"):
                            yield ("cond", c_, x, y)


def number(t, start=0):
    """assign leaf indexes; returns (tree, next)"""
    if t[0] == "leaf":
        return ("leaf", start), start + 1
    if t[0] == "not":
        s, n = number(t[1], start)
        return ("not", s), n
    kids, n = [], start
    for c in t[1:]:
        s, n = number(c, n)
        kids.append(s)
    return (t[0],) + tuple(kids), n


def src_of(t, kinds):
    if t[0] == "leaf":
        return leaf_src(kinds[t[1]], t[1])
    if t[0] == "not":
        return f"!({src_of(t[1], kinds)})"
    if t[0] == "and":
        return f"({src_of(t[1], kinds)} && {src_of(t[2], kinds)})"
    if t[0] == "or":
        return f"({src_of(t[1], kinds)} || {src_of(t[2], kinds)})"
    if t[0] == "cond":
        return f"({src_of(t[1], kinds)} ? {src_of(t[2], kinds)} : {src_of(t[3], kinds)})"
    raise ValueError(t)


def src_min(t, kinds, ctx="expr"):
    """the same tree written with the fewest parentheses CEL's grammar allows (`?:` right-associative and lowest, then `||`, then `&&`,
    both left-associative): un-parenthesised chains `a || b || c`, `a && b && c`, `c1 ? x : c2 ? y : z`"""
    if t[0] == "leaf":
        return leaf_src(kinds[t[1]], t[1])
    if t[0] == "not":
        return f"!({src_min(t[1], kinds)})" if t[1][0] != "leaf" else f"!{leaf_src(kinds[t[1][1]], t[1][1])}"
    if t[0] == "and":
        s = f"{src_min(t[1], kinds, 'and-left')} && {src_min(t[2], kinds, 'and-right')}"
        return s if ctx in ("expr", "or-left", "or-right", "and-left") else f"({s})"
    if t[0] == "or":
        s = f"{src_min(t[1], kinds, 'or-left')} || {src_min(t[2], kinds, 'or-right')}"
        return s if ctx in ("expr", "or-left") else f"({s})"
    if t[0] == "cond":
        s = f"{src_min(t[1], kinds, 'or-left')} ? {src_min(t[2], kinds, 'or-left')} : {src_min(t[3], kinds, 'expr')}"
        return s if ctx == "expr" else f"({s})"
    raise ValueError(t)


def _and(cx, cy):
    I = z3.IntVal
    return z3.If(z3.Or(cx == F, cy == F), I(F),
                 z3.If(z3.And(cx == T, cy == T), I(T),
                       z3.If(z3.And(z3.Or(cx == T, cx == E), z3.Or(cy == T, cy == E)), I(E),
                             z3.If(z3.And(cx == N, cy == N), I(E), I(U)))))


def _or(cx, cy):
    I = z3.IntVal
    return z3.If(z3.Or(cx == T, cy == T), I(T),
                 z3.If(z3.And(cx == F, cy == F), I(F),
                       z3.If(z3.And(z3.Or(cx == F, cx == E), z3.Or(cy == F, cy == E)), I(E),
                             z3.If(z3.And(cx == N, cy == N), I(E), I(U)))))


def spec_of(t, kinds):
    """(class, value, pre)"""
    I = z3.IntVal
    if t[0] == "leaf":
        return leaf_spec(kinds[t[1]], t[1])
    if t[0] == "not":
        c, v, p = spec_of(t[1], kinds)
        return z3.If(c == T, I(F), z3.If(c == F, I(T), z3.If(c == E, I(E), I(U)))), I(0), p
    if t[0] in ("and", "or"):
        cx, _, px = spec_of(t[1], kinds)
        cy, _, py = spec_of(t[2], kinds)
        return (_and if t[0] == "and" else _or)(cx, cy), I(0), px + py
    if t[0] == "cond":
        cc, _, pc = spec_of(t[1], kinds)
        cx, vx, px = spec_of(t[2], kinds)
        cy, vy, py = spec_of(t[3], kinds)
        cls = z3.If(cc == T, cx, z3.If(cc == F, cy, z3.If(z3.Or(cc == E, cc == N), I(E), I(U))))
        val = z3.If(cc == T, vx, vy)
        return cls, val, pc + px + py
    raise ValueError(t)


def kind_assignments(k, tier):
    rot = ["div", "idx", "key", "map", "bool", "int", "undecl", "noov"]
    out = [tuple(["div"] * k)]
    out.append(tuple(rot[(i + 1) % 4] for i in range(k)))      # idx key map div ...
    out.append(tuple(["int", "div", "bool", "noov", "key"][i % 5] for i in range(k)))
    out.append(tuple(["div", "int", "undecl", "idx", "int"][i % 5] for i in range(k)))
    out.append(tuple(["ovf", "uint", "conv", "div", "ovf"][i % 5] for i in range(k)))
    out.append(tuple(["bool", "ovf", "uint", "conv", "bool"][i % 5] for i in range(k)))
    out.append(tuple(["attr", "bool", "tzarg", "div", "attr"][i % 5] for i in range(k)))
    if k <= 2 or tier == "thorough":
        out.append(tuple(["int"] * k))
        out.append(tuple(["map", "div", "map", "key", "idx"][i % 5] for i in range(k)))
        out.append(tuple(["key", "map", "noov", "div", "bool"][i % 5] for i in range(k)))
    seen, res = set(), []
    for a in out:
        if a not in seen:
            seen.add(a)
            res.append(a)
    return res


def _negate_inner(t):
    """variants of t with `!` applied to one inner (non-leaf) binary node or the root"""
    out = [("not", t)]
    if t[0] in ("and", "or"):
        for i in (1, 2):
            if t[i][0] in ("and", "or", "cond"):
                kids = list(t)
                kids[i] = ("not", t[i])
                out.append(tuple(kids))
    return out


def programs(tier):
    progs = []
    plan = {"quick": [(1, "leaf", 10), (2, "leaf", 10), (3, "none", 3)],
            "thorough": [(1, "leaf", 10), (2, "leaf", 10), (3, "leaf", 4), (4, "none", 3)]}[tier]
    for k, nots, nk in plan:
        shapes = []
        for t in trees(k, nots):
            if k == 1 and t == ("leaf",):
                continue
            shapes.append(t)
            if k >= 2 and nots == "none":
                shapes += _negate_inner(t)
            elif k >= 2:
                shapes.append(("not", t))
        for t in shapes:
            nt, _ = number(t)
            for kinds in kind_assignments(k, "thorough" if nk > 4 else "quick")[:nk]:
                progs.append((nt, kinds))
    progs = [(t, k, False) for t, k in progs]
    # the same trees in their un-parenthesised spelling (chains of `||`, `&&`, else-if chains of `?:`): every 3-position tree, and
    # 4/5-position chains whose neighbouring operands both fail / are non-boolean before an absorbing operand
    L = ("leaf",)
    flat = []
    for t in trees(3, "none"):
        nt, _ = number(t)
        for kinds in (("int", "int", "bool"), ("div", "key", "bool"), ("bool", "int", "div"), ("int", "bool", "int")):
            flat.append((nt, kinds, True))
    chains = [(("or", ("or", ("or", L, L), L), L), [("bool", "int", "int", "bool"), ("div", "key", "idx", "bool"), ("noov", "undecl", "bool", "int")]),
              (("and", ("and", ("and", L, L), L), L), [("bool", "int", "int", "bool"), ("div", "key", "idx", "bool"), ("noov", "undecl", "bool", "int")]),
              (("or", ("or", L, ("and", L, L)), L), [("int", "int", "div", "bool")]),
              (("cond", L, L, ("cond", L, L, L)), [("int", "int", "bool", "int", "int"), ("div", "int", "int", "int", "int"), ("bool", "int", "key", "bool", "div")]),
              (("cond", L, L, ("cond", L, L, ("cond", L, L, L))), [("bool", "int", "int", "int", "bool", "int", "int")])]
    for t, ks in chains:
        nt, _ = number(t)
        for kinds in ks:
            flat.append((nt, kinds, True))
    progs += flat
    if tier == "thorough":
        # sampled 5-position shapes: combs and balanced trees, mixed operators
        L = ("leaf",)
        shapes = [("and", ("or", ("and", ("or", L, L), L), L), L), ("or", L, ("and", L, ("or", L, ("and", L, L)))),
                  ("and", ("or", L, L), ("cond", L, L, L)), ("cond", ("and", L, L), ("or", L, L), L),
                  ("or", ("not", ("and", L, L)), ("and", L, ("or", L, L)))]
        for t in shapes:
            nt, _ = number(t)
            for ki, kinds in enumerate(kind_assignments(5, "quick")[:3]):
                progs.append((nt, kinds, False))
                if ki == 0:
                    progs.append((nt, kinds, True))   # un-parenthesised spelling: one operand-kind assignment (3^5 paths each)
    return progs


def tasks(tier):
    n = len(programs(tier))
    ts = [{"what": "prog", "tier": tier, "lo": lo, "hi": min(n, lo + max(8, n // 60 + 1))}
          for lo in range(0, n, max(8, n // 60 + 1))]
    nmax = 3 if tier == "quick" else 5
    for macro in ("all", "exists"):
        for ln in range(0, nmax + 1):
            ts.append({"what": "macro", "macro": macro, "len": ln})
    ts.append({"what": "api"})
    return ts


def run_task(task, kf):
    from ..sym import loader
    out = []
    if task["what"] == "prog":
        ps = programs(task["tier"])[task["lo"]:task["hi"]]
        first = True
        for t, kinds, flat in ps:
            for runner in common.RUNNERS:
                out.append(explore.explore(_prog_harness(t, kinds, runner, flat), kf, profile_root=loader.SRC if first else None))
                first = False
    elif task["what"] == "macro":
        for pred in ("div", "key"):
            for runner in common.RUNNERS:
                out.append(explore.explore(_macro_harness(task["macro"], task["len"], pred, runner), kf, profile_root=loader.SRC))
    else:
        for fn in ("and", "or", "not", "cond"):
            out.append(explore.explore(_api_harness(fn), kf, profile_root=loader.SRC))
    return out


def _classify(kind, val):
    """concrete outcome class on this path (forks on symbolic truth values); returns (class, int term or None)"""
    celpy, ct, ev = common.mods()
    if kind == "error":
        return E, None
    if kind == "escape":
        return None, None
    if isinstance(val, ct.BoolType) or isinstance(val, (bool, SBool)):
        return (T if bool(val) else F), None
    if isinstance(val, int):
        return N, tm(val)
    return None, None


def _prog_harness(t, kinds, runner, flat=False):
    celpy, ct, ev = common.mods()
    src = src_min(t, kinds) if flat else src_of(t, kinds)
    cls, val, pre = spec_of(t, kinds)
    k = len(kinds)
    vars = {f"x{i}": z3.Int(f"x{i}") for i in range(k)}
    try:
        prog = common.make_program(src, runner)
        build_err = None
    except Exception as ex:  # noqa: BLE001
        prog, build_err = None, ex

    def bindings(vals):
        b = {}
        for i, kd in enumerate(kinds):
            if kd in ("undecl",):
                continue
            x = mk(SInt, vars[f"x{i}"], vals[f"x{i}"])
            b[f"x{i}"] = ct.BoolType(x) if kd == "bool" else ct.IntType(x)
        return b

    def run(vals):
        if prog is None:
            return [Ob(f"C02/program-construction@{runner}", z3.BoolVal(False), note=f"{type(build_err).__name__}: {build_err}")]
        kind, v = common.outcome(lambda: prog.evaluate(bindings(vals)))
        c, vt = _classify(kind, v)
        root = t[0]
        if c is None:
            return [Ob(f"C02/{root}/outcome-kind@{runner}", z3.BoolVal(False), note=f"{kind}: {type(v).__name__}: {v!r}"[:200])]
        obs = [Ob(f"C02/{root}/table@{runner}", z3.Or(cls == U, cls == c), observe={"spec": cls},
                  note=f"three-valued table of the statement; observed class {'TFENU'[c]} for `{src}`")]
        if c == N:
            obs.append(Ob(f"C02/{root}/selected-value@{runner}", z3.Or(cls != N, vt == val)))
        return obs

    def witness(vals):
        return {"check": "c02.program", "args": enc({"tree": t, "kinds": list(kinds), "runner": runner, "flat": flat,
                                                     "xs": [vals[f"x{i}"] for i in range(k)]})}

    return Harness(id=f"C02/prog@{runner}:{src}", vars=vars, pre=pre, run=run, witness=witness, max_paths=500)


def _fold_spec(macro, classes):
    I = z3.IntVal
    if macro == "all":
        anyF = z3.Or([c == F for c in classes]) if classes else z3.BoolVal(False)
        anyE = z3.Or([c == E for c in classes]) if classes else z3.BoolVal(False)
        return z3.If(anyF, I(F), z3.If(anyE, I(E), I(T)))
    anyT = z3.Or([c == T for c in classes]) if classes else z3.BoolVal(False)
    anyE = z3.Or([c == E for c in classes]) if classes else z3.BoolVal(False)
    return z3.If(anyT, I(T), z3.If(anyE, I(E), I(F)))


def _macro_harness(macro, ln, pred, runner):
    celpy, ct, ev = common.mods()
    body = "1 / e == 1" if pred == "div" else "{1: true, 2: false}[e]"
    src = f"l.{macro}(e, {body})"
    prog = common.make_program(src, runner)
    vars = {f"x{i}": z3.Int(f"x{i}") for i in range(ln)}
    pre, classes = [], []
    for i in range(ln):
        c, _, p = leaf_spec("div" if pred == "div" else "key", i)
        classes.append(c)
        pre += p
    spec = _fold_spec(macro, classes)

    def run(vals):
        l = ct.ListType([ct.IntType(mk(SInt, vars[f"x{i}"], vals[f"x{i}"])) for i in range(ln)])
        kind, v = common.outcome(lambda: prog.evaluate({"l": l}))
        c, _ = _classify(kind, v)
        if c is None or c == N:
            return [Ob(f"C02/{macro}/outcome-kind@{runner}", z3.BoolVal(False), note=f"{kind}: {v!r}"[:200])]
        n_err = z3.Sum([z3.If(cl == E, 1, 0) for cl in classes]) if classes else z3.IntVal(0)
        return [Ob(f"C02/{macro}/absorb@{runner}", spec == c, observe={"spec": spec, "errors": n_err},
                   note=f"{macro}() over element outcomes; observed {'TFENU'[c]}")]

    def witness(vals):
        return {"check": "c02.macro", "args": enc({"macro": macro, "pred": pred, "runner": runner,
                                                   "xs": [vals[f"x{i}"] for i in range(ln)]})}

    return Harness(id=f"C02/{macro}/{pred}/len{ln}@{runner}", vars=vars, pre=pre, run=run, witness=witness, max_paths=800)


def _api_harness(fn):
    """bare celtypes.logical_* on every combination of operand classes (bool symbolic, error object, int symbolic)"""
    celpy, ct, ev = common.mods()
    arity = {"and": 2, "or": 2, "not": 1, "cond": 3}[fn]
    # operand class selector per position: 0 bool, 1 error, 2 int  (enumerated through a symbolic selector variable)
    vars, pre = {}, []
    for i in range(arity):
        vars[f"k{i}"] = z3.Int(f"k{i}")
        vars[f"x{i}"] = z3.Int(f"x{i}")
        pre += [vars[f"k{i}"] >= 0, vars[f"k{i}"] <= 2, vars[f"x{i}"] >= MIN64, vars[f"x{i}"] <= MAX64,
                z3.Implies(vars[f"k{i}"] == 0, z3.And(vars[f"x{i}"] >= 0, vars[f"x{i}"] <= 1))]
    I = z3.IntVal

    def cls(i):
        k, x = vars[f"k{i}"], vars[f"x{i}"]
        return z3.If(k == 0, z3.If(x == 1, I(T), I(F)), z3.If(k == 1, I(E), I(N)))

    if fn == "and":
        spec, sval = _and(cls(0), cls(1)), I(0)
    elif fn == "or":
        spec, sval = _or(cls(0), cls(1)), I(0)
    elif fn == "not":
        c = cls(0)
        spec, sval = z3.If(c == T, I(F), z3.If(c == F, I(T), z3.If(c == E, I(E), I(U)))), I(0)
    else:
        c = cls(0)
        spec = z3.If(c == T, cls(1), z3.If(c == F, cls(2), z3.If(z3.Or(c == E, c == N), I(E), I(U))))
        sval = z3.If(c == T, vars["x1"], vars["x2"])

    def mkop(i, vals):
        k = vals[f"k{i}"]
        # the selector is data for the solver but structure for the code: pin it
        from ..sym.core import pin
        pin(vars[f"k{i}"] == k, "operand-kind selector")
        x = mk(SInt, vars[f"x{i}"], vals[f"x{i}"])
        if k == 0:
            return ct.BoolType(x)
        if k == 1:
            return celpy.CELEvalError("boom", ZeroDivisionError, ())
        return ct.IntType(x)

    f = {"and": ct.logical_and, "or": ct.logical_or, "not": ct.logical_not, "cond": ct.logical_condition}[fn]

    def run(vals):
        ops = [mkop(i, vals) for i in range(arity)]
        try:
            r = f(*ops)
            if isinstance(r, celpy.CELEvalError):
                c, vt = E, None
            elif isinstance(r, ct.BoolType):
                c, vt = (T if bool(r) else F), None
            elif isinstance(r, int):
                c, vt = N, tm(r)
            else:
                return [Ob(f"C02/api/{fn}/outcome-kind", z3.BoolVal(False), note=repr(r)[:100])]
        except TypeError:
            c, vt = E, None
        obs = [Ob(f"C02/api/{fn}/table", z3.Or(spec == U, spec == c), observe={"spec": spec})]
        if c == N:
            obs.append(Ob(f"C02/api/{fn}/selected-value", z3.Or(spec != N, vt == sval)))
        return obs

    def witness(vals):
        return {"check": "c02.api", "args": enc({"fn": fn, "ks": [vals[f"k{i}"] for i in range(arity)],
                                                 "xs": [vals[f"x{i}"] for i in range(arity)]})}

    return Harness(id=f"C02/api/{fn}", vars=vars, pre=pre, run=run, witness=witness, max_paths=400)
