"""C03 compiled and interpreted runners produce the same outcome (translation validation by product execution)."""
import z3

from .. import explore
from ..explore import Harness, Ob
from . import common, gen, skel
from ..replay import enc

PROP = "C03"
LEVEL = "translation_validation"
FIDELITY_TESTS = ["tests"]
BOUNDS = {
    "quick": {"programs": "type-directed skeletons: every operator/function/macro/conversion form over typed variables, depth 1, plus literal-bearing forms",
              "activations": "all int64/uint64/binary64/bool values, strings of 0..2 code points, bytes of 1..2 octets, lists of 0..3, maps with 2 concrete keys",
              "path budget": 120},
    "thorough": {"programs": "the same forms at depth 1 and 2 (one argument replaced by a nested form) + every expression of features/*.feature that both runners can be given "
                             "with its literals lifted to variables", "activations": "same", "path budget": 300},
}
OUTSIDE = ["protobuf message literals", "literal *spellings* (C07)", "host functions (C14)", "error message texts (only error-ness is compared)"]
ASSUMPTIONS = ["both runners are run on the same symbolic activation inside one explored path; equality of results is a z3 term over both result terms",
               "the parser singleton is kept per tree class (history dependence is C05's subject)"]
TRUSTED = ["z3 5.1", "CPython 3.12 on concrete values", "vf.sym shadows"]
MANIFEST = {
    "text": "Translation validation: for every generated/lifted program skeleton both the real Evaluator and the real Phase1/Phase2 transpiler + exec'd code run on the same "
            "symbolic activation; on every path z3 proves same outcome kind, equal value and same CEL class for ALL activation values within the shape bounds. "
            "Program-construction failures of the compiled runner count as outcomes.",
    "note": "Program skeletons are enumerated (type-directed to depth 1/2, plus the conformance corpus with literals lifted); the data is symbolic. Path budget per skeleton stated; "
            "exhausting it is reported as incomplete, never as success.",
    "technique": "product-program symbolic execution of interpreter and transpiled code with shadow builtins + z3 (translation validation); counterexample replay",
    "design_ref": "DESIGN.md §7 C03",
}


# literals that do not denote a value (out-of-range escapes, a negated uint) on their own, inside container literals and in absorbing
# positions: the compiled runner decodes literals while it builds the program, the interpreter when it reaches them
SPELLED = [r"'\U00110000'", r"['\U00110000']", r"{'a': '\U00110000'}", r"size(['\U00110000', s1])", r"[b'\400']", r"size([b'\400']) == 1 || b1", r"{'\U00110000': 1}",
           "-0u", "[-0u]", "size([-0u, 1u])", "{'k': -0u}", "-0u == 0u || true", "b1 ? 1u : -0u", "[1u].map(x, -0u)", "-00u", "-0x0u", "[1, 2].exists(x, -0u == 1u || x == 2)",
           r"'\U00110000' == s1 || true", r"b1 ? s1 : '\U00110000'", r"[s1].map(x, '\U00110000')", r"has({'a': '\U00110000'}.a)", r"['\ud800', s1]", r"size(b'\xff') + i1"]


def all_skeletons(tier):
    out = [(t, s, "gen") for t, s, _ in gen.skeletons(1 if tier == "quick" else 2)]
    out += [("?", s, "gen") for s in SPELLED]
    if tier == "thorough":
        from . import corpus
        out += [("?", s, "corpus") for s in corpus.lifted_skeletons()]
    return out


NT = 64


REPEAT = ["a + b", "a > b || b > 0", "[a, b].exists(x, x > a)", "a > 0 ? a : b", "[1, 2].map(x, x + b)[0] + a", "a == 1 && b == 2"]


# identifier spellings that are also names inside the library's own name space (attributes and methods of its activation /
# evaluator objects, module globals of the evaluation module, Python dunder names): as CEL variables and as macro variables
IDENT_NAMES = ["package", "functions", "identifiers", "get", "clone", "resolve_variable", "resolve_function", "nested_activation", "activation", "self", "result",
               "celpy", "logger", "base_activation", "the_activation", "CEL", "ex_1", "re", "operator", "__class__", "__dict__", "_x", "macro_map", "cls", "type_", "x_"]


def tasks(tier):
    return [{"tier": tier, "stride": i} for i in range(NT)] + [{"tier": tier, "repeat": i} for i in range(len(REPEAT))] + \
        [{"tier": tier, "idents": IDENT_NAMES[i::4]} for i in range(4)]


def run_task(task, kf):
    from ..sym import loader
    out = []
    first = True
    if "repeat" in task:
        return [explore.explore(repeat_harness(REPEAT[task["repeat"]]), kf, profile_root=loader.SRC)]
    if "idents" in task:
        return [explore.explore(ident_harness(n), kf, profile_root=loader.SRC if i == 0 else None) for i, n in enumerate(task["idents"])]
    for typ, src, origin in all_skeletons(task["tier"])[task["stride"]::NT]:
        h = harness(typ, src, origin, 120 if task["tier"] == "quick" else 300)
        out.append(explore.explore(h, kf, profile_root=loader.SRC if first else None))
        first = False
    return out


def extra_coverage(results, tier):
    return {"programs": len(results)}


def harness(typ, src, origin, budget):
    celpy, ct, ev = common.mods()
    if origin == "corpus":
        from . import corpus
        names, vars, pre, build, to_json = corpus.bindings_for(src)
    else:
        names, vars, pre, build, to_json = skel.bindings_for(src)
    lab = skel.label(src)
    progs, build_err = {}, {}
    for r in common.RUNNERS:
        try:
            progs[r] = common.make_program(src, r)
        except Exception as ex:  # noqa: BLE001
            progs[r], build_err[r] = None, ex

    has = "has(" in src
    import re as _re
    # features that known findings are keyed on: a protobuf message literal `Name{...}`, a non-standard extension macro
    feat = {"has": has, "msg_literal": bool(_re.search(r"[A-Za-z_][\w.]*\s*\{", src)),
            "ext_macro": next((m for m in ("min", "reduce") if f".{m}(" in src), "")}

    def run(vals):
        if progs["interp"] is None:
            # the interpreter cannot even be given the program: nothing to compare (parse errors are C04's subject)
            return [Ob(f"C03/{lab}/interp-unbuildable", z3.BoolVal(True))]
        ki, vi = common.outcome(lambda: progs["interp"].evaluate(build(vals)))
        if progs["compiled"] is None:
            if ki == "value":
                return [Ob(f"C03/{lab}/construction", z3.BoolVal(False),
                           note=f"compiled runner failed at program construction ({type(build_err['compiled']).__name__}) "
                                f"for an expression the interpreter evaluates", tags={**feat, "exc": type(build_err["compiled"]).__name__})]
            return [Ob(f"C03/{lab}/construction", z3.BoolVal(True))]
        kc, vc = common.outcome(lambda: progs["compiled"].evaluate(build(vals)))
        if ki == "escape" and kc == "escape":
            return [Ob(f"C03/{lab}/kind", z3.BoolVal(True), note="both escape with a Python exception (C04's subject)")]
        if ki != kc:
            return [Ob(f"C03/{lab}/kind", z3.BoolVal(False), note=f"interp: {ki} {_short(vi)}; compiled: {kc} {_short(vc)}",
                       tags={**feat, "interp": ki, "compiled": kc})]
        if ki != "value":
            return [Ob(f"C03/{lab}/kind", z3.BoolVal(True))]
        obs = [Ob(f"C03/{lab}/value", skel.equal_term(vi, vc), note="equal value under both runners", tags=dict(feat))]
        ci, cc = common.value_class(vi), common.value_class(vc)
        obs.append(Ob(f"C03/{lab}/class", z3.BoolVal(ci == cc), note=f"interp class {ci}, compiled class {cc}",
                      tags={**feat, "interp": ci, "compiled": cc}))
        return obs

    def witness(vals):
        return {"check": "c03.agree", "args": {"src": src, "bindings": to_json(vals)}}

    return Harness(id=f"C03:{src}", vars=vars, pre=pre, run=run, witness=witness, max_paths=budget)


def ident_sources(name):
    return [f"{name} + a", f"[a, b].map({name}, {name} + 1)[1]", f"[a].exists({name}, {name} == a) && {name} == b", f"{name} > a ? {name} : a", f"[{name}][0] - a"]


def ident_harness(name):
    """a variable (and a macro variable) spelled `name`: both runners give it the bound value"""
    celpy, ct, ev = common.mods()
    from ..sym.core import SInt, mk
    N, A, B = z3.Int("n"), z3.Int("a"), z3.Int("b")
    vars = {"n": N, "a": A, "b": B}
    pre = []
    for v in vars.values():
        pre += [v >= -(2**40), v <= 2**40]
    progs = []
    for src in ident_sources(name):
        built = {}
        for r in common.RUNNERS:
            built[r] = common.outcome(lambda: common.make_program(src, r))
        progs.append((src, built))

    def run(vals):
        obs = []
        b = {name: ct.IntType(mk(SInt, N, vals["n"])), "a": ct.IntType(mk(SInt, A, vals["a"])), "b": ct.IntType(mk(SInt, B, vals["b"]))}
        for src, built in progs:
            tags = {"ident": name}
            if built["interp"][0] != "value":
                obs.append(Ob("C03/ident/interp-unbuildable", z3.BoolVal(True)))
                continue
            if built["compiled"][0] != "value":
                obs.append(Ob("C03/ident/construction", z3.BoolVal(False), note=f"`{src}`: compiled runner failed at program construction: {built['compiled'][1]!r:.100}", tags=tags))
                continue
            ki, vi = common.outcome(lambda: built["interp"][1].evaluate(dict(b)))
            kc, vc = common.outcome(lambda: built["compiled"][1].evaluate(dict(b)))
            if ki != kc:
                obs.append(Ob("C03/ident/kind", z3.BoolVal(False), note=f"`{src}`: interp {ki} {_short(vi)}; compiled {kc} {_short(vc)}", tags=tags))
            elif ki == "value":
                obs.append(Ob("C03/ident/value", skel.equal_term(vi, vc), note=f"`{src}`", tags=tags))
            else:
                obs.append(Ob("C03/ident/kind", z3.BoolVal(True)))
        return obs

    def witness(vals):
        return {"check": "c03.ident", "args": {"name": name, "vals": {k: int(v) for k, v in vals.items()}}}

    return Harness(id=f"C03/ident:{name}", vars=vars, pre=pre, run=run, witness=witness, max_paths=40)


def repeat_harness(src):
    """one program per runner, evaluated several times in a row with activations that bind different sets of names: at every step
    the compiled outcome is the interpreter's (an activation that lacks a name must not see an earlier call's value)"""
    celpy, ct, ev = common.mods()
    from ..sym.core import SInt, mk
    A, B, A2, B2 = z3.Int("a"), z3.Int("b"), z3.Int("a2"), z3.Int("b2")
    vars = {"a": A, "b": B, "a2": A2, "b2": B2}
    pre = []
    for v in vars.values():
        pre += [v >= -(2**40), v <= 2**40]
    progs = {r: common.make_program(src, r) for r in common.RUNNERS}
    lab = skel.label(src)

    def steps(vals):
        I = lambda t, n: ct.IntType(mk(SInt, t, vals[n]))
        return [("ab", {"a": I(A, "a"), "b": I(B, "b")}), ("a", {"a": I(A2, "a2")}), ("b", {"b": I(B2, "b2")}), ("none", {}),
                ("ab", {"a": I(A2, "a2"), "b": I(B2, "b2")}), ("b", {"b": I(B, "b")})]

    def run(vals):
        obs = []
        for i, (names, act) in enumerate(steps(vals)):
            ki, vi = common.outcome(lambda: progs["interp"].evaluate(dict(act)))
            kc, vc = common.outcome(lambda: progs["compiled"].evaluate(dict(act)))
            if ki != kc:
                obs.append(Ob(f"C03/repeat/{lab}/kind", z3.BoolVal(False), note=f"step {i} (binds {names}): interp {ki} {_short(vi)}; compiled {kc} {_short(vc)}"))
                break
            if ki == "value":
                obs.append(Ob(f"C03/repeat/{lab}/value", skel.equal_term(vi, vc), note=f"step {i} (binds {names})"))
            else:
                obs.append(Ob(f"C03/repeat/{lab}/kind", z3.BoolVal(True)))
        return obs

    def witness(vals):
        return {"check": "c03.repeat", "args": {"src": src, "vals": {k: int(v) for k, v in vals.items()}}}

    return Harness(id=f"C03/repeat:{src}", vars=vars, pre=pre, run=run, witness=witness, max_paths=80)


def _short(v):
    try:
        return f"{type(v).__name__}: {str(v)[:80]}"
    except Exception:  # noqa: BLE001
        return type(v).__name__
