"""C04 evaluation ends in a value or a CEL error, never another exception; parse errors carry their position."""
import z3

from .. import explore
from ..explore import Harness, Ob
from ..sym.core import SInt, mk, tm, is_sym
from . import common, gen, skel
from ..replay import enc

PROP = "C04"
LEVEL = "model_checking"
FIDELITY_TESTS = ["tests"]
BOUNDS = {
    "quick": {"programs": "ill-typed-on-purpose skeletons: 53 unary/member/index/macro/function contexts x 6 main value kinds (a rotating quarter of them on 6 more kinds), "
                          "14 binary operators x all same-kind pairs and a deterministic twelfth of the mixed-kind pairs, plus data-dependent special-value programs (those feeding fp.div/fp.mul into a conversion: thorough only); both runners",
              "data": "all values inside each kind (int64, uint64, binary64 incl. inf/NaN, strings <= 2, bytes <= 2, lists <= 3, 2-key maps)", "path budget": 40,
              "parse errors": "CELParser.parse with the Lark parser stubbed to raise each Lark exception class with symbolic line/column; 70 malformed strings via the real parser (enumeration)",
              "compile() on symbolic text": "every text of 0..2 Unicode scalar values (each code point a symbolic integer over U+0000..U+10FFFF minus surrogates): the real Lark lexer loop, "
                                            "line counter, token callbacks and LALR driver run on it with the scanners' compiled regexes replaced by the concolic matcher"},
    "thorough": {"programs": "every context on all 12 kinds; all 144 kind pairs for every binary operator", "data": "same", "path budget": 150, "parse errors": "same",
                 "compile() on symbolic text": "every text of 0..3 code points (81 first/second-character classes distribute the work; path budget 2500 per class pair, exhaustion reported)"},
}
OUTSIDE = ["compile() on texts longer than the bound (2 / 3 code points): beyond it only Lark's exception interface is symbolic (stubbed Lark errors with symbolic positions) plus enumerated malformed strings",
           "the message excerpt built by Lark's get_context() is formatting: it reads a concrete copy of the text (stub, listed in assumptions)",
           "RecursionError at CEL's nesting minimums (a concrete resource limit, no solver content)"]
ASSUMPTIONS = ["activation values are CEL values of the stated kinds (the documented precondition of evaluate)",
               "compile() on symbolic text: Lark's scanners match through vf/sym/regex.py (generated from the scanners' own compiled patterns, asserted equal to `re` on every match); "
               "STUB: lark UnexpectedInput.get_context (message excerpt) formats a concrete copy of the text"]
TRUSTED = ["z3 5.1", "CPython 3.12", "vf.sym shadows", "Lark's documented exception attributes (line, column, pos_in_stream)"]
MANIFEST = {
    "text": "Symbolic execution of deliberately ill-typed programs under both runners with symbolic data of every value kind: on every feasible path the outcome must be a value "
            "or CELEvalError whose str()/repr() render; program construction must not raise. Special values (inf, NaN, MIN64, empty containers) are reached by the solver through "
            "path conditions, not by listing them. CELParser.parse is executed with the Lark call stubbed to raise each Lark exception with symbolic positions, and on "
            "symbolic texts of up to 2 (quick) / 3 (thorough) code points through the real Lark lexer and LALR driver: every path ends in a tree or a CELParseError whose line/column "
            "is proved to be a position of the text.",
    "note": "Program skeletons enumerated (kinds x contexts), data symbolic. The parser itself (Lark, C re) is outside; malformed-string cases are an enumeration and labelled so.",
    "technique": "symbolic execution of the real Python byte-code with shadow builtins + z3 (incl. Lark's pure-Python lexer loop and LALR driver on symbolic text, scanner regexes through a concolic matcher); exception-class and position obligations per path; counterexample replay",
    "design_ref": "DESIGN.md §7 C04",
}

MALFORMED = ["", "1 +", "(", "'abc", "\x00", "1 2", "a.", "[1,", "{1:", "1 ? 2", "!", "-", "a..b", "1u2", "0x", "'\\q'", '"""abc', "a ? b : ",
             "\n\n  +", "1 +\n", "/* */", "// only comment", "   ", "ñ", "1 + ñ", "a[", "a(", "has(", "x.map(", "1 +\r\n*", "a b c",
             "1 +* 2", "'a' 'b'", "{", "}", "]", ")", "a{", "a{b}", "a{b:}", ".", "..a", "a.1", "1.a", "1e", "1e+", "0xg", "b'", "r'", "'''",
             "\\", "@", "#", "$x", "a ? : b", "? :", "a ?? b", "a && ", "|| a", "a | b", "a & b", "a = b", "a === b", "a <> b", "a => b",
             "\n\n1 +* 2", "  \n 1 +* 2", "\n\n\n(1", " \t\n\na b", "\n  'abc", "\r\n\r\n1 2", "1\n+\n*", "\n\n\n", "true false", "null null", "in", "a in", "in a", "\ud83d", "a\tb", "if", "a.if", "for(x)"]


FP_HEAVY = ("d1 / d2", "d1 * d2")  # bit-precise fp.div / fp.mul feeding a conversion: tens of seconds per query


def all_programs(tier):
    ps = list(gen.illtyped(tier))
    if tier == "quick":
        ps = [p for p in ps if not any(h in p for h in FP_HEAVY)]
    return ps


NT = 64


# ----------------------------------------------------------------------------- compile() on symbolic text
# classes of the first character: the partition only distributes the work (every class is explored), it is not a restriction
FIRST_CLASSES = [("ws", [9, 10, 12, 13, 32]), ("digit", None), ("lower", None), ("upper_", None), ("quote", [34, 39]),
                 ("op1", [33, 37, 38, 40, 41, 42, 43]), ("op2", [44, 45, 46, 47, 58, 60, 61]), ("op3", [62, 63, 91, 93, 123, 124, 125]), ("other", None)]


def _first_class_pre(name, members, c):
    if members is not None:
        return z3.Or([c == m for m in members])
    if name == "digit":
        return z3.And(c >= 48, c <= 57)
    if name == "lower":
        return z3.And(c >= 97, c <= 122)
    if name == "upper_":
        return z3.Or(z3.And(c >= 65, c <= 90), c == 95)
    listed = [m for _, ms in FIRST_CLASSES if ms for m in ms]
    return z3.And(z3.Not(z3.Or([c == m for m in listed])), z3.Not(z3.And(c >= 48, c <= 57)), z3.Not(z3.And(c >= 97, c <= 122)),
                  z3.Not(z3.And(c >= 65, c <= 90)), c != 95)


def _symtext_tasks(tier):
    ts = [{"what": "symtext", "n": 0, "cls": None}, {"what": "symtext", "n": 1, "cls": None}]
    for name, _ in FIRST_CLASSES:
        ts.append({"what": "symtext", "n": 2, "cls": name})
    if tier != "quick":
        for name, _ in FIRST_CLASSES:
            for name2, _ in FIRST_CLASSES:
                ts.append({"what": "symtext", "n": 3, "cls": name, "cls2": name2})
    return ts


def tasks(tier):
    ts = [{"tier": tier, "stride": i} for i in range(NT)]
    ts.append({"what": "parse"})
    ts += _symtext_tasks(tier)
    return ts


def _symtext_harness(n, cls, cls2=None):
    """CELParser.parse on a text of n symbolic code points: the real Lark lexer loop, line counter, token callbacks and LALR driver
    run with their scanners' regexes replaced by the concolic matcher (vf/sym/larkshim.py)."""
    celpy, ct, ev = common.mods()
    import celpy.celparser as cp
    from ..sym import larkshim
    from ..sym.strs import SStr, mks
    common.make_program("1", "interp")
    parser = cp.CELParser()
    larkshim.install(larkshim.parser_of(parser, cp))
    # formatting stub: Lark's get_context() only renders the message excerpt (slicing + expandtabs); it reads a concrete
    # copy of the text, so the message is the one of the current model and adds no path constraint
    from lark.exceptions import UnexpectedInput
    from ..sym.strs import sraw
    if not getattr(UnexpectedInput.get_context, "_vf_stub", False):
        real_gc = UnexpectedInput.get_context

        def get_context(self, text, span=40):
            return real_gc(self, sraw(text) if isinstance(text, str) else text, span)
        get_context._vf_stub = True
        UnexpectedInput.get_context = get_context
    names = [f"c{i}" for i in range(n)]
    cs = [z3.Int(x) for x in names]
    pre = []
    for c in cs:
        pre += [c >= 0, c <= 0x10FFFF, z3.Not(z3.And(c >= 0xD800, c <= 0xDFFF))]
    fc = dict(FIRST_CLASSES)
    if cls is not None:
        pre.append(_first_class_pre(cls, fc[cls], cs[0]))
    if cls2 is not None:
        pre.append(_first_class_pre(cls2, fc[cls2], cs[1]))

    def inside(line, col):
        """(line, col) is the 1-based position of some offset 0..n of the text (the end-of-text position included)"""
        alts = []
        for pos in range(n + 1):
            nl = sum([z3.If(cs[k] == 10, 1, 0) for k in range(pos)]) if pos else z3.IntVal(0)
            # column = pos - (index of the last newline before pos), 1-based
            start = z3.IntVal(0)
            for k in range(pos):
                start = z3.If(cs[k] == 10, k + 1, start)
            alts.append(z3.And(line == 1 + nl, col == pos - start + 1))
        return z3.Or(alts)

    def run(vals):
        text = mks(SStr, cs, "".join(chr(vals[x]) for x in names)) if n else ""
        try:
            parser.parse(text)
            return [Ob("C04/compile-symbolic/tree-or-parse-error", z3.BoolVal(True), note="tree")]
        except cp.CELParseError as ex:
            obs = [Ob("C04/compile-symbolic/tree-or-parse-error", z3.BoolVal(True), note="CELParseError")]
            if ex.line is None or ex.column is None:
                obs.append(Ob("C04/compile-symbolic/position-inside-text", z3.BoolVal(False), note="CELParseError without line/column"))
            else:
                obs.append(Ob("C04/compile-symbolic/position-inside-text", inside(tm(ex.line), tm(ex.column)),
                              note=f"line {int(ex.line)} column {int(ex.column)}"))
            bad = skel.render_error(ex)
            obs.append(Ob("C04/compile-symbolic/renders", z3.BoolVal(bad is None), note=str(bad)))
            return obs
        except Exception as ex:  # noqa: BLE001
            return [Ob("C04/compile-symbolic/tree-or-parse-error", z3.BoolVal(False), note=f"{type(ex).__name__} escaped compile: {ex}"[:200],
                       tags={"exc": type(ex).__name__})]

    def witness(vals):
        return {"check": "c04.compile_any", "args": {"text": "".join(chr(vals[x]) for x in names)}}

    hid = f"C04/compile-symbolic/len{n}" + (f"/{cls}" if cls else "") + (f"/{cls2}" if cls2 else "")
    h = Harness(id=hid, vars=dict(zip(names, cs)) or {"dummy": z3.Int("dummy")}, pre=pre or [z3.Int("dummy") == 0], run=run, witness=witness,
                max_paths=4000 if n < 3 else 2500)
    h.max_seconds = 100 if n < 3 else 400
    return h


def run_task(task, kf):
    from ..sym import loader
    out, first = [], True
    if task.get("what") == "parse":
        return [explore.explore(h, kf, profile_root=loader.SRC) for h in _parse_harnesses()]
    if task.get("what") == "symtext":
        return [explore.explore(_symtext_harness(task["n"], task["cls"], task.get("cls2")), kf, profile_root=loader.SRC)]
    budget = 40 if task["tier"] == "quick" else 150
    for src in all_programs(task["tier"])[task["stride"]::NT]:
        for runner in common.RUNNERS:
            out.append(explore.explore(harness(src, runner, budget), kf, profile_root=loader.SRC if first else None))
            first = False
    return out


def harness(src, runner, budget):
    celpy, ct, ev = common.mods()
    names, vars, pre, build, to_json = skel.bindings_for(src)
    lab = skel.label(src)
    stage, err, prog = None, None, None
    try:
        prog = common.make_program(src, runner)
    except celpy.CELParseError as ex:
        stage, err = "parse", ex
    except Exception as ex:  # noqa: BLE001
        stage, err = "construction", ex

    def run(vals):
        if stage == "parse":
            return [Ob(f"C04/parse-error/{lab}@{runner}", z3.BoolVal(True), note="rejected by the parser with CELParseError")]
        if stage == "construction":
            return [Ob(f"C04/construction/{lab}@{runner}", z3.BoolVal(False), note=f"`{src}`: {type(err).__name__}: {err}"[:300],
                       tags={"exc": type(err).__name__})]
        kind, v = common.outcome(lambda: prog.evaluate(build(vals)))
        if kind == "escape":
            return [Ob(f"C04/no-escape/{lab}@{runner}", z3.BoolVal(False), note=f"`{src}`: {type(v).__name__}: {v}"[:300],
                       tags={"exc": type(v).__name__})]
        obs = [Ob(f"C04/no-escape/{lab}@{runner}", z3.BoolVal(True))]
        if kind == "error":
            bad = skel.render_error(v)
            obs.append(Ob(f"C04/error-renders/{lab}@{runner}", z3.BoolVal(bad is None), note=f"`{src}`: rendering the error raised {bad}",
                          tags={"exc": (bad or "").split(":")[0], "empty_list_literal": "[]" in src.replace(" ", "")}))
        return obs

    def witness(vals):
        return {"check": "c04.no_escape", "args": {"src": src, "runner": runner, "bindings": to_json(vals)}}

    allow_empty = False
    h = Harness(id=f"C04:{src}@{runner}", vars=vars, pre=pre, run=run, witness=witness, max_paths=budget)
    return h


def _parse_harnesses():
    """CELParser.parse with CEL_PARSER.parse stubbed to raise each Lark exception class with symbolic line/column."""
    celpy, ct, ev = common.mods()
    import lark
    from lark.exceptions import UnexpectedCharacters, UnexpectedToken, UnexpectedEOF, LexError, ParseError
    import celpy.celparser as cp
    L, C = z3.Int("line"), z3.Int("col")
    text = "a +\n  b ?? c\nd"
    nlines = 3
    hs = []

    class Stub:
        def __init__(self, exc):
            self.exc = exc

        def parse(self, t):
            raise self.exc

    def mk_h(kind):
        def run(vals):
            line, col = mk(SInt, L, vals["line"]), mk(SInt, C, vals["col"])
            if kind == "UnexpectedCharacters":
                exc = UnexpectedCharacters(text, 9, line, col)
            elif kind == "UnexpectedToken":
                tok = lark.Token("QMARK", "?", start_pos=9, line=line, column=col)
                exc = UnexpectedToken(tok, {"IDENT"})
            elif kind == "UnexpectedEOF":
                exc = UnexpectedEOF(["IDENT"])
            elif kind == "LexError":
                exc = LexError("lexing failed\nsecond line")
            else:
                exc = ParseError("parsing failed\nsecond line")
            parser = cp.CELParser()
            saved = cp.CELParser.CEL_PARSER
            stub = Stub(exc)
            cp.CELParser.CEL_PARSER = stub       # the shared Lark object ...
            if hasattr(parser, "parser"):
                parser.parser = stub             # ... and the per-instance reference, whichever parse() uses
            try:
                try:
                    parser.parse(text)
                    return [Ob(f"C04/parse/{kind}/raises", z3.BoolVal(False), note="stubbed Lark error swallowed")]
                except cp.CELParseError as ex:
                    obs = []
                    if kind in ("UnexpectedCharacters", "UnexpectedToken"):
                        ok = ex.line is not None and ex.column is not None
                        obs.append(Ob(f"C04/parse/{kind}/position", z3.And(tm(ex.line) == L, tm(ex.column) == C) if ok else z3.BoolVal(False),
                                      note="CELParseError carries the line and column Lark reported"))
                    bad = skel.render_error(ex)
                    obs.append(Ob(f"C04/parse/{kind}/renders", z3.BoolVal(bad is None), note=str(bad)))
                    return obs
                except Exception as ex:  # noqa: BLE001
                    return [Ob(f"C04/parse/{kind}/wrapped", z3.BoolVal(False), note=f"{type(ex).__name__} escaped CELParser.parse: {ex}"[:200],
                               tags={"exc": type(ex).__name__})]
            finally:
                cp.CELParser.CEL_PARSER = saved

        def witness(vals):
            return {"check": "c04.parse_wrapper", "args": {"kind": kind, "line": vals["line"], "col": vals["col"]}}

        # Lark's contract: 1 <= line <= number of lines, column >= 1 within the line
        pre = [L >= 1, L <= nlines, C >= 1, C <= 8]
        return Harness(id=f"C04/parse/{kind}", vars={"line": L, "col": C}, pre=pre, run=run, witness=witness, max_paths=40)

    # UnexpectedEOF is raised by Lark's Earley parser only; the LALR configuration used here reports end of input as
    # UnexpectedToken($END), so it is outside Lark's contract for this parser and is not stubbed.
    for kind in ("UnexpectedCharacters", "UnexpectedToken", "LexError", "ParseError"):
        hs.append(mk_h(kind))
    # enumeration of malformed strings through the real parser (validated by the concrete oracle only)
    def run_enum(vals):
        return [Ob("C04/compile/enumerated-strings", z3.BoolVal(True), note="malformed strings are checked by the concrete oracle (enumeration, not a solver verdict)")]
    he = Harness(id="C04/compile/enumeration", vars={"dummy": z3.Int("dummy")}, pre=[z3.Int("dummy") == 0], run=run_enum,
                 witness=lambda vals: None, max_paths=2)
    r = hs
    return r + [he]


def extra_validation():
    """witnesses the driver replays in the clean interpreter in addition to path samples"""
    ws = [{"check": "c04.compile_any", "args": {"text": t}} for t in MALFORMED]
    # expressions that combine several of CEL's minimum nesting limits (12 nested calls, 12 nested list literals, 24 repeated
    # binary operators, 32 || / && terms), evaluated in a fresh process under both runners: no RecursionError may escape
    ws += [{"check": "c04.deep_expression", "args": {"calls": c, "lists": l, "adds": a, "terms": t, "zero": z}}
           for c, l, a, t, z in ((12, 12, 24, 1, False), (12, 12, 24, 32, False), (12, 12, 24, 32, True), (6, 12, 24, 16, False), (12, 0, 24, 32, True))]
    # long compile histories on one Environment (bounded caches, eviction paths): enumeration
    ws += [{"check": "c04.compile_sequence", "args": {"n": n, "every_bad": b}} for n, b in ((700, 5), (1100, 0), (300, 1), (2100, 64))]
    return ws
