"""C05 evaluation is a function of expression and bindings, independent of history (2-safety / non-interference)."""
import itertools

import z3

from .. import explore
from ..explore import Harness, Ob
from ..refsem import MIN64, MAX64
from ..sym.core import SInt, mk, tm
from . import common
from ..replay import enc

PROP = "C05"
LEVEL = "model_checking"
FIDELITY_TESTS = ["tests"]
BOUNDS = {
    "quick": {"histories": "API operation sequences of <= 3 sessions/evaluations: two environments of every runner-class pair (also with interleaved creation), one program "
                           "evaluated 2-3 times with binding name sets drawn from {a, a.b, a.c, a.b.c, a.b+a.c}, packaged/declared environments",
              "values": "every binding value of every evaluation in the history is a symbolic int64", "comparison": "fresh load of all celpy modules (module globals, class attributes reset) "
                                                                                                            "running only the last evaluation"},
    "thorough": {"histories": "<= 4 steps (all triples of binding name sets, three environments)", "values": "same", "comparison": "same"},
}
OUTSIDE = ["state inside Lark", "interpreter-level caches (re, functools)", "histories longer than the bound"]
ASSUMPTIONS = ["`fresh process` is modelled by purging every celpy/xlate module from sys.modules and re-executing their source (shadow-loaded again)"]
TRUSTED = ["z3 5.1", "CPython 3.12 import system", "vf.sym shadows"]
MANIFEST = {
    "text": "Non-interference as a 2-safety property: for every enumerated history of API operations the final evaluation is executed once after the history and once alone after a "
            "fresh load of all library modules, both on symbolic binding values; z3 proves the two outcomes equal for ALL values of ALL earlier bindings (so no earlier value can "
            "leak), and that the caller's bindings are unmodified. Counterexamples replay as history vs. solo in a clean interpreter.",
    "note": "Histories are enumerated to the stated length; binding values are symbolic. Each explored path re-executes the library's module source twice.",
    "technique": "symbolic execution of the real Python byte-code with shadow builtins + z3; self-composition (history run vs fresh-load run); counterexample replay",
    "design_ref": "DESIGN.md §7 C05",
}

NAMESETS = {"ab": ["a.b"], "ac": ["a.c"], "a": ["a"], "abc": ["a.b.c"], "ab+ac": ["a.b", "a.c"]}
EXPRS = ["a.b", "a.c", "a", "a.b.c"]


def histories(tier):
    """each history: list of steps; step = dict(op=..., ...); the last step is an `eval` whose outcome is compared"""
    H = []
    R = ("interp", "compiled")
    # A: two sessions, every runner pair; B evaluated after A ran completely
    for r1, r2 in itertools.product(R, R):
        H.append([{"op": "session", "env": "E1", "runner": r1, "expr": "x + 1", "bind": {"x": "v0"}},
                  {"op": "session", "env": "E2", "runner": r2, "expr": "x * 2", "bind": {"x": "v1"}}])
        # interleaved creation: both environments exist before the first compile
        H.append([{"op": "env", "env": "E1", "runner": r1}, {"op": "env", "env": "E2", "runner": r2},
                  {"op": "use", "env": "E1", "expr": "x - 1", "bind": {"x": "v0"}}])
        H.append([{"op": "env", "env": "E1", "runner": r1}, {"op": "env", "env": "E2", "runner": r2},
                  {"op": "use", "env": "E2", "expr": "x - 1", "bind": {"x": "v0"}},
                  {"op": "use", "env": "E1", "expr": "x + 2", "bind": {"x": "v1"}}])
    # B: one program, successive evaluations with different binding name sets
    pairs = [("ab", "ac"), ("ac", "ab"), ("ab", "ab"), ("a", "ab"), ("abc", "ab"), ("ab+ac", "ab"), ("ab", "abc"), ("ab+ac", "ac"), ("abc", "a")]
    if tier == "thorough":
        pairs = list(itertools.product(NAMESETS, NAMESETS))
    for r in R:
        for n1, n2 in pairs:
            for expr in (EXPRS if tier == "thorough" else [e for e in EXPRS if e in ("a.b", "a.c", "a.b.c")]):
                H.append([{"op": "env", "env": "E1", "runner": r}, {"op": "prog", "env": "E1", "expr": expr},
                          {"op": "eval", "env": "E1", "names": NAMESETS[n1], "vars": "v"},
                          {"op": "eval", "env": "E1", "names": NAMESETS[n2], "vars": "w"}])
        for n1, n2, n3 in ([("ab", "ac", "abc"), ("ab+ac", "a", "ab"), ("abc", "ab", "ac")] if tier == "quick" else itertools.product(("ab", "ac", "abc", "a"), repeat=3)):
            H.append([{"op": "env", "env": "E1", "runner": r}, {"op": "prog", "env": "E1", "expr": "a.b"},
                      {"op": "eval", "env": "E1", "names": NAMESETS[n1], "vars": "u"},
                      {"op": "eval", "env": "E1", "names": NAMESETS[n2], "vars": "v"},
                      {"op": "eval", "env": "E1", "names": NAMESETS[n3], "vars": "w"}])
        # declared dotted names: the environment's declarations create nested namespaces before any evaluation
        for decl in (["a.b", "a.c"], ["a.b"], ["a.b.c", "a.c"]):
            for n1, n2 in (("ab", "ac"), ("ab+ac", "ab"), ("ab", "abc"), ("ac", "ab")):
                for expr in ("a.b", "a.c"):
                    H.append([{"op": "env", "env": "E1", "runner": r, "declare": decl}, {"op": "prog", "env": "E1", "expr": expr},
                              {"op": "eval", "env": "E1", "names": NAMESETS[n1], "vars": "v"},
                              {"op": "eval", "env": "E1", "names": NAMESETS[n2], "vars": "w"}])
        # an evaluation with *no* bindings after one with bindings (must not see the earlier values)
        for expr, names in (("x + 1", ["x"]), ("has(m.k)", []), ("a.b", ["a.b"])):
            H.append([{"op": "env", "env": "E1", "runner": r}, {"op": "prog", "env": "E1", "expr": expr},
                      {"op": "eval", "env": "E1", "names": names or ["x"], "vars": "v", "mapvar": ("m" if "m.k" in expr else None)},
                      {"op": "eval", "env": "E1", "names": [], "vars": "w"}])
            H.append([{"op": "env", "env": "E1", "runner": r}, {"op": "prog", "env": "E1", "expr": expr},
                      {"op": "eval", "env": "E1", "names": [], "vars": "u"},
                      {"op": "eval", "env": "E1", "names": names or ["x"], "vars": "v", "mapvar": ("m" if "m.k" in expr else None)},
                      {"op": "eval", "env": "E1", "names": [], "vars": "w"}])
        # list-valued bindings: the same bindings object evaluated repeatedly (results equal, object contents unchanged)
        for expr in ("xs + [3]", "xs + xs", "[0] + xs", "xs.map(e, e + 1) + xs", "size(xs + [1]) + size(xs)"):
            H.append([{"op": "env", "env": "E1", "runner": r}, {"op": "prog", "env": "E1", "expr": expr},
                      {"op": "eval", "env": "E1", "names": ["x"], "vars": "v", "listvar": "xs", "keep": "B"},
                      {"op": "eval", "env": "E1", "names": ["x"], "vars": "v", "listvar": "xs", "keep": "B"},
                      {"op": "eval", "env": "E1", "names": ["x"], "vars": "v", "listvar": "xs", "keep": "B"}])
        # ... and an empty list binding as the left operand (a fast path for the empty case must not alias the binding)
        for expr in ("acc + xs", "size(acc + xs) + size(acc)", "acc + [1] + acc", "xs.map(e, acc + [e])[1]"):
            H.append([{"op": "env", "env": "E1", "runner": r}, {"op": "prog", "env": "E1", "expr": expr},
                      {"op": "eval", "env": "E1", "names": ["x"], "vars": "v", "listvar": "xs", "emptyvar": "acc", "keep": "B"},
                      {"op": "eval", "env": "E1", "names": ["x"], "vars": "v", "listvar": "xs", "emptyvar": "acc", "keep": "B"}])
        # C: repeated evaluation with the same bindings; packaged + declared environment after a plain one
        H.append([{"op": "env", "env": "E1", "runner": r}, {"op": "prog", "env": "E1", "expr": "a.b + a.c"},
                  {"op": "eval", "env": "E1", "names": ["a.b", "a.c"], "vars": "v"},
                  {"op": "eval", "env": "E1", "names": ["a.b", "a.c"], "vars": "v"}])
        H.append([{"op": "session", "env": "E1", "runner": r, "expr": "a.b", "bind": {"a.b": "v0"}},
                  {"op": "session", "env": "E2", "runner": r, "package": "p", "declare": ["p.a.b"], "expr": "a.b", "bind": {"p.a.b": "v1"}}])
        H.append([{"op": "session", "env": "E1", "runner": r, "package": "p", "declare": ["p.a.b"], "expr": "a.b", "bind": {"p.a.b": "v0"}},
                  {"op": "session", "env": "E2", "runner": r, "expr": "a.b", "bind": {"a.b": "v1"}}])
        # zone arguments in spellings that a process-wide memo could conflate (case, sign of a zero hour, leading zero)
        TS = "timestamp('2020-06-01T12:30:00Z')"
        for z1, z2 in (("US/Eastern", "us/eastern"), ("+00:45", "-00:45"), ("-00:45", "00:45"), ("05:30", "5:30"), ("-03:30", "+03:30"), ("Europe/Paris", "europe/paris"), ("UTC", "utc")):
            H.append([{"op": "session", "env": "E1", "runner": r, "expr": f"{TS}.getHours('{z1}') * 100 + {TS}.getMinutes('{z1}') + x", "bind": {"x": "v0"}},
                      {"op": "session", "env": "E2", "runner": r, "expr": f"{TS}.getHours('{z2}') * 100 + {TS}.getMinutes('{z2}') + x", "bind": {"x": "v1"}}])
        # D: one Environment, several programs for the same expression text with different host functions under the same names
        # (operator.* callables: reachable by both runners), and the same names bound to different functions in two environments
        for f1, f2 in (("neg", "abs"), ("abs", "neg"), ("pos", "neg")):
            H.append([{"op": "env", "env": "E1", "runner": r},
                      {"op": "use", "env": "E1", "expr": "g(x) + 1", "bind": {"x": "v0"}, "functions": {"g": f1}},
                      {"op": "use", "env": "E1", "expr": "g(x) + 1", "bind": {"x": "v1"}, "functions": {"g": f2}}])
        H.append([{"op": "env", "env": "E1", "runner": r},
                  {"op": "use", "env": "E1", "expr": "x.g() + h(x)", "bind": {"x": "v0"}, "functions": {"g": "neg", "h": "abs"}},
                  {"op": "use", "env": "E1", "expr": "x.g() + h(x)", "bind": {"x": "v1"}, "functions": {"g": "abs", "h": "neg"}},
                  {"op": "use", "env": "E1", "expr": "x.g() + h(x)", "bind": {"x": "v2"}, "functions": {"g": "neg", "h": "abs"}}])
        H.append([{"op": "env", "env": "E1", "runner": r},
                  {"op": "use", "env": "E1", "expr": "g(x)", "bind": {"x": "v0"}, "functions": {"g": "neg"}},
                  {"op": "use", "env": "E1", "expr": "g(x)", "bind": {"x": "v1"}}])
        H.append([{"op": "session", "env": "E1", "runner": r, "expr": "g(x)", "bind": {"x": "v0"}, "functions": {"g": "neg"}},
                  {"op": "session", "env": "E2", "runner": r, "expr": "g(x)", "bind": {"x": "v1"}, "functions": {"g": "abs"}}])
        H.append([{"op": "session", "env": "E1", "runner": r, "expr": "[x].map(y, y + 1)[0]", "bind": {"x": "v0"}},
                  {"op": "session", "env": "E2", "runner": r, "expr": "y + x", "bind": {"x": "v1", "y": "v2"}}])
    return H


def tasks(tier):
    return [{"tier": tier, "i": i} for i in range(len(histories(tier)))]


def run_task(task, kf):
    from ..sym import loader
    h = histories(task["tier"])[task["i"]]
    return [explore.explore(_harness(h, task["i"]), kf, profile_root=loader.SRC if task["i"] % 16 == 0 else None)]


def _var_names(hist):
    names = []
    for st in hist:
        if "bind" in st:
            names += list(st["bind"].values())
        if st["op"] == "eval":
            names += [f"{st['vars']}_{n.replace('.', '_')}" for n in st["names"]]
    out = []
    for n in names:
        if n not in out:
            out.append(n)
    return out


def final_solo(hist):
    """the operations needed to perform only the last evaluation, in a fresh process"""
    last = hist[-1]
    if last["op"] == "session":
        return [last]
    env = last["env"]
    steps = []
    for st in hist:
        if st.get("env") != env:
            continue
        if st["op"] == "env":
            steps = [st]
        elif st["op"] == "prog":
            steps = [s for s in steps if s["op"] == "env"] + [st]
    return steps + [last]


def execute(hist, vals, vars):
    """run the operations on the currently loaded celpy; returns (outcome kind, value, bindings-intact?) of the last evaluation"""
    celpy, ct, ev = common.mods()
    envs, progs = {}, {}
    out = None

    def mkenv(st):
        Rc = celpy.InterpretedRunner if st["runner"] == "interp" else celpy.CompiledRunner
        ann = {n: ct.IntType for n in st.get("declare", [])} or None
        return celpy.Environment(package=st.get("package"), annotations=ann, runner_class=Rc)

    def sv(name):
        if vars is None:
            return ct.IntType(vals[name])
        return ct.IntType(mk(SInt, vars[name], vals[name]))

    def snapshot(v):
        """structure + terms of a binding value (to detect in-place modification)"""
        if isinstance(v, list):
            return ("list", [snapshot(x) for x in list.__iter__(v)])
        if isinstance(v, dict):
            return ("map", [(snapshot(k), snapshot(x)) for k, x in dict.items(v)])
        if isinstance(v, int):
            return ("int", tm(v) if vars is not None else int(v))
        return ("other", repr(v))

    def same_snapshot(a, b):
        if a[0] != b[0]:
            return False
        if a[0] == "list":
            return len(a[1]) == len(b[1]) and all(same_snapshot(x, y) for x, y in zip(a[1], b[1]))
        if a[0] == "map":
            return len(a[1]) == len(b[1]) and all(same_snapshot(x[0], y[0]) and same_snapshot(x[1], y[1]) for x, y in zip(a[1], b[1]))
        if a[0] == "int":
            return a[1].eq(b[1]) if vars is not None else a[1] == b[1]
        return a[1] == b[1]

    kept = {}

    def do_eval(prog, b):
        keys_before = list(b)
        objs_before = {k: v for k, v in b.items()}
        snap = {k: snapshot(v) for k, v in b.items()}
        kd, r = common.outcome(lambda: prog.evaluate(b))
        intact = list(b) == keys_before and all(b[k] is objs_before[k] for k in b) and all(same_snapshot(snap[k], snapshot(b[k])) for k in b)
        return kd, r, intact

    def bindings_of(st):
        if st.get("keep") and st["keep"] in kept:
            return kept[st["keep"]]
        b = {n: sv(f"{st['vars']}_{n.replace('.', '_')}") for n in st["names"]}
        if st.get("mapvar"):
            b = {st["mapvar"]: ct.MapType({ct.StringType("k"): b[st["names"][0]]})}
        if st.get("listvar"):
            b = {st["listvar"]: ct.ListType([b[st["names"][0]], ct.IntType(2)])}
            if st.get("emptyvar"):
                b[st["emptyvar"]] = ct.ListType([])
        if st.get("keep"):
            kept[st["keep"]] = b
        return b

    for st in hist:
        if st["op"] == "env":
            envs[st["env"]] = mkenv(st)
        elif st["op"] == "prog":
            e = envs[st["env"]]
            import operator
            fns = {n: getattr(operator, f) for n, f in st["functions"].items()} if st.get("functions") else None
            progs[st["env"]] = common.outcome(lambda: e.program(e.compile(st["expr"]), functions=fns))
        elif st["op"] == "eval":
            pk, p = progs[st["env"]]
            if pk != "value":
                out = ("construction-" + pk, p, True)
                continue
            out = do_eval(p, bindings_of(st))
        elif st["op"] in ("session", "use"):
            if st["op"] == "session":
                envs[st["env"]] = mkenv(st)
            e = envs[st["env"]]
            import operator
            fns = {n: getattr(operator, f) for n, f in st["functions"].items()} if st.get("functions") else None
            pk, p = common.outcome(lambda: e.program(e.compile(st["expr"]), functions=fns))
            if pk != "value":
                out = ("construction-" + pk, p, True)
                continue
            out = do_eval(p, {n: sv(v) for n, v in st["bind"].items()})
    return out


def fresh():
    from ..sym import loader
    import logging
    loader.purge()
    common._mods.clear()
    common._parsers.clear()
    logging.disable(logging.CRITICAL)


def _harness(hist, idx):
    names = _var_names(hist)
    vars = {n: z3.Int(n) for n in names}
    pre = []
    for v in vars.values():
        pre += [v >= -(2**40), v <= 2**40]
    solo = final_solo(hist)
    desc = " ; ".join(_desc(s) for s in hist)
    runners = sorted({s["runner"] for s in hist if "runner" in s})
    tag = "+".join(runners)

    def run(vals):
        from . import skel
        fresh()
        kh, rh, intact = execute(hist, vals, vars)
        fresh()
        ks, rs, _ = execute(solo, vals, vars)
        obs = []
        if kh != ks:
            obs.append(Ob(f"C05/outcome-kind/{tag}", z3.BoolVal(False),
                          note=f"after history: {kh} {_s(rh)}; alone in a fresh load: {ks} {_s(rs)}  [{desc}]", tags={"hist": kh, "solo": ks}))
        elif kh == "value" and type(rh).__name__ == "NameContainer" and type(rs).__name__ == "NameContainer":
            obs.append(Ob(f"C05/value/{tag}", z3.BoolVal(True), note="both are the library's namespace object (C12's subject)"))
        elif kh == "value" and isinstance(rh, type) and isinstance(rs, type):
            # class objects of two separate module loads: compare by name
            obs.append(Ob(f"C05/value/{tag}", z3.BoolVal(rh.__name__ == rs.__name__), note=f"type results {rh.__name__} / {rs.__name__}  [{desc}]"))
        elif kh == "value":
            obs.append(Ob(f"C05/value/{tag}", skel.equal_term(rh, rs), note=f"same value as the evaluation alone  [{desc}]", tags={"hist": kh, "solo": ks}))
        else:
            obs.append(Ob(f"C05/outcome-kind/{tag}", z3.BoolVal(True)))
        obs.append(Ob(f"C05/bindings-unmodified/{tag}", z3.BoolVal(bool(intact)), note="evaluate() must not modify the caller's bindings"))
        return obs

    def witness(vals):
        return {"check": "c05.history", "args": enc({"hist": hist, "vals": vals})}

    return Harness(id=f"C05/{idx}:{desc[:120]}", vars=vars, pre=pre, run=run, witness=witness, max_paths=12)


def _desc(s):
    if s["op"] == "session":
        return f"{s['env']}={s['runner']}{'/' + s['package'] if s.get('package') else ''}:`{s['expr']}`{sorted(s['bind'])}"
    if s["op"] == "env":
        return f"new {s['env']}={s['runner']}"
    if s["op"] == "prog":
        return f"{s['env']}.program(`{s['expr']}`)"
    if s["op"] == "use":
        return f"{s['env']}:`{s['expr']}`{sorted(s['bind'])}" + (f" functions={s['functions']}" if s.get("functions") else "")
    return f"{s['env']}.evaluate({s['names']})"


def _s(r):
    try:
        return f"{type(r).__name__}:{str(r)[:70]}"
    except Exception:  # noqa: BLE001
        return type(r).__name__
