"""C06 parser precedence/associativity (engine E2 cfgsat) + AST-dump round trip on solver-enumerated words."""
import os
import time
import types

import z3

PROP = "C06"
LEVEL = "model_checking"
ENGINE = "cfgsat"          # no shadow loader, no shadow-fidelity self-check: the subject is a grammar, not Python data flow
NMAX = {"quick": 7, "thorough": 10}
SPLIT_FROM = 8           # from this N on, q1 is split by operator position into one task per position
DUMP_NMAX = {"quick": 4, "thorough": 5}
DUMP_K = {"quick": 5000, "thorough": 60000}
DUMP_SHARDS = {4: 1, 5: 4}   # N -> number of tasks the enumeration is spread over (by first token)
COVER_NMAX = {"quick": 10, "thorough": 14}
TIMEOUT_MS = {"quick": 120_000, "thorough": 600_000}
ALPHABETS = {   # literal text / terminal names; resolved against the live grammar's terminals
    "ternary-logic": ["IDENT", "?", ":", "||", "&&", "!"],
    "arith-rel": ["IDENT", "INT_LIT", "+", "-", "*", "/", "%", "<", "==", "in", "!"],
    "member-unary": ["IDENT", "INT_LIT", "-", "!", ".", "(", ")", "[", "]", "+"],
}
ALPHA_N = {"quick": (8, 9, 10), "thorough": (11, 12)}
SEED = int(os.environ.get("VERIF_SEED", "0") or 0)
DUMP_LITERALS = ("INT_LIT", "STRING_LIT", "BOOL_LIT", "NULL_LIT")
BOUNDS = {
    t: {"token strings": f"every string of exactly N tokens for each N = 1..{NMAX[t]} over all significant terminals Lark "
                         "compiled from cel.lark (one solver query per N and question; tokens are bit-vectors)",
        "questions per N": "q1 structure (accepted by both grammars, different operator facts; from N = 8 one query per "
                           "operator token position), q2 reference accepts / real rejects, q3 ambiguity of the real grammar; "
                           "converse inclusion reported only",
        "operator facts": "(kind, operator token position, node span) for ?: (both tokens) || && < <= > >= == != in + - * / % "
                          "! unary- . .f() [] {} f() .f() ( ) [..] {..} literal ident",
        "per-query timeout": f"{TIMEOUT_MS[t] // 1000} s",
        "dump round trip": f"enumeration (not a solver verdict): up to {DUMP_K[t]} solver models of w in L(G) per N <= "
                           f"{DUMP_NMAX[t]} (literal terminals restricted to {', '.join(DUMP_LITERALS)}; all literal kinds share "
                           f"DumpAST.literal), plus one shortest word (<= {COVER_NMAX[t]} tokens) per grammar production"}
    for t in ("quick", "thorough")}
OUTSIDE = [
    "lexing: whitespace and // comment skipping, '-1' lexed as a signed literal, keyword/RESERVED priority, literal regexes "
    "(Lark's lexer is C `re`; literals are C07's subject) - witnesses are rendered with one sample lexeme per terminal (dump round trip: plus one of six alternative spellings per literal terminal, rotating), "
    "single spaces between tokens",
    "token strings longer than the bound",
    "that Lark's LALR(1) table realises the compiled productions: taken from LR theory, plus a logged-conflict check and a "
    "comparison of solver-model facts with the tree the real parser built on sampled words",
    "AST dump round trip beyond the enumerated words (there is no data for a solver to range over)",
    "layout beyond the 14 templates of the symbolic-layout family (C06/layout/*: blanks between tokens, // comment bodies, string bodies as symbolic code points through the real Lark lexer); "
    "'-1' lexed as a signed literal and keyword/RESERVED priority remain outside",
    "strings the real grammar accepts and the CEL grammar rejects (reported under converse_inclusion, never alarmed)",
]
ASSUMPTIONS = [
    "CELParser.CEL_PARSER.rules / .terminals are the productions and terminals Lark parses with",
    "the reference grammar R is a faithful transcription of the cel-spec langdef syntax (with `!`/`-` freely mixable and "
    "`{}` construction on any member, as cel.lark has them)",
    "an LALR(1) table built without conflict resolution accepts exactly L(G) with G's unique parse trees",
]
TRUSTED = ["z3 5.1", "CPython 3.12", "vf.cfgsat.encode", "vf.oracles.c06 reference parser", "lark (table construction)"]


def tasks(tier):
    """one task per N and question.  Ascending N: the driver reports the first few candidates per obligation in task order,
    so the shortest witnesses come first."""
    ts = [{"q": "lexer", "N": 0, "tier": tier}]
    ts += [{"q": "symlex", "N": 0, "tier": tier, "family": f} for f in SYMLEX]
    for N in range(1, NMAX[tier] + 1):
        parts = N if N >= SPLIT_FROM else 1
        ts += [{"q": "structure", "N": N, "tier": tier, "part": [k, parts]} for k in range(parts)]
        ts += [{"q": q, "N": N, "tier": tier} for q in ("language", "ambiguity")]
    # longer words over small operator alphabets (nested ?:, operator triples with unary/member chains): cheap because
    # the token variables range over a few terminals only
    for name, alpha in ALPHABETS.items():
        for N in ALPHA_N[tier]:
            if N > NMAX[tier]:
                ts.append({"q": "structure", "N": N, "tier": tier, "alphabet": name})
                ts.append({"q": "language", "N": N, "tier": tier, "alphabet": name})
    ts.append({"q": "cover", "N": COVER_NMAX[tier], "tier": tier})
    ts.append({"q": "dumpfam", "N": 7, "tier": tier})
    for N in range(1, DUMP_NMAX[tier] + 1):
        of = DUMP_SHARDS.get(N, 1)
        ts += [{"q": "dump", "N": N, "tier": tier, "part": [k, of]} for k in range(of)]
    return ts


def _result(rid):
    return dict(id=rid, paths=0, transitions=0, obligations=0, discharged=0, unknown=0, divergences=0, queries=0, display=0,
                aborted=0, solver_s=0.0, budget_exhausted=False, pins={}, ob_ids={}, funcs=[], samples=[], known_hits={},
                errors=[], validate=[], violations=[], info={})


def _solver(tier, *groups):
    s = z3.Solver()
    s.set("timeout", TIMEOUT_MS[tier])
    s.set("random_seed", SEED)
    for g in groups:
        s.add(*g)
    return s


def _check(res, s, label, N, ndefs):
    t0 = time.time()
    r = str(s.check())
    dt = time.time() - t0
    res["queries"] += 1
    res["paths"] += 1
    res["solver_s"] += dt
    res["samples"].append({"N": N, "query": label, "definitions": ndefs, "result": r, "seconds": round(dt, 3)})
    return r


def _query(res, tier, label, N, ndefs, *groups):
    """one fresh (non-incremental) solver per question -> (result, model or None)"""
    s = _solver(tier, *groups)
    r = _check(res, s, label, N, ndefs)
    return r, (s.model() if r == "sat" else None)


def _obligation(res, ob, r):
    """the last query asked is the obligation `ob`: unsat discharges it, unknown/timeout is inconclusive, sat is a candidate"""
    res["info"].setdefault("obligation_queries", []).append({"obligation": ob, **res["samples"][-1]})
    res["obligations"] += 1
    res["ob_ids"][ob] = res["ob_ids"].get(ob, 0) + 1
    if r == "unsat":
        res["discharged"] += 1
    elif r != "sat":
        res["unknown"] += 1


def _witness(check, text):
    return {"check": f"c06.{check}", "args": {"text": text}}


def _funcs(real):
    return sorted({f"celpy/cel.lark:{p[0]}" for p in real.prods}) + ["celpy/celparser.py:CELParser.__init__"]


# ----------------------------------------------------------------------------- symbolic layout (engine E1 on the real Lark lexer)
# templates: literal text with holes; W = one layout character (blank, tab, newline, carriage return, form feed), C = one character of a
# // comment (anything but a line feed), S = one character inside a string literal (anything but the quote, backslash, line breaks)
SYMLEX = {
    "blank-between-tokens": ("a{W}+{W}b", "a + b"), "blank-around": ("{W}a * (b - 1){W}", "a * (b - 1)"), "blank-in-call": ("f({W}a,{W}b{W})", "f(a, b)"),
    "blank-run": ("a{W}{W}?{W}b : c", "a ? b : c"), "comment-1": ("a //{C}\n+ b", "a + b"), "comment-2": ("a //{C}{C}\n+ b", "a + b"),
    "comment-at-end": ("a + b //{C}{C}", "a + b"), "comment-after-comment": ("a //{C}\n//{C}\n&& b", "a && b"), "comment-then-blank": ("a //{C}\n{W}|| !b", "a || !b"),
    "comment-in-list": ("[a, //{C}{C}\n b]", "[a, b]"), "string-body": ('x == "p{S}q"', None), "string-body-2": ("x == 'p{S}{S}'", None),
    "keyword-then-blank": ("true{W}? null : false", "true ? null : false"), "in-operator": ("a{W}in{W}[b]", "a in [b]"),
}


def _symlex(E, real, task, res, kf):
    """the real Lark lexer and LALR driver on a source with symbolic layout characters: for ALL choices of the blank characters, of the
    characters inside // comments and inside string literals, the tree is the tree of the canonical single-space source (the literal's
    token holding exactly the spelled characters)"""
    from .. import explore
    from ..explore import Harness, Ob
    from ..sym import larkshim
    from ..sym.strs import SStr, mks, cterms
    from . import common
    celpy, ct, ev = common.mods()
    import celpy.celparser as cp
    from ..oracles import c06 as O
    common.make_program("1", "interp")
    parser = cp.CELParser()
    larkshim.install(larkshim.parser_of(parser, cp))
    fam = task["family"]
    tpl, canon = SYMLEX[fam]
    terms, names, kinds = [], [], []
    import re as _re
    for part in _re.split(r"(\{[WCS]\})", tpl):
        if _re.fullmatch(r"\{[WCS]\}", part):
            n = f"h{len(names)}"
            names.append(n)
            kinds.append(part[1])
            terms.append(z3.Int(n))
        else:
            terms += [z3.IntVal(ord(ch)) for ch in part]
    vars = {n: z3.Int(n) for n in names}
    pre = []
    for n, k in zip(names, kinds):
        v = vars[n]
        pre += [v >= 0, v <= 0x10FFFF, z3.Not(z3.And(v >= 0xD800, v <= 0xDFFF))]
        if k == "W":
            pre.append(z3.Or([v == c for c in (32, 9, 10, 13, 12)]))
        elif k == "C":
            pre.append(v != 10)
        else:
            pre += [v != 10, v != 13, v != 92, v != 34, v != 39]
    want = O.canon(parser.parse(canon)) if canon else None
    hole_pos = [i for i, t in enumerate(terms) if not z3.is_int_value(t)]

    def conc(vals):
        return "".join(chr(vals[str(t)]) if not z3.is_int_value(t) else chr(t.as_long()) for t in terms)

    def run(vals):
        text = mks(SStr, terms, conc(vals))
        try:
            tree = parser.parse(text)
        except cp.CELParseError as ex:
            return [Ob(f"C06/layout/{fam}/parses", z3.BoolVal(False), note=f"parse error at {ex.line}:{ex.column} for {conc(vals)!r}")]
        if want is not None:
            got = O.canon(tree)
            return [Ob(f"C06/layout/{fam}/same-tree", z3.BoolVal(got == want), note=f"{conc(vals)!r} parses to {got!r}, the canonical source {canon!r} to {want!r}")]
        # string family: the literal token must hold exactly the spelled characters (terms), the rest of the tree is `x == <literal>`
        toks = [t for t in tree.scan_values(lambda v: True) if getattr(t, "type", "") == "STRING_LIT"]
        if len(toks) != 1:
            return [Ob(f"C06/layout/{fam}/one-literal", z3.BoolVal(False), note=f"{len(toks)} string tokens")]
        q = tpl.index("{S}") - 2
        # Lark's Token copies the matched text (a plain str): the token is identified by its span in the source
        ok = toks[0].start_pos == q and toks[0].end_pos == len(terms) and len(toks[0]) == len(terms) - q
        return [Ob(f"C06/layout/{fam}/literal-text", z3.BoolVal(ok),
                   note=f"the string token spans source[{toks[0].start_pos}:{toks[0].end_pos}], the spelled literal source[{q}:{len(terms)}]")]

    def witness(vals):
        return {"check": "c06.layout", "args": {"text": [ord(c) for c in conc(vals)], "canonical": canon, "holes": hole_pos}}

    h = Harness(id=f"C06/layout/{fam}", vars=vars, pre=pre, run=run, witness=witness, max_paths=400)
    r = explore.explore(h, kf).to_dict()
    for k in ("paths", "transitions", "obligations", "discharged", "unknown", "divergences", "queries", "display", "aborted", "solver_s"):
        res[k] = r.get(k, res.get(k, 0))
    for k in ("pins", "ob_ids", "samples", "known_hits", "errors", "validate", "violations"):
        res[k] = r.get(k, res[k])
    res["budget_exhausted"] = r.get("budget_exhausted", False)
    res["funcs"] += ["celpy/celparser.py:CELParser.parse", "lark lexer loop + LALR driver (pure Python) via vf/sym/larkshim.py"]


def run_task(task, kf):
    from ..cfgsat import encode as E
    real = E.Real()
    res = _result(f"C06/{task['q']}/N={task['N']}" + ("/part=%d.%d" % tuple(task["part"]) if task.get("part", [0, 1])[1] > 1 else "")
                  + (f"/alphabet={task['alphabet']}" if task.get("alphabet") else ""))
    res["funcs"] = _funcs(real)
    if real.conflicts:
        res["info"]["lalr_conflicts"] = real.conflicts[:10]
    {"structure": _structure, "language": _language, "ambiguity": _ambiguity, "dump": _dump, "cover": _cover,
     "lexer": _lexer, "dumpfam": _dumpfam, "symlex": _symlex}[task["q"]](E, real, task, res, kf)
    res["solver_s"] = round(res["solver_s"], 3)
    return [res]


# ----------------------------------------------------------------------------- q1: same operator structure
def _alphabet(real, P, task):
    """constraints restricting every token to the task's alphabet (none for unrestricted tasks)"""
    name = task.get("alphabet")
    if not name:
        return []
    ids = [P.tid[real.pat2name.get(a, a)] for a in ALPHABETS[name] if real.pat2name.get(a, a) in P.tid]
    return [z3.Or([w == i for i in ids]) for w in P.W]


def _structure(E, real, task, res, kf):
    N, tier = task["N"], task["tier"]
    P = E.Problem(real, N)
    Fg, Fr = E.structure(P.G, P.eg), E.structure(P.Rg, P.er)
    part, of = task.get("part", (0, 1))
    keys = sorted(k for k in set(Fg) | set(Fr) if k[1] % of == part)     # facts anchored at this task's token positions
    F = z3.BoolVal(False)
    diff = z3.Or([z3.Xor(Fg.get(k, F), Fr.get(k, F)) for k in keys]) if keys else F
    ndefs = len(P.eg.defs) + len(P.er.defs)
    res["transitions"] = ndefs
    both = [P.base, P.eg.defs, P.er.defs, [P.eg.acc, P.er.acc], _alphabet(real, P, task)]
    r, m = _query(res, tier, "q1 exists w in L(G) & L(R) with facts_G(w) != facts_R(w)", N, ndefs, *both, [diff])
    res["samples"][-1]["operator_facts"] = len(keys)
    _obligation(res, "C06/structure", r)
    if m is not None:
        names = P.word(m)
        differing = [list(k) for k in keys if z3.is_true(m.eval(Fg.get(k, F), True)) != z3.is_true(m.eval(Fr.get(k, F), True))]
        res["violations"].append({"obligation": "C06/structure", "harness": res["id"],
                                  "witness": _witness("parse_structure", real.render(names)[0]),
                                  "inputs": {"tokens": names, "facts_differing": differing[:8]},
                                  "note": "token string accepted by cel.lark and by the CEL grammar with different operator structure"})
    # sampled words of L(G) & L(R): solver-model facts vs the tree the real LALR parser builds; oracle replay by the driver
    kinds = sorted({k[0] for k in Fg})
    kinds = kinds[part::of][:3] if of > 1 else [kinds[(N + n * max(1, len(kinds) // 4)) % len(kinds)] for n in range(min(4, len(kinds)))]
    for kind in kinds:
        r, m = _query(res, tier, f"sample word containing a {kind} node", N, ndefs, *both,
                      [z3.Or([v for k, v in Fg.items() if k[0] == kind])])
        if m is not None:
            names = P.word(m)
            _compare_with_real_tree(E, real, P.G, names, {k for k, v in Fg.items() if z3.is_true(m.eval(v, True))}, res)
            res["validate"].append(_witness("parse_structure", real.render(names)[0]))


def _compare_with_real_tree(E, real, G, names, model_facts, res):
    text, offs = real.render(names)
    try:
        tree = real.parser.parse(text)
    except real.celpy.CELParseError as ex:
        res["errors"].append(f"encoding says {text!r} is in L(G) but the LALR parser rejects it: {str(ex.args[0])[:120]}")
        return
    tf, unmatched = E.tree_facts(real, G, names, offs, tree)
    inlined = {p[0] for p in G.prods if any(s.startswith("__") for s in p[1])}
    bad = sorted(set(unmatched) - inlined)
    if tf != model_facts or bad:
        res["errors"].append(f"encoding and real parse tree disagree on {text!r}: only in model {sorted(model_facts - tf)[:4]}, "
                             f"only in tree {sorted(tf - model_facts)[:4]}, unmatched nodes {bad[:4]}")
    res["info"]["tree_fact_comparisons"] = res["info"].get("tree_fact_comparisons", 0) + 1


# ----------------------------------------------------------------------------- q2: L(R) subset of L(G); converse reported
def _language(E, real, task, res, kf):
    N, tier = task["N"], task["tier"]
    P = E.Problem(real, N)
    ndefs = len(P.eg.defs) + len(P.er.defs)
    res["transitions"] = ndefs
    defs = [P.base, P.eg.defs, P.er.defs, _alphabet(real, P, task)]
    r, m = _query(res, tier, "q2 exists w in L(R) \\ L(G)", N, ndefs, *defs, [P.er.acc, z3.Not(P.eg.acc)])
    _obligation(res, "C06/ref-accepted-real-rejects", r)
    if m is not None:
        names = P.word(m)
        res["violations"].append({"obligation": "C06/ref-accepted-real-rejects", "harness": res["id"],
                                  "witness": _witness("parse_structure", real.render(names)[0]), "inputs": {"tokens": names},
                                  "note": "CEL expression that cel.lark does not derive"})
    r, m = _query(res, tier, "evidence only: exists w in L(G) \\ L(R)", N, ndefs, *defs, [P.eg.acc, z3.Not(P.er.acc)])
    res["info"]["converse"] = {"N": N, "result": r, **({"example": real.render(P.word(m))[0]} if m is not None else {})}
    r, m = _query(res, tier, "sample word of L(G) & L(R)", N, ndefs, *defs, [P.eg.acc, P.er.acc])
    if m is not None:
        res["validate"].append(_witness("parse_structure", real.render(P.word(m))[0]))


# ----------------------------------------------------------------------------- q3: ambiguity
def _ambiguity(E, real, task, res, kf):
    N, tier = task["N"], task["tier"]
    P = E.Problem(real, N)
    ndefs = len(P.eg.defs)
    res["transitions"] = ndefs
    r, m = _query(res, tier, "q3 exists w with two parse trees in G", N, ndefs, P.base, P.eg.defs, [P.eg.acc, E.ambiguity(P.G, P.eg)])
    _obligation(res, "C06/ambiguity", r)
    if m is not None:
        names = P.word(m)
        res["violations"].append({"obligation": "C06/ambiguity", "harness": res["id"],
                                  "witness": _witness("unambiguous", real.render(names)[0]), "inputs": {"tokens": names},
                                  "note": "two distinct in-tree production applications at one node"})
    else:
        r, m = _query(res, tier, "sample word of L(G)", N, ndefs, P.base, P.eg.defs, [P.eg.acc])
        if m is not None:
            res["validate"].append(_witness("unambiguous", real.render(P.word(m))[0]))
    # the reference must itself be unambiguous, or q1's facts (a union over parses) would not mean what they say
    r, _ = _query(res, tier, "sanity: exists w with two parse trees in R", N, len(P.er.defs), P.base, P.er.defs,
                  [P.er.acc, E.ambiguity(P.Rg, P.er)])
    if r != "unsat":
        res["errors"].append(f"reference grammar ambiguity check at N={N}: {r}")


# ----------------------------------------------------------------------------- dump round trip on enumerated solver models
from ..cfgsat.encode import VARIANTS as E_VARIANTS  # noqa: E402


class _Dump:
    """runs the concrete round-trip oracle on solver models; failures are grouped by a signature of the word's shape so that
    one defect does not crowd out another (one violation candidate per signature and task)"""

    def __init__(self, real, P, res, kf):
        self.real, self.P, self.res, self.kf = real, P, res, kf
        self.words = self.failures = self.known = 0
        self.seen = set()
        # names a known-finding region may use: has_<rule> (a node of that rule occurs in the parse), empty_list, empty_map,
        # int_then_dot (an INT_LIT token directly followed by '.': the dump glues them into a float prefix)
        by = {}
        for pidx, i, j, spl, a in P.eg.apps:
            A, syms, _ = P.G.prods[pidx]
            by.setdefault("has_" + A, []).append(a)
            if A in ("list_lit", "map_lit") and len(syms) == 2:
                by.setdefault("empty_list" if A == "list_lit" else "empty_map", []).append(a)
        tid = P.tid
        if "INT_LIT" in tid and "DOT" in tid:
            by["int_then_dot"] = [z3.And(P.W[i] == tid["INT_LIT"], P.W[i + 1] == tid["DOT"]) for i in range(P.N - 1)]
        self.vars = {"has_" + A: z3.BoolVal(False) for A in P.G.nts}
        self.vars.update({k: z3.BoolVal(False) for k in ("empty_list", "empty_map", "int_then_dot")})
        self.vars.update({k: z3.Or(v) for k, v in by.items() if v})
        self.features = ["empty_list", "empty_map", "int_then_dot"] + sorted(k for k in self.vars if k.startswith("has___"))

    def __call__(self, m):
        from ..oracles import c06 as O
        names = self.P.word(m)
        text, _ = self.real.render(names)
        self.words += 1
        ok, detail = O.dump_roundtrip(text, fresh=False)   # this process built the parser itself, once
        if ok and any(n in E_VARIANTS for n in names):
            # the same word with its literal terminals in alternative spellings (one variant per word, rotating); a spelling the
            # live parser rejects round-trips vacuously (literal forms are C07's subject)
            vtext, _ = self.real.render(names, variant=1 + self.words % 6)
            ok, detail = O.dump_roundtrip(vtext, fresh=False)
            if not ok:
                text = vtext
        if ok:
            return
        ob = types.SimpleNamespace(id="C06/dump-roundtrip", observe={})
        hits = self.kf.match(ob, m, self.vars) if self.kf is not None else []
        for e, _ in hits:
            self.res["known_hits"].setdefault(e["id"], {"text": e["text"], "witness": _witness("dump_roundtrip", text),
                                                        "obligation": ob.id})
        if hits:
            self.known += 1
            return
        self.failures += 1
        sig = tuple(f for f in self.features if z3.is_true(m.eval(self.vars[f], True)))
        if sig not in self.seen:
            self.seen.add(sig)
            self.res["violations"].append({"obligation": ob.id, "harness": self.res["id"], "witness": _witness("dump_roundtrip", text),
                                           "inputs": {"tokens": names, "shape": list(sig)},
                                           "note": "found by enumeration of solver models, not a solver verdict: " + detail[:200]})

    def close(self, unknown, what):
        res = self.res
        res["obligations"] += 1
        res["ob_ids"]["C06/dump-roundtrip"] = res["ob_ids"].get("C06/dump-roundtrip", 0) + 1
        if unknown:
            res["unknown"] += 1
        elif not self.failures:
            res["discharged"] += 1
        return {"words_round_tripped": self.words, "failures": self.failures, "failures_in_known_findings": self.known,
                "failure_shapes": [list(x) for x in sorted(self.seen)], "kind": "enumeration of solver models, not a solver verdict",
                **what}


def _dump(E, real, task, res, kf):
    N, tier = task["N"], task["tier"]
    part, of = task.get("part", (0, 1))
    P = E.Problem(real, N, want_ref=False)
    res["funcs"] += ["celpy/celparser.py:tree_dump", "celpy/celparser.py:DumpAST"]
    res["transitions"] = len(P.eg.defs)
    drop = [t for t in real.terms if t.endswith("_LIT") and t not in DUMP_LITERALS]
    s = _solver(tier, P.base, P.eg.defs, [P.eg.acc], [w != P.tid[t] for w in P.W for t in drop],
                [z3.URem(P.W[0], of) == part] if of > 1 else [])
    d = _Dump(real, P, res, kf)
    r = "sat"
    while d.words < DUMP_K[tier]:
        r = _check(res, s, "next word of L(G) (blocking clauses)", N, len(P.eg.defs))
        if r != "sat":
            break
        m = s.model()
        d(m)
        s.add(P.block(m))
    res["samples"] = res["samples"][:2] + res["samples"][-1:]
    res["budget_exhausted"] = r == "sat"
    res["info"]["dump"] = d.close(r == "unknown", {"N": N, "part": f"{part + 1}/{of}", "language_exhausted": r == "unsat"})


def _dumpfam(E, real, task, res, kf):
    """dump round trip on a targeted word family (enumeration of solver models): a parenthesised atom or negated atom
    followed by member / index / call / object suffixes, e.g. `( 1 ) . f ( )`, `( - a ) [ 0 ]`"""
    tier = task["tier"]
    res["funcs"] += ["celpy/celparser.py:tree_dump", "celpy/celparser.py:DumpAST"]
    drop = [t for t in real.terms if t.endswith("_LIT") and t not in DUMP_LITERALS + ("UINT_LIT", "FLOAT_LIT")]
    total = 0
    for N in range(4, task["N"] + 1):
        P = E.Problem(real, N, want_ref=False)
        res["transitions"] += len(P.eg.defs)
        lp, rp, mn = P.tid[real.pat2name["("]], P.tid[real.pat2name[")"]], P.tid[real.pat2name["-"]]
        shape = z3.Or(z3.And(P.W[0] == lp, P.W[2] == rp), z3.And(P.W[0] == lp, P.W[1] == mn, P.W[3] == rp) if N > 4 else z3.BoolVal(False))
        small = [P.tid[real.pat2name.get(a, a)] for a in ("(", ")", "-", "INT_LIT", "IDENT", "STRING_LIT", ".", "[", "]", "{", "}", "+")]
        s = _solver(tier, P.base, P.eg.defs, [P.eg.acc, shape], [w != P.tid[t] for w in P.W for t in drop],
                    [z3.Or([w == i for i in small]) for w in P.W])
        d = _Dump(real, P, res, kf)
        r = "sat"
        while d.words < 1500:
            r = _check(res, s, "next word `( atom ) suffix` of L(G) (blocking clauses)", N, len(P.eg.defs))
            if r != "sat":
                break
            m = s.model()
            d(m)
            s.add(P.block(m))
        total += d.words
        res["info"].setdefault("dump_families", []).append(d.close(r == "unknown", {"N": N, "family": "( [-] atom ) suffix", "language_exhausted": r == "unsat"}))
    res["samples"] = res["samples"][:2] + res["samples"][-1:]


def _cover(E, real, task, res, kf):
    """one shortest word per production of G (production in the parse tree), dumped and re-parsed"""
    tier = task["tier"]
    res["funcs"] += ["celpy/celparser.py:tree_dump", "celpy/celparser.py:DumpAST"]
    todo, covered, unknown = set(range(len(real.prods))), {}, False
    tot = dict(words=0, failures=0, known=0, shapes=set())
    for N in range(1, task["N"] + 1):
        if not todo:
            break
        P = E.Problem(real, N, want_ref=False)
        res["transitions"] += len(P.eg.defs)
        s = _solver(tier, P.base, P.eg.defs, [P.eg.acc])
        d = _Dump(real, P, res, kf)
        d.seen = tot["shapes"]
        by = {}
        for pidx, i, j, spl, a in P.eg.apps:
            by.setdefault(pidx, []).append(a)
        for pidx in sorted(todo & set(by)):
            s.push()
            s.add(z3.Or(by[pidx]))
            r = _check(res, s, f"word whose parse uses production {pidx}", N, len(P.eg.defs))
            m = s.model() if r == "sat" else None
            s.pop()
            unknown |= r == "unknown"
            if m is not None:
                todo.discard(pidx)
                covered[pidx] = N
                d(m)
        tot["words"] += d.words; tot["failures"] += d.failures; tot["known"] += d.known
    res["samples"] = res["samples"][:1] + res["samples"][-2:]
    d.words, d.failures, d.known = tot["words"], tot["failures"], tot["known"]
    show = lambda p: f"{real.prods[p][0]} -> {' '.join(real.prods[p][1])}"
    res["info"]["production_coverage"] = d.close(unknown, {"productions": len(real.prods), "covered": len(covered),
                                                          "max_tokens": task["N"], "not_reached": [show(p) for p in sorted(todo)]})


# ----------------------------------------------------------------------------- lexer callback + LALR construction log
def _lexer(E, real, task, res, kf):
    from ..oracles import c06 as O
    res["funcs"].append("celpy/celparser.py:CELParser.ambiguous_literals")
    words = ["true", "false", "null", "True", "FALSE", "truex", "xtrue", "t", "in", "tru", "false_", "_true", "as", "a"]
    bad = [w for w in words if not O.bool_literal_callback(w)[0]]
    res["paths"] += len(words)
    res["transitions"] = len(words)
    res["obligations"] += 1
    res["ob_ids"]["C06/bool-literal-callback"] = 1
    res["samples"].append({"kind": "enumeration", "check": "CELParser.ambiguous_literals(Token('IDENT', v)) is BOOL_LIT iff v in "
                           "{true,false}", "values": words, "failed": bad})
    if bad:
        res["violations"].append({"obligation": "C06/bool-literal-callback", "harness": res["id"],
                                  "witness": {"check": "c06.bool_literal_callback", "args": {"value": bad[0]}},
                                  "inputs": {"value": bad[0]}, "note": "enumeration"})
    else:
        res["discharged"] += 1
    for text in ("true", "false", "null", "true ? false : null", "! true", "[ null , false ]"):
        res["validate"].append(_witness("parse_structure", text))
    try:
        states = len(real.lark.parser.parser._parse_table.states)
    except AttributeError:
        states = None
    res["info"]["lalr"] = {"log_records": len(real.lalr_log), "conflict_records": real.conflicts[:10],
                           "productions": len(real.prods), "terminals": len(real.terms),
                           "states": states}


def extra_coverage(results, tier):
    info = [r.get("info", {}) for r in results]
    conflicts = sorted({c for i in info for c in i.get("lalr_conflicts", [])})
    return {
        "max_tokens": NMAX[tier],
        "obligation_queries_at_max_tokens": [q for i in info for q in i.get("obligation_queries", []) if q["N"] == NMAX[tier]],
        "converse_inclusion (real accepts, CEL grammar rejects; reported, not alarmed)":
            sorted((i["converse"] for i in info if "converse" in i), key=lambda c: c["N"]),
        "dump_round_trip_enumeration": sorted((i["dump"] for i in info if "dump" in i), key=lambda d: d["N"]),
        "dump_production_coverage": next((i["production_coverage"] for i in info if "production_coverage" in i), None),
        "lalr_construction": next((i["lalr"] for i in info if "lalr" in i), None),
        "lalr_shift_reduce_resolutions_logged": conflicts,
        "model_facts_vs_real_tree_comparisons": sum(i.get("tree_fact_comparisons", 0) for i in info),
    }


MANIFEST = {
    "text": "Bounded SAT/SMT (z3, bit-vector tokens): the productions Lark actually compiled from cel.lark and a reference CEL grammar are CYK-encoded over every token string "
            "of length <= N; z3 proves there is no string on which the two assign different operator structure (precedence, associativity of every operator pair/triple that "
            "fits), none the reference accepts and the real grammar rejects, and no ambiguity. Every sat witness is rendered to text and replayed through the real parser "
            "against an independent precedence-climbing parser. AST-dump round trip: enumeration of solver models (labelled as enumeration).",
    "note": "Bounds: N tokens (7 quick, 10 thorough). Outside: lexing (C re), strings longer than N, LALR table = productions (LR theory + conflict-log check + sampled model/tree comparison).",
    "technique": "bounded SAT encoding (CYK-style, z3 bit-vectors) of the compiled grammar vs a reference grammar; witness replay on the real parser",
    "design_ref": "DESIGN.md §3.1, §7 C06",
}


def extra_validation():
    """enumeration (labelled): layout-sensitive neighbours parsed in sequence by one parser"""
    seqs = [['size("a  b")', 'size("a b")'], ["x // c\n + 1", "x // c + 1"], ["'a\tb' + 'a b'", "'a b' + 'a b'"], ["1 +\n2", "1 + 2", "1  +  2"],
            ["a ? b : c", "a ? b :c", "a?b:c"], ['"x  " + y', '"x " + y', '"x" + y'], ["f(a, b) // t\n.g()", "f(a, b) // t .g()"], ["[1, 2][0]", "[1,2] [0]"],
            ["1 // one\n + 2 // two\n + 4"], ["// lead\n1 + 2 // trail"], ["x > 1 // lo\n && x < 10 // hi"], ["a // 1\n// 2\n// 3\n+ b"], ["f(a, // x\n b // y\n)"],
            ["1 // one\n\n + 2 // two"], ["// only a comment\n// and another\nx"]]
    # the same text compiled, evaluated under both runner classes, and compiled again by the same Environment (enumeration)
    used = ["f()", "f() + 1", "x.g()", "[f(), f()]", "f(x)", "has(m.k)", "dyn(x)", "[1, 2].map(y, y + f())", "x > 0 ? f() : 1", "m.k + x", "size([x])", "!g()", "-x", "{'a': f()}",
            "[x].exists(y, g())", "timestamp('2020-01-01T00:00:00Z').getHours()", "x in [1, 2, 3]", "f() == f() || g()"]
    return [{"check": "c06.layout_sequence", "args": {"texts": t}} for t in seqs] + [{"check": "c06.reparse_after_use", "args": {"text": t}} for t in used]
