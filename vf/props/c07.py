"""C07 literals denote the values they spell."""
import itertools

import z3

from .. import explore
from ..explore import Harness, Ob
from ..refsem import MIN64, MAX64, MAXU64
from ..sym import regex
from ..sym.core import SInt, mk, tm, is_sym
from ..sym.strs import SStr, SBytes, mks, cterms, bterms, s_is_sym, sraw
from . import common
from ..replay import enc

PROP = "C07"
LEVEL = "model_checking"
FIDELITY_TESTS = ["tests"]
BOUNDS = {
    "quick": {"string/bytes literals": "every quoting style (\", ', \"\"\", ''', r/R raw, b/B bytes, br raw bytes) x every sequence of <= 2 items from {plain character, simple escape, "
                                       "\\xHH, \\uHHHH, \\UHHHHHHHH, \\ooo} (+ newline / lone quote inside triple-quoted); item data (code point, escape letter, hex/octal digits) symbolic",
              "numbers": "decimal int/uint of 1..20 digits with optional sign and leading zeros, hex 1..17 digits; all digit values symbolic",
              "lexer": "the root-state scanner pattern taken from the live Lark object is run through the regex shim on the same symbolic text",
              "compiled runner": "one concrete representative per explored path (program text cannot be symbolic)"},
    "thorough": {"string/bytes literals": "<= 3 items per literal (4 for the double-quoted style)", "numbers": "same", "lexer": "same", "compiled runner": "same"},
}
OUTSIDE = ["floating-point literals: DoubleType(text) is a one-line call into C strtod; checked on concrete spellings only (enumeration, labelled)",
           "which lexer state the parser is in (taken as the expression-start state)",
           "\\u / \\U escapes inside bytes literals and surrogate code points (the statement does not define them)",
           "literals longer than the item bound"]
ASSUMPTIONS = ["the whole literal is one token (discharged separately by obligation C07/lexer/* on the scanner pattern)",
               "plain characters are Unicode scalar values other than the style's delimiter, backslash (non-raw) and CR/LF (single-line styles)"]
TRUSTED = ["z3 5.1", "CPython 3.12 re (the shim is generated from the real pattern and asserted equal to re on every match)", "vf.sym shadows"]
MANIFEST = {
    "text": "The real decoders (celstr, celbytes, CEL_ESCAPES_PAT, Evaluator.literal, IntType/UintType text constructors) and the real root-state scanner regex of the live Lark "
            "lexer are executed on symbolic literal text: for every quoting style and item-kind sequence within the bound z3 proves that the scanner consumes exactly the literal as "
            "the right terminal and that the decoded code points / octets / number equal the spelled ones, for ALL payload characters, escape letters and digits.",
    "note": "Shapes (style x item kinds) enumerated, payload symbolic. The regex shim is regenerated from the pattern text of the running tree and validated against `re` on every match. "
            "Compiled-runner literals are concrete per path (stated).",
    "technique": "symbolic execution of the real decoder byte-code + symbolic regex matching generated from the real patterns + z3; counterexample replay",
    "design_ref": "DESIGN.md §7 C07",
}

SIMPLE = {"a": 7, "b": 8, "f": 12, "n": 10, "r": 13, "t": 9, "v": 11, "\\": 92, '"': 34, "'": 39}
STYLES = {
    # name: (prefix, quote, raw, bytes, multiline)
    "dq": ("", '"', False, False, False), "sq": ("", "'", False, False, False),
    "tdq": ("", '"""', False, False, True), "tsq": ("", "'''", False, False, True),
    "rdq": ("r", '"', True, False, False), "Rsq": ("R", "'", True, False, False), "rtdq": ("r", '"""', True, False, True),
    "bdq": ("b", '"', False, True, False), "Bsq": ("B", "'", False, True, False), "btdq": ("b", '"""', False, True, True),
    "brdq": ("br", '"', True, True, False), "bRsq": ("bR", "'", True, True, False),
}
KINDS = ["plain", "simple", "x", "u", "U", "oct"]


def hexval(t):
    # digit value of a code point already constrained to [0-9A-Fa-f] (same case analysis as the shadow's int(text, 16))
    return z3.If(t <= 57, t - 48, z3.If(t <= 90, t - 55, t - 87))


def ishex(t):
    return z3.Or(z3.And(t >= 48, t <= 57), z3.And(t >= 65, t <= 70), z3.And(t >= 97, t <= 102))


def utf8_terms(c):
    """list of (condition, [octet terms]) alternatives for the UTF-8 encoding of code point term c"""
    return [
        (c < 0x80, [c]),
        (z3.And(c >= 0x80, c < 0x800), [0xC0 + c / 64, 0x80 + c % 64]),
        (z3.And(c >= 0x800, c < 0x10000), [0xE0 + c / 4096, 0x80 + (c / 64) % 64, 0x80 + c % 64]),
        (c >= 0x10000, [0xF0 + c / 262144, 0x80 + (c / 4096) % 64, 0x80 + (c / 64) % 64, 0x80 + c % 64]),
    ]


def build(style, kinds):
    """(vars, pre, literal terms, expected items) ; expected item = ('cp', term) code point"""
    prefix, q, raw, is_bytes, multi = STYLES[style]
    vs, pre, lit, exp = {}, [], [], []

    def var(n):
        v = z3.Int(n)
        vs[n] = v
        return v
    lit += [z3.IntVal(ord(c)) for c in prefix + q]
    for i, k in enumerate(kinds):
        if k == "plain":
            c = var(f"c{i}")
            pre += [c >= 0, c <= 0x10FFFF, z3.Not(z3.And(c >= 0xD800, c <= 0xDFFF)), c != ord(q[0])]
            if not raw or i == len(kinds) - 1:
                pre.append(c != 92)
            if raw and i < len(kinds) - 1 and kinds[i + 1] != "plain":
                pre.append(c != 92)
            if not multi:
                pre += [c != 10, c != 13]
            lit.append(c)
            exp.append(c)
        elif k == "bs":
            # a backslash in a raw literal is an ordinary character (also as the last one before the closing quote)
            lit.append(z3.IntVal(92))
            exp.append(z3.IntVal(92))
        elif k in ("us", "Us"):
            # an escape spelling a surrogate code point: an evaluation error or exactly that code point (never a merged pair)
            n = 4 if k == "us" else 8
            ds = [var(f"h{i}_{j}") for j in range(n)]
            pre += [ishex(d) for d in ds]
            val = z3.IntVal(0)
            for d in ds:
                val = val * 16 + hexval(d)
            pre += [val >= 0xD800, val <= 0xDFFF]
            lit += [z3.IntVal(92), z3.IntVal(ord(k[0]))] + ds
            exp.append(val)
        elif k == "nl":
            lit.append(z3.IntVal(10))
            exp.append(z3.IntVal(10))
        elif k == "quote":
            # a lone quote character inside a triple-quoted literal (followed by a non-quote)
            lit.append(z3.IntVal(ord(q[0])))
            exp.append(z3.IntVal(ord(q[0])))
        elif k == "simple":
            c = var(f"e{i}")
            pre.append(z3.Or([c == ord(x) for x in SIMPLE]))
            lit += [z3.IntVal(92), c]
            e = z3.IntVal(0)
            for x, v in SIMPLE.items():
                e = z3.If(c == ord(x), z3.IntVal(v), e)
            exp.append(e)
        elif k in ("x", "u", "U"):
            n = {"x": 2, "u": 4, "U": 8}[k]
            ds = [var(f"h{i}_{j}") for j in range(n)]
            pre += [ishex(d) for d in ds]
            val = z3.IntVal(0)
            for d in ds:
                val = val * 16 + hexval(d)
            pre += [val <= 0x10FFFF, z3.Not(z3.And(val >= 0xD800, val <= 0xDFFF))]
            lit += [z3.IntVal(92), z3.IntVal(ord(k))] + ds
            exp.append(val)
        elif k == "oct":
            ds = [var(f"o{i}_{j}") for j in range(3)]
            pre += [z3.And(d >= 48, d <= 55) for d in ds] + [ds[0] <= 51]
            lit += [z3.IntVal(92)] + ds
            exp.append((ds[0] - 48) * 64 + (ds[1] - 48) * 8 + (ds[2] - 48))
    lit += [z3.IntVal(ord(c)) for c in q]
    return vs, pre, lit, exp


def shapes(tier):
    out = []
    mx = {"quick": 2, "thorough": 3}[tier]
    for style, (prefix, q, raw, is_bytes, multi) in STYLES.items():
        pool = ["plain"] if raw else (["plain", "simple", "x", "oct"] if is_bytes else KINDS)
        top = mx + 1 if (style == "dq" and tier == "thorough") else mx
        for n in range(0, top + 1):
            for kinds in itertools.product(pool, repeat=n):
                out.append((style, kinds))
        if raw:
            for kinds in (("bs",), ("plain", "bs"), ("bs", "plain"), ("bs", "bs"), ("plain", "bs", "plain"), ("bs", "plain", "bs")):
                out.append((style, kinds))
        if not raw and not is_bytes:
            for kinds in (("us",), ("us", "us"), ("us", "plain"), ("plain", "us"), ("Us", "Us"), ("us", "Us"), ("us", "plain", "us")):
                out.append((style, kinds))
        if multi:
            for kinds in (("nl",), ("plain", "nl"), ("nl", "plain"), ("quote", "plain"), ("plain", "quote", "plain"), ("nl", "nl")):
                if raw and "quote" in kinds:
                    continue
                out.append((style, kinds))
    return out


NUM_SHAPES = [("int", "dec", n, sign, lz) for n in (1, 2, 5, 10, 18, 19, 20) for sign in ("", "-") for lz in (False, True) if not (lz and n == 1)] + \
             [("uint", "dec", n, "", lz) for n in (1, 3, 19, 20) for lz in (False, True) if not (lz and n == 1)] + \
             [("int", "hex", n, sign, False) for n in (1, 2, 8, 15, 16, 17) for sign in ("", "-")] + \
             [("uint", "hex", n, "", False) for n in (1, 16, 17)] + \
             [("uint", "dec", n, "-", lz) for n in (1, 2, 3) for lz in (False, True) if not (lz and n == 1)] + [("uint", "hex", 1, "-", False), ("uint", "hex", 2, "-", False)]
FLOATS = ["0.0", "1.5", "-2.5e3", "1e10", "1E-7", ".5", "5.", "0.1", "123456789.123456789", "1.7976931348623157e308", "5e-324", "-0.0",
          "00.5", "1e+2", "9007199254740993.0", "0.30000000000000004", "1e400", "-1e400", "1.7976931348623159e308", "1e-400", "0e0", "1E400",
          "123456789012345678901234567890.0", "0.000000000000000000000000000001", "1.e2", "4.9e-324", "2.2250738585072011e-308"]


def tasks(tier):
    sh = shapes(tier)
    NT = 48
    ts = [{"what": "str", "tier": tier, "stride": i} for i in range(NT)]
    ts += [{"what": "num", "i": i} for i in range(len(NUM_SHAPES))]
    return ts


NT = 48


def run_task(task, kf):
    from ..sym import loader
    out = []
    if task["what"] == "str":
        first = True
        for style, kinds in shapes(task["tier"])[task["stride"]::NT]:
            out.append(explore.explore(_str_harness(style, kinds), kf, profile_root=loader.SRC if first else None))
            first = False
    else:
        out.append(explore.explore(_num_harness(*NUM_SHAPES[task["i"]]), kf, profile_root=loader.SRC))
    return out


_scanner = {}


def scanner():
    """the live root-state scanner pattern(s) of the Lark object, wrapped in shims (regenerated per process)"""
    if "p" not in _scanner:
        celpy, ct, ev = common.mods()
        common.make_program("1", "interp")
        L = celpy.CELParser.CEL_PARSER
        s0 = L.parser.parser._parse_table.start_states["expr"]
        bl = L.parser.lexer.lexers[s0]
        _scanner["p"] = [regex.SymPattern(m) for m in bl.scanner._mres]
    return _scanner["p"]


def lex_obligation(text, want_types, tag):
    """the scanner must consume exactly `text` as one of want_types"""
    for sp in scanner():
        m = sp.match(text, 0)
        if m is not None:
            ok = (m.end() == len(text)) and (m.lastgroup in want_types)
            return Ob(f"C07/lexer/{tag}", z3.BoolVal(ok), note=f"scanner matched {m.end()} of {len(text)} chars as {m.lastgroup}")
    return Ob(f"C07/lexer/{tag}", z3.BoolVal(False), note="scanner does not match the literal")


def _tree(tok):
    import lark
    m = lark.tree.Meta()
    m.line = m.column = m.end_line = 1
    m.end_column = len(tok) + 1
    m.start_pos, m.end_pos, m.empty = 0, len(tok), False
    return lark.Tree("literal", [tok], m)


def _str_harness(style, kinds):
    celpy, ct, ev = common.mods()
    import lark
    prefix, q, raw, is_bytes, multi = STYLES[style]
    vs, pre, lit, exp = build(style, kinds)
    ttype = "BYTES_LIT" if is_bytes else ("MLSTRING_LIT" if multi else "STRING_LIT")
    tag = f"{style}/{'+'.join(kinds) or 'empty'}"
    evaluator = ev.Evaluator(ast=None, activation=ev.Activation())

    def conc(vals):
        return "".join(chr(vals[str(t)]) if not z3.is_int_value(t) else chr(t.as_long()) for t in lit)

    # the same literal followed by an operator and a second literal of the same style: the token must end at the first
    tail = " + " + prefix + q + "y" + q
    tail_terms = [z3.IntVal(ord(c)) for c in tail]

    def run(vals):
        text = mks(SStr, lit, conc(vals))
        kindname = "string" if not is_bytes else "bytes"
        obs = [lex_obligation(text, (ttype,), kindname)]
        longer = mks(SStr, lit + tail_terms, conc(vals) + tail)
        ob2 = None
        for sp in scanner():
            m = sp.match(longer, 0)
            if m is not None:
                ob2 = Ob(f"C07/lexer/{kindname}-ends-at-closing-quote", z3.BoolVal(m.end() == len(text) and m.lastgroup == ttype),
                         note=f"in `<literal>{tail}` the first token must be the first literal: matched {m.end()} of {len(text)} chars as {m.lastgroup}",
                         tags={"raw_trailing_backslash": bool(raw and kinds and kinds[-1] == "bs")})
                break
        obs.append(ob2 or Ob(f"C07/lexer/{kindname}-ends-at-closing-quote", z3.BoolVal(False), note="scanner does not match"))
        tok = lark.Token(ttype, text)
        tree = _tree(tok)
        try:
            r = evaluator.literal(tree)
        except Exception as ex:  # noqa: BLE001
            return obs + [Ob(f"C07/{'bytes' if is_bytes else 'string'}/no-escape", z3.BoolVal(False), note=f"{type(ex).__name__}: {ex}"[:200],
                             tags={"exc": type(ex).__name__})]
        if isinstance(r, celpy.CELEvalError):
            if any(k in ("us", "Us") for k in kinds):
                return obs + [Ob("C07/string/surrogate-escape", z3.BoolVal(True), note="evaluation error for an escape that spells a surrogate code point")]
            return obs + [Ob(f"C07/{'bytes' if is_bytes else 'string'}/valid-literal-decodes", z3.BoolVal(False), note=f"error for a valid literal: {r.args[:1]}")]
        if is_bytes:
            got = bterms(r)
            # expected octets: UTF-8 of plain characters, the value itself for escapes
            alts = [([], z3.BoolVal(True))]
            for k, e in zip(kinds, exp):
                new = []
                if k in ("plain", "nl", "quote"):
                    for cond, octs in utf8_terms(e):
                        new += [(o + octs, z3.And(c, cond)) for o, c in alts]
                else:
                    new = [(o + [e], c) for o, c in alts]
                alts = new
            ok = z3.Or([z3.And([c] + [g == o for g, o in zip(got, octs)]) for octs, c in alts if len(octs) == len(got)] or [z3.BoolVal(False)])
            obs.append(Ob(f"C07/bytes/octets", ok, note="spelled octets (UTF-8 for unescaped characters)", tags={"style": style}))
        else:
            got = cterms(r)
            if len(got) != len(exp):
                obs.append(Ob(f"C07/string/code-points", z3.BoolVal(False), note=f"decoded {len(got)} code points, spelled {len(exp)}",
                              tags={"style": style, "kinds": "+".join(kinds)}))
            else:
                obs.append(Ob(f"C07/string/code-points", z3.And([a == b for a, b in zip(got, exp)]) if exp else z3.BoolVal(True),
                              note="decoded code points equal the spelled ones", tags={"style": style, "kinds": "+".join(kinds)}))
        return obs

    def witness(vals):
        return {"check": "c07.string_literal", "args": {"text": [ord(c) for c in conc(vals)], "bytes": is_bytes,
                                                        "expected": _expected_concrete(style, kinds, vals), "tail": tail,
                                                        "may_error": any(k in ("us", "Us") for k in kinds)}}

    return Harness(id=f"C07/{tag}", vars=vs or {"dummy": z3.Int("dummy")}, pre=pre, run=run, witness=witness, max_paths=300)


def _expected_concrete(style, kinds, vals):
    """independent concrete expectation for the replay oracle: list of code points (strings) or octets (bytes)"""
    prefix, q, raw, is_bytes, multi = STYLES[style]
    out = []
    for i, k in enumerate(kinds):
        if k == "plain":
            cp = vals[f"c{i}"]
            out += list(chr(cp).encode("utf-8")) if is_bytes else [cp]
        elif k == "bs":
            out += [92]
        elif k in ("us", "Us"):
            out.append(int("".join(chr(vals[f"h{i}_{j}"]) for j in range(4 if k == "us" else 8)), 16))
        elif k == "nl":
            out.append(10)
        elif k == "quote":
            out.append(ord(q[0]))
        elif k == "simple":
            out.append(SIMPLE[chr(vals[f"e{i}"])])
        elif k in ("x", "u", "U"):
            n = {"x": 2, "u": 4, "U": 8}[k]
            out.append(int("".join(chr(vals[f"h{i}_{j}"]) for j in range(n)), 16))
        elif k == "oct":
            out.append(int("".join(chr(vals[f"o{i}_{j}"]) for j in range(3)), 8))
    return out


def _num_harness(typ, base, n, sign, lz):
    celpy, ct, ev = common.mods()
    import lark
    ds = [z3.Int(f"d{j}") for j in range(n)]
    vs = {f"d{j}": d for j, d in enumerate(ds)}
    pre = []
    if base == "dec":
        pre += [z3.And(d >= 48, d <= 57) for d in ds]
        pre.append(ds[0] == 48 if lz else (ds[0] != 48 if n > 1 else z3.BoolVal(True)))
        val = z3.IntVal(0)
        for d in ds:
            val = val * 10 + (d - 48)
        head = sign
    else:
        pre += [ishex(d) for d in ds]
        val = z3.IntVal(0)
        for d in ds:
            val = val * 16 + hexval(d)
        head = sign + ("0x" if base == "hex" else "0X")
    if sign == "-":
        val = -val
    suffix = "u" if typ == "uint" else ""
    lit = [z3.IntVal(ord(c)) for c in head] + ds + [z3.IntVal(ord(c)) for c in suffix]
    lo, hi = (MIN64, MAX64) if typ == "int" else (0, MAXU64)
    fits = z3.And(val >= lo, val <= hi)
    neg_uint = typ == "uint" and sign == "-"
    if neg_uint:
        fits = z3.BoolVal(False)  # `-Nu` negates a uint (also for N = 0): an evaluation error, never a value
    ttype = "INT_LIT" if typ == "int" else "UINT_LIT"
    evaluator = ev.Evaluator(ast=None, activation=ev.Activation())
    tag = f"{typ}/{base}"

    def conc(vals):
        return "".join(chr(vals[str(t)]) if not z3.is_int_value(t) else chr(t.as_long()) for t in lit)

    def run(vals):
        text = mks(SStr, lit, conc(vals))
        obs = [lex_obligation(text, (ttype,), "number")]
        tok = lark.Token(ttype, text)
        try:
            r = evaluator.literal(_tree(tok))
        except Exception as ex:  # noqa: BLE001
            return obs + [Ob(f"C07/{tag}/no-escape", z3.BoolVal(False), note=f"{type(ex).__name__}: {ex}"[:200], tags={"exc": type(ex).__name__})]
        if isinstance(r, celpy.CELEvalError):
            obs.append(Ob(f"C07/{tag}/error-only-out-of-range", z3.Not(fits)))
        else:
            obs.append(Ob(f"C07/{tag}/value", z3.And(fits, tm(r) == val), note="spelled number; out-of-range literals are errors, never wrapped"))
            want = ct.IntType if typ == "int" else ct.UintType
            obs.append(Ob(f"C07/{tag}/class", z3.BoolVal(type(r) is want)))
        # compiled runner: one concrete representative per explored path (program text cannot be symbolic)
        ctext = conc(vals)
        cval = int(ctext.rstrip("uU"), 16 if base != "dec" else 10)
        kd, v = common.outcome(lambda: common.make_program(ctext, "compiled").evaluate({}))
        okc = (kd == "value" and int(v) == cval) if (lo <= cval <= hi and not neg_uint) else (kd == "error")
        obs.append(Ob(f"C07/{tag}/compiled-representative", z3.BoolVal(okc), note=f"`{ctext}` under CompiledRunner: {kd} {v!r}"[:160],
                      tags={"leading_zero": bool(lz), "kind": kd, "exc": type(v).__name__ if kd == "escape" else ""}))
        return obs

    def witness(vals):
        return {"check": "c07.number_literal", "args": {"text": conc(vals), "typ": typ}}

    return Harness(id=f"C07/{tag}/{n}{'-' if sign else ''}{'z' if lz else ''}", vars=vs, pre=pre, run=run, witness=witness, max_paths=60)


def extra_validation():
    ws = [{"check": "c07.float_literal", "args": {"text": t}} for t in FLOATS]
    # the transpiler pastes number text into Python source: digit-shape classes a symbolic path's model need not pick
    # (zeros at both ends, all zeros, sign, suffix case, hex with leading zeros), replayed under both runners (enumeration)
    for t in ("0100", "-010", "010", "100", "00", "-0", "0010", "1000", "-0100", "0x010", "0x0A0", "-0x00F0", "000100200"):
        ws.append({"check": "c07.number_literal", "args": {"text": t, "typ": "int"}})
    for t in ("0120u", "00u", "010U", "100u", "0x010u", "0x00FFU", "0u", "001000u"):
        ws.append({"check": "c07.number_literal", "args": {"text": t, "typ": "uint"}})
    return ws
