"""C08 equality and ordering are coherent within each CEL type."""
import itertools
import os

os.environ["VERIF_TIME_SHADOW"] = "1"  # timestamps / durations are symbolic values of the term-level datetime model (vf/sym/times.py)

import z3

from .. import explore
from ..explore import Harness, Ob
from . import common, values as V

PROP = "C08"
LEVEL = "model_checking"
FIDELITY_TESTS = ["tests"]
BOUNDS = {
    "quick": {"scalars": "all int64 / uint64 / binary64 (NaN excluded) / bool triples", "string,bytes": "lengths 0..2 (all code points / octets), triples at lengths 1..2",
              "lists": "length 0..2 of int/string, nested once", "maps": "<= 2 concrete keys (string or int), symbolic values", "timestamp,duration": "every UTC microsecond instant of years 0001..9999 at every whole-minute display offset -14:00..+14:00 (two symbolic integers per timestamp), every duration within +-315,576,000,000 s at microsecond resolution; plus enumerated text-built constants", "runners": "both"},
    "thorough": {"scalars": "same", "timestamp,duration": "same", "string,bytes": "lengths 0..3", "lists": "length 0..3, nested once", "maps": "<= 2 keys, nested list values", "runners": "both"},
}
OUTSIDE = ["NaN (excluded from every law incl. reflexivity: IEEE and CEL have NaN != NaN)",
           "timestamp/duration comparison happens inside C datetime, which is replaced by the trusted term-level model vf/sym/times.py (cross-checked against the C type on every constructed value and by validation replays); timestamps built from RFC 3339 *text* are concrete representatives (pendulum parses the text in C/third-party code)",
           "cross-type comparisons (no such overload)"]
ASSUMPTIONS = ["same-type operands only", "the order asserted for numbers is the numeric order, for strings/bytes the code point / octet lexicographic order"]
TRUSTED = ["z3 5.1", "CPython 3.12 on concrete values", "vf.sym shadows", "vf.refsem / vf.props.values reference relations", "vf/sym/times.py (model of C datetime, cross-checked on every constructed value)"]
MANIFEST = {
    "text": "Symbolic execution of the real relation code (type_matched, celtypes comparisons, ListType/MapType __eq__/__ne__, boolean(), Evaluator.relation / transpiled relation) "
            "on symbolic operands; each path evaluates 13 relation programs and z3 proves the laws (reflexive, symmetric, != is negation, < vs >, <= decomposition, trichotomy, "
            "transitivity) and agreement with the reference relation for ALL operand values within the shape bounds.",
    "note": "Lengths of strings/lists/maps are enumerated (bounds in evidence); element data is fully symbolic. NaN excluded. Trusted: z3, shadows (fidelity + validation replays).",
    "technique": "symbolic execution of the real Python byte-code with shadow builtins (and the term-level datetime model for timestamps / durations) + z3; relational (multi-evaluation) obligations; counterexample replay",
    "design_ref": "DESIGN.md §7 C08",
}

ORDERED = ("int", "uint", "double", "bool", "string", "bytes", "timestamp", "duration")
SK = lambda s: {"t": "string", "v": s}
IK = lambda i: {"t": "int", "v": i}


def _shape_sets(tier):
    """list of (family, [shapeA, shapeB, shapeC or None])"""
    out = []
    for k in ("int", "uint", "double", "bool"):
        out.append((k, [(k,), (k,), (k,)]))
    mx = 2 if tier == "quick" else 3
    for k in ("string", "bytes"):
        for na, nb in itertools.product(range(mx + 1), repeat=2):
            out.append((k, [(k, na), (k, nb), None]))
        trip = [(1, 1, 1), (2, 2, 2), (1, 2, 2), (2, 1, 2), (2, 2, 1)] if tier == "quick" else \
            [t for t in itertools.product((1, 2, 3), repeat=3)]
        for na, nb, nc in trip:
            out.append((k, [(k, na), (k, nb), (k, nc)]))
    L = lambda *s: ("list", list(s))
    lists = []
    for na, nb in itertools.product(range(mx + 1), repeat=2):
        lists.append((L(*[("int",)] * na), L(*[("int",)] * nb)))
    lists += [(L(("string", 1), ("string", 2)), L(("string", 1), ("string", 2))),
              (L(("string", 1)), L(("string", 2))),
              (L(L(("int",)), L(("int",), ("int",))), L(L(("int",)), L(("int",), ("int",)))),
              (L(L(("int",))), L(L(("int",), ("int",)))),
              (L(("double",), ("double",)), L(("double",), ("double",))),
              (L(("bool",), ("uint",)), L(("bool",), ("uint",)))]
    for a, b in lists:
        out.append(("list", [a, b, None]))
    M = lambda *kv: ("map", list(kv))
    maps = [(M(), M()), (M((SK("k"), ("int",))), M((SK("k"), ("int",)))),
            (M((SK("k"), ("int",))), M((SK("j"), ("int",)))),
            (M((SK("k"), ("int",)), (SK("j"), ("string", 1))), M((SK("j"), ("string", 1)), (SK("k"), ("int",)))),
            (M((SK("k"), ("int",)), (SK("j"), ("int",))), M((SK("k"), ("int",)))),
            (M((IK(1), ("string", 1)), (IK(2), ("string", 1))), M((IK(1), ("string", 1)), (IK(2), ("string", 1)))),
            (M((SK("k"), L(("int",), ("int",)))), M((SK("k"), L(("int",), ("int",))))),
            (M(), M((SK("k"), ("bool",)))),
            # same size, different key sets, container values under the non-shared key (and a shared key with equal-able values)
            (M((SK("k"), L(("int",), ("int",)))), M((SK("j"), L(("int",), ("int",))))),
            (M((IK(1), L(("int",))), (IK(2), L(("int",)))), M((IK(1), L(("int",))), (IK(3), L(("int",))))),
            (M((SK("k"), M((SK("n"), ("int",))))), M((SK("j"), M((SK("n"), ("int",)))))),
            (M((SK("k"), ("int",)), (SK("j"), L(("string", 1)))), M((SK("k"), ("int",)), (SK("i"), ("null",))))]
    if tier == "thorough":
        maps += [(M((SK("k"), M((SK("n"), ("int",))))), M((SK("k"), M((SK("n"), ("int",)))))),
                 (M((IK(1), ("double",)), (IK(2), ("double",))), M((IK(2), ("double",)), (IK(1), ("double",))))]
    for a, b in maps:
        out.append(("map", [a, b, None]))
    # timestamps / durations: concrete instants written with different offsets (enumeration; the calendar model is C11's)
    TS = lambda us, off=0: ("const", {"t": "timestamp", "us": us, "off": off})
    DU = lambda us: ("const", {"t": "duration", "us": us})
    base = 1234567890000000
    for a, b, c in [(TS(base), TS(base, 330), TS(base + 1)), (TS(base, -300), TS(base, 0), TS(base, 840)), (TS(base, 60), TS(base - 3600000000, 0), TS(base + 1000, -720)),
                    (TS(0), TS(-1, 1), TS(1, -1)), (TS(-62135596800000000), TS(-62135596800000000 + 50400000000, 840), TS(253402300799000000, -60))]:
        out.append(("timestamp", [a, b, c]))
    # distinct instants inside one UTC second, written with different offsets; a duration pair below one microsecond apart
    for a, b, c in [(TS(base + 250000, 120), TS(base + 750000), TS(base + 250000)), (TS(base + 999999, -90), TS(base + 1000000, 330), TS(base, 0)), (TS(1, 0), TS(0, 60), TS(-1, -60))]:
        out.append(("timestamp", [a, b, c]))
    TX = lambda us, off=0: ("const", {"t": "timestamp", "us": us, "off": off, "text": True})
    for a, b, c in [(TX(base, -210), TS(base), TX(base + 1000000, 330)), (TX(base, -30), TX(base, 30), TX(base, -570)), (TX(base - 1000000, -90), TX(base, 0), TS(base, -45))]:
        out.append(("timestamp", [a, b, c]))
    # symbolic instants (every microsecond of 0001..9999) shown at symbolic whole-minute offsets; symbolic durations;
    # mixed with constants built from their RFC 3339 text so that the parsed-offset route meets every other instant
    TSY, DSY = ("timestamp",), ("duration",)
    out.append(("timestamp", [TSY, TSY, TSY]))
    out.append(("timestamp", [TSY, TX(base, -210), TSY]))
    out.append(("timestamp", [TX(base + 999999, 330), TSY, TS(base + 1000000, -45)]))
    out.append(("duration", [DSY, DSY, DSY]))
    out.append(("duration", [DSY, DU(0), DSY]))
    out.append(("list", [L(TSY, DSY), L(TSY, DSY), None]))
    out.append(("map", [M((SK("k"), TSY)), M((SK("k"), TSY)), None]))
    # durations written as text with parts below one microsecond, and bool operands that are *results* (of has(), in, macros, relations)
    DT = lambda text: ("const", {"t": "duration", "text": text})
    for a, b, c in [(DT("1ns"), DT("2ns"), DT("1us")), (DT("600ns"), DT("1us"), DT("0s")), (DT("1.0000001s"), DT("1s"), DT("1000000100ns")),
                    (DT("-1ns"), DT("0s"), DT("1ns")), (DT("1500ns"), DT("1us"), DT("2us")), (DT("0.5us"), DT("499ns"), DT("501ns")), (DT("1h"), DT("3600s"), DT("3600000000001ns"))]:
        out.append(("duration", [a, b, c]))
    for a, b, c in [(DU(0), DU(0), DU(1)), (DU(-1000000), DU(1000000), DU(999999)), (DU(1500000), DU(1500001), DU(1000000)), (DU(-1), DU(0), DU(1)), (DU(315576000000000000), DU(-315576000000000000), DU(86400000000))]:
        out.append(("duration", [a, b, c]))
    return out


# bool operands that are *results* of other constructs (not variables): (source, reference truth as a function of the int x)
PRODUCERS = [("true", lambda x: z3.BoolVal(True)), ("has(m.k)", lambda x: z3.BoolVal(True)), ("has(m.nope)", lambda x: z3.BoolVal(False)), ("(x > 0)", lambda x: x > 0),
             ("(x in [1, 2])", lambda x: z3.Or(x == 1, x == 2)), ("[1, 2].exists(e, e > x)", lambda x: x < 2), ("[1, 2].all(e, e > x)", lambda x: x < 1),
             ("!(x > 5)", lambda x: z3.Not(x > 5)), ("('k' in m)", lambda x: z3.BoolVal(True)), ("'ab'.startsWith('a')", lambda x: z3.BoolVal(True)),
             ("(x > 0 || x < -3)", lambda x: z3.Or(x > 0, x < -3)), ("(x > 0 ? true : false)", lambda x: x > 0), ("bool('true')", lambda x: z3.BoolVal(True)),
             ("[x].exists_one(e, e == 1)", lambda x: x == 1)]


def _producer_harness(i, runner):
    celpy, ct, ev = common.mods()
    from ..sym.core import SInt, mk
    X = z3.Int("x")
    p, fp = PRODUCERS[i]
    progs = []
    for q, fq in PRODUCERS[:7]:
        for src, spec in ((f"{p} == {q}", lambda a, b: a == b), (f"{p} != {q}", lambda a, b: a != b), (f"{p} < {q}", lambda a, b: z3.And(z3.Not(a), b)),
                          (f"{p} >= {q}", lambda a, b: z3.Or(a, z3.Not(b)))):
            progs.append((src, common.outcome(lambda: common.make_program(src, runner)), spec(fp(X), fq(X))))

    def run(vals):
        b = {"x": ct.IntType(mk(SInt, X, vals["x"])), "m": ct.MapType({ct.StringType("k"): ct.IntType(1)})}
        obs = []
        for src, (pk, prog), spec in progs:
            tags = {"has": "has(" in src}
            if pk != "value":
                obs.append(Ob(f"C08/bool-results/construction@{runner}", z3.BoolVal(False), note=f"`{src}`: {prog!r:.100}", tags=tags))
                continue
            kd, r = common.outcome(lambda: prog.evaluate(dict(b)))
            if kd != "value":
                obs.append(Ob(f"C08/bool-results/no-error@{runner}", z3.BoolVal(False), note=f"`{src}` on two booleans gave {kd}: {str(r)[:80]}", tags=tags))
            else:
                obs.append(Ob(f"C08/bool-results/spec@{runner}", common.truth_term(r) == spec, note=f"`{src}`", tags=tags))
        return obs

    def witness(vals):
        return {"check": "c08.bool_results", "args": {"i": i, "runner": runner, "x": int(vals["x"])}}

    return Harness(id=f"C08/bool-results/{p}@{runner}", vars={"x": X}, pre=[X >= -10, X <= 10], run=run, witness=witness, max_paths=60)


def tasks(tier):
    sets = _shape_sets(tier)
    ts = []
    for i, (fam, shapes) in enumerate(sets):
        ts.append({"fam": fam, "idx": i})
    # group to ~48 tasks
    groups = {}
    for t in ts:
        groups.setdefault((t["fam"], t["idx"] % 6), []).append(t["idx"])
    return [{"fam": f, "idxs": idxs, "tier": tier} for (f, _), idxs in sorted(groups.items())] + [{"producer": i, "tier": tier} for i in range(len(PRODUCERS))]


PROGS2 = ["a == b", "b == a", "a != b", "a == a", "b == b", "b != a"]
PROGS_ORD = ["a < b", "b > a", "a <= b", "a > b", "a >= b", "b < a"]
PROGS3 = ["b < c", "a < c", "b == c", "a == c"]

_prog_cache = {}


def _prog(src, runner):
    k = (src, runner)
    if k not in _prog_cache:
        _prog_cache[k] = common.make_program(src, runner)
    return _prog_cache[k]


def run_task(task, kf):
    from ..sym import loader
    if "producer" in task:
        return [explore.explore(_producer_harness(task["producer"], r), kf, profile_root=loader.SRC) for r in common.RUNNERS]
    sets = _shape_sets(task["tier"])
    out = []
    first = True
    for idx in task["idxs"]:
        fam, shapes = sets[idx]
        for runner in common.RUNNERS:
            h = _harness(fam, shapes, runner, idx)
            out.append(explore.explore(h, kf, profile_root=loader.SRC if first else None))
            first = False
    return out


def _harness(fam, shapes, runner, idx):
    celpy, ct, ev = common.mods()
    sa, sb, sc = shapes
    vars, pre = {}, []
    for s, p in ((sa, "a"), (sb, "b"), (sc, "c")):
        if s is None:
            continue
        v, q = V.shape_vars(s, p)
        vars.update(v)
        pre += q + V.not_nan(s, p)
    ordered = fam in ORDERED
    progs = list(PROGS2) + (PROGS_ORD if ordered else []) + (PROGS3 if (sc is not None and ordered) else [])
    for src in progs:
        _prog(src, runner)
    EQ = V.ref_eq(sa, "a", sb, "b")
    LT = V.ref_lt(sa, "a", sb, "b") if ordered else None
    GT = V.ref_lt(sb, "b", sa, "a") if ordered else None
    tag = f"C08/{fam}"

    def run(vals):
        b = {"a": V.build(sa, "a", vals), "b": V.build(sb, "b", vals)}
        if sc is not None:
            b["c"] = V.build(sc, "c", vals)
        r = {}
        obs = []
        for src in progs:
            kind, val = common.outcome(lambda: _prog(src, runner).evaluate(dict(b)))
            if kind != "value":
                obs.append(Ob(f"{tag}/no-error@{runner}", z3.BoolVal(False), note=f"`{src}` on same-type operands gave {kind}: {type(val).__name__}"))
                return obs
            r[src] = bool(val)  # forks on symbolic results
        T = z3.BoolVal
        obs.append(Ob(f"{tag}/eq/reflexive@{runner}", T(r["a == a"] and r["b == b"])))
        obs.append(Ob(f"{tag}/eq/symmetric@{runner}", T(r["a == b"] == r["b == a"])))
        obs.append(Ob(f"{tag}/ne/negation@{runner}", T(r["a != b"] == (not r["a == b"]) and r["b != a"] == (not r["b == a"]))))
        if EQ is not None:
            obs.append(Ob(f"{tag}/eq/spec@{runner}", T(r["a == b"]) == EQ, note="== agrees with the reference equality for this type"))
        if ordered:
            obs.append(Ob(f"{tag}/lt-gt/converse@{runner}", T(r["a < b"] == r["b > a"])))
            obs.append(Ob(f"{tag}/le/decomposition@{runner}", T(r["a <= b"] == (r["a < b"] or r["a == b"]))))
            obs.append(Ob(f"{tag}/ge/decomposition@{runner}", T(r["a >= b"] == (r["a > b"] or r["a == b"]))))
            obs.append(Ob(f"{tag}/trichotomy@{runner}", T([r["a < b"], r["a == b"], r["a > b"]].count(True) == 1)))
            obs.append(Ob(f"{tag}/lt/asymmetric@{runner}", T(not (r["a < b"] and r["b < a"]))))
            if LT is not None and GT is not None:
                obs.append(Ob(f"{tag}/lt/spec@{runner}", z3.And(T(r["a < b"]) == LT, T(r["a > b"]) == GT), note="< and > agree with the reference order"))
            if sc is not None:
                obs.append(Ob(f"{tag}/lt/transitive@{runner}", T((not (r["a < b"] and r["b < c"])) or r["a < c"])))
                obs.append(Ob(f"{tag}/eq/transitive@{runner}", T((not (r["a == b"] and r["b == c"])) or r["a == c"])))
        return obs

    def witness(vals):
        args = {"fam": fam, "runner": runner, "a": V.to_json(sa, "a", vals), "b": V.to_json(sb, "b", vals),
                "c": V.to_json(sc, "c", vals) if sc is not None else None}
        return {"check": "c08.laws", "args": args}

    return Harness(id=f"{tag}#{idx}@{runner}", vars=vars, pre=pre, run=run, witness=witness, max_paths=600)
