"""C09 lists, maps, strings and comprehension macros follow reference semantics."""
import itertools

import z3

from .. import explore
from ..explore import Harness, Ob
from ..refsem import MIN64, MAX64
from ..sym.core import SInt, SBool, mk, tm, is_sym, bool_term
from ..sym.strs import cterms, contains_term
from . import common, values as V, skel
from ..replay import enc

PROP = "C09"
LEVEL = "model_checking"
FIDELITY_TESTS = ["tests"]
BOUNDS = {
    "quick": {"lists": "length 0..3, int64 elements (all values)", "index": "every int64 index (exact case split, no sampling)",
              "strings": "length 0..2 per operand, all code points incl. non-BMP", "maps": "2 concrete or 2 symbolic keys (int / 1-char string)", "runners": "both"},
    "thorough": {"lists": "length 0..5", "index": "same", "strings": "length 0..3", "maps": "up to 3 keys", "runners": "both"},
}
OUTSIDE = ["`matches`: RE2 is C++; `invalid pattern => error` is exercised concretely and a grid of 13 patterns x 40 subjects is compared with Python's re on a "
           "fragment where both agree (enumeration, labelled); no symbolic reference matcher is claimed",
           "nested containers beyond one level", "all()/exists() absorption (C02)"]
ASSUMPTIONS = ["well-typed programs only (list<int>, map<int|string,int>, string)"]
TRUSTED = ["z3 5.1", "CPython 3.12", "vf.sym shadows (SList/SDict give exact index / key case splits)", "reference sequence semantics in this module"]
MANIFEST = {
    "text": "Symbolic execution of member_index, operator_in, function_size/contains/startsWith/endsWith, build_macro_eval, member_dot_arg / macro_map/filter/exists_one, "
            "mapinits, MapType lookups, member_dot, has() under both runners on lists/maps/strings with symbolic contents and a symbolic int64 index; z3 proves the laws of the "
            "statement (size of map, element i of map, filter = order-preserving subsequence, exists_one <=> exactly one, in <=> exists, (s+t).startsWith(s), size in code points, "
            "error for every out-of-range or negative index, missing or duplicate key) for all values within the length bounds.",
    "note": "Lengths enumerated, contents symbolic; the list index ranges over all of int64 (split into < -n, each in-range position, >= n).",
    "technique": "symbolic execution of the real Python byte-code with shadow builtins/containers + z3; reference sequence semantics; counterexample replay",
    "design_ref": "DESIGN.md §7 C09",
}

L = lambda n: ("list", [("int",)] * n)


def _templates(tier):
    nmax = 3 if tier == "quick" else 5
    smax = 2 if tier == "quick" else 3
    ts = []
    for n in range(nmax + 1):
        ts += [("map-affine", n), ("filter-gt", n), ("exists-one", n), ("in-exists", n), ("index", n), ("concat", n), ("size", n)]
    for a, b in itertools.product(range(smax + 1), repeat=2):
        ts += [("str-laws", a, b)]
    ts += [("map-lookup", k) for k in ("int", "string")]
    ts += [("map-literal", k) for k in ("int", "string")]
    ts += [("map-select",), ("matches-invalid",), ("in-map",), ("in-self-double",)]
    for n in range(2, nmax + 1):
        ts += [("nested-macro", n)]
    return ts


def tasks(tier):
    return [{"tier": tier, "t": list(t)} for t in _templates(tier)]


def run_task(task, kf):
    from ..sym import loader
    t = tuple(task["t"])
    out = []
    for runner in common.RUNNERS:
        for h in _harnesses(t, runner):
            out.append(explore.explore(h, kf, profile_root=loader.SRC))
    return out


def _bind_list(n, vals, name="l"):
    return V.build(L(n), name, vals)


def _list_vars(n, name="l"):
    return V.shape_vars(L(n), name)


def _elems(n, name="l"):
    return [z3.Int(f"{name}_{i}") for i in range(n)]


def _result_list_terms(r):
    return [tm(x) for x in list.__iter__(r)]


def _harnesses(t, runner):
    celpy, ct, ev = common.mods()
    kind = t[0]
    K = z3.Int("k")
    kpre = [K >= MIN64, K <= MAX64]
    in64 = lambda v: z3.And(v >= MIN64, v <= MAX64)

    def wit(name, vals, **extra):
        return {"check": "c09.law", "args": enc({"law": name, "runner": runner, "vals": {k: v for k, v in vals.items()}, **extra})}

    if kind == "map-affine":
        n = t[1]
        vars, pre = _list_vars(n)
        vars["k"] = K
        prog = common.make_program("l.map(x, x * 2 + k)", runner)
        prog_sz = common.make_program("size(l.map(x, x - k)) == size(l)", runner)
        el = _elems(n)
        spec = [e * 2 + K for e in el]
        ovf = z3.Or([z3.Or(z3.Not(in64(e * 2)), z3.Not(in64(e * 2 + K))) for e in el]) if n else z3.BoolVal(False)
        ovf2 = z3.Or([z3.Not(in64(e - K)) for e in el]) if n else z3.BoolVal(False)

        def run(vals):
            # an outer binding named like the iteration variable must be shadowed inside the macro body
            b = {"l": _bind_list(n, vals), "k": ct.IntType(mk(SInt, K, vals["k"])), "x": ct.IntType(mk(SInt, K, vals["k"])) + ct.IntType(0)}
            kd, r = common.outcome(lambda: prog.evaluate(dict(b)))
            obs = []
            if kd == "error":
                obs.append(Ob(f"C09/map/error-only-on-overflow@{runner}", ovf))
            elif kd == "value":
                rt = _result_list_terms(r)
                obs.append(Ob(f"C09/map/size@{runner}", z3.BoolVal(len(rt) == n)))
                if len(rt) == n:
                    obs.append(Ob(f"C09/map/elementwise@{runner}", z3.And([z3.Not(ovf)] + [a == b_ for a, b_ in zip(rt, spec)])))
            else:
                obs.append(Ob(f"C09/map/escape@{runner}", z3.BoolVal(False), note=repr(r)[:100]))
            kd2, r2 = common.outcome(lambda: prog_sz.evaluate(dict(b)))
            if kd2 == "value":
                obs.append(Ob(f"C09/map/size-law@{runner}", bool_term(r2)))
            elif kd2 == "error":
                obs.append(Ob(f"C09/map/size-law-error@{runner}", ovf2))
            else:
                obs.append(Ob(f"C09/map/escape@{runner}", z3.BoolVal(False)))
            return obs
        return [Harness(id=f"C09/map-affine/{n}@{runner}", vars=vars, pre=pre + kpre, run=run,
                        witness=lambda vals: wit("map-affine", vals, n=n), max_paths=300)]

    if kind == "filter-gt":
        n = t[1]
        vars, pre = _list_vars(n)
        vars["k"] = K
        prog = common.make_program("l.filter(x, x > k)", runner)
        el = _elems(n)
        keep = [e > K for e in el]

        def run(vals):
            b = {"l": _bind_list(n, vals), "k": ct.IntType(mk(SInt, K, vals["k"])), "x": ct.IntType(mk(SInt, K, vals["k"]))}
            kd, r = common.outcome(lambda: prog.evaluate(dict(b)))
            if kd != "value":
                return [Ob(f"C09/filter/no-error@{runner}", z3.BoolVal(False), note=f"{kd} {r!r}"[:120])]
            rt = _result_list_terms(r)
            cnt = z3.Sum([z3.If(kp, 1, 0) for kp in keep]) if n else z3.IntVal(0)
            obs = [Ob(f"C09/filter/count@{runner}", cnt == len(rt))]
            for j, rj in enumerate(rt):
                alts = []
                for i in range(n):
                    before = z3.Sum([z3.If(keep[q], 1, 0) for q in range(i)]) if i else z3.IntVal(0)
                    alts.append(z3.And(keep[i], before == j, rj == el[i]))
                obs.append(Ob(f"C09/filter/subsequence@{runner}", z3.Or(alts) if alts else z3.BoolVal(False)))
            return obs
        return [Harness(id=f"C09/filter/{n}@{runner}", vars=vars, pre=pre + kpre, run=run,
                        witness=lambda vals: wit("filter-gt", vals, n=n), max_paths=300)]

    if kind == "exists-one":
        n = t[1]
        vars, pre = _list_vars(n)
        vars["k"] = K
        prog = common.make_program("l.exists_one(x, x == k)", runner)
        el = _elems(n)

        def run(vals):
            b = {"l": _bind_list(n, vals), "k": ct.IntType(mk(SInt, K, vals["k"])), "x": ct.IntType(7)}
            kd, r = common.outcome(lambda: prog.evaluate(dict(b)))
            if kd != "value":
                return [Ob(f"C09/exists_one/no-error@{runner}", z3.BoolVal(False), note=f"{kd} {r!r}"[:120])]
            cnt = z3.Sum([z3.If(e == K, 1, 0) for e in el]) if n else z3.IntVal(0)
            return [Ob(f"C09/exists_one/exactly-one@{runner}", bool_term(r) == (cnt == 1))]
        return [Harness(id=f"C09/exists_one/{n}@{runner}", vars=vars, pre=pre + kpre, run=run,
                        witness=lambda vals: wit("exists-one", vals, n=n), max_paths=300)]

    if kind == "in-exists":
        n = t[1]
        vars, pre = _list_vars(n)
        vars["k"] = K
        p_in = common.make_program("k in l", runner)
        p_ex = common.make_program("l.exists(y, y == k)", runner)
        p_ct = common.make_program("l.contains(k)", runner)
        el = _elems(n)

        def run(vals):
            b = {"l": _bind_list(n, vals), "k": ct.IntType(mk(SInt, K, vals["k"])), "y": ct.IntType(mk(SInt, K, vals["k"]))}
            obs = []
            spec = z3.Or([e == K for e in el]) if n else z3.BoolVal(False)
            rs = {}
            for nm, p in (("in", p_in), ("exists", p_ex), ("contains", p_ct)):
                kd, r = common.outcome(lambda: p.evaluate(dict(b)))
                if kd != "value":
                    return [Ob(f"C09/{nm}/no-error@{runner}", z3.BoolVal(False), note=f"{kd} {r!r}"[:120])]
                rs[nm] = bool_term(r)
                obs.append(Ob(f"C09/{nm}/membership@{runner}", rs[nm] == spec))
            obs.append(Ob(f"C09/in-iff-exists@{runner}", rs["in"] == rs["exists"]))
            return obs
        return [Harness(id=f"C09/in/{n}@{runner}", vars=vars, pre=pre + kpre, run=run,
                        witness=lambda vals: wit("in-exists", vals, n=n), max_paths=300)]

    if kind == "in-self-double":
        # membership of a double in a list holding the very same object (NaN is not a member of anything; -0.0 == 0.0)
        from ..sym import core as _core
        from ..sym.core import SFloat, mkf
        X, Y = z3.FP("x", _core.F64), z3.FP("y2", _core.F64)
        progs = [(src, common.make_program(src, runner), spec) for src, spec in
                 (("x in l", z3.fpEQ(X, X)), ("x in [x]", z3.fpEQ(X, X)), ("l.exists(y, y == x)", z3.fpEQ(X, X)), ("[x].map(y, y in [y])[0]", z3.fpEQ(X, X)),
                  ("x in [y2, x]", z3.Or(z3.fpEQ(X, Y), z3.fpEQ(X, X))), ("x in l2", z3.Or(z3.fpEQ(X, Y), z3.fpEQ(X, X))),
                  ("l2.exists(y, y == x)", z3.Or(z3.fpEQ(X, Y), z3.fpEQ(X, X))))]

        def run(vals):
            x = ct.DoubleType(mkf(SFloat, X, vals["x"]))
            y = ct.DoubleType(mkf(SFloat, Y, vals["y2"]))
            b = {"x": x, "y2": y, "l": ct.ListType([x]), "l2": ct.ListType([y, x])}
            obs = []
            for src, p, spec in progs:
                kd, r = common.outcome(lambda: p.evaluate(dict(b)))
                if kd != "value":
                    obs.append(Ob(f"C09/in-double/no-error@{runner}", z3.BoolVal(False), note=f"`{src}`: {kd} {r!r}"[:140]))
                else:
                    obs.append(Ob(f"C09/in-double/membership@{runner}", bool_term(r) == spec, note=f"`{src}`"))
            return obs
        return [Harness(id=f"C09/in-self-double@{runner}", vars={"x": X, "y2": Y}, pre=[], run=run,
                        witness=lambda vals: wit("in-self-double", vals), max_paths=200)]

    if kind == "nested-macro":
        # a macro inside a macro body that reads the outer iteration variable, over several different outer items
        n = t[1]
        vars, pre = _list_vars(n)
        mv, mp = _list_vars(2, "m")
        vars.update(mv)
        el, em = _elems(n), _elems(2, "m")
        small = [z3.And(e >= -(2**62), e < 2**62) for e in el + em]
        p_map = common.make_program("l.map(x, m.map(y, x + y))", runner)
        p_flt = common.make_program("l.filter(x, m.exists(y, y == x))", runner)
        p_one = common.make_program("l.exists_one(x, m.all(y, y != x))", runner)
        p_deep = common.make_program("l.map(x, m.filter(y, y > x).map(z, z - x))", runner)

        def run(vals):
            b = {"l": _bind_list(n, vals), "m": _bind_list(2, vals, "m")}
            obs = []
            kd, r = common.outcome(lambda: p_map.evaluate(dict(b)))
            if kd != "value":
                obs.append(Ob(f"C09/nested/map-no-error@{runner}", z3.BoolVal(False), note=f"{kd} {r!r}"[:140]))
            else:
                rows = [list(list.__iter__(row)) for row in list.__iter__(r)]
                ok = len(rows) == n and all(len(row) == 2 for row in rows)
                obs.append(Ob(f"C09/nested/map-elementwise@{runner}", z3.And([tm(rows[i][j]) == el[i] + em[j] for i in range(n) for j in range(2)]) if ok else z3.BoolVal(False)))
            kd, r = common.outcome(lambda: p_flt.evaluate(dict(b)))
            if kd != "value":
                obs.append(Ob(f"C09/nested/filter-no-error@{runner}", z3.BoolVal(False), note=f"{kd} {r!r}"[:140]))
            else:
                got = _result_list_terms(r)
                keep = [z3.Or(e == em[0], e == em[1]) for e in el]
                # the result is the subsequence of kept elements: its length is the number kept and it lists them in order
                cnt = z3.Sum([z3.If(k_, 1, 0) for k_ in keep])
                conds = [cnt == len(got)]
                for j in range(len(got)):
                    # the j-th result is the element at the position whose kept-prefix count is j
                    conds.append(z3.Or([z3.And(keep[i], z3.Sum([z3.If(keep[q], 1, 0) for q in range(i)] + [z3.IntVal(0)]) == j, got[j] == el[i]) for i in range(n)]))
                obs.append(Ob(f"C09/nested/filter-subsequence@{runner}", z3.And(conds)))
            kd, r = common.outcome(lambda: p_one.evaluate(dict(b)))
            if kd != "value":
                obs.append(Ob(f"C09/nested/exists-one-no-error@{runner}", z3.BoolVal(False), note=f"{kd} {r!r}"[:140]))
            else:
                sat_ = [z3.And(e != em[0], e != em[1]) for e in el]
                obs.append(Ob(f"C09/nested/exists-one@{runner}", bool_term(r) == (z3.Sum([z3.If(c, 1, 0) for c in sat_]) == 1)))
            kd, r = common.outcome(lambda: p_deep.evaluate(dict(b)))
            if kd != "value":
                obs.append(Ob(f"C09/nested/deep-no-error@{runner}", z3.BoolVal(False), note=f"{kd} {r!r}"[:140]))
            else:
                rows = [[tm(v) for v in list.__iter__(row)] for row in list.__iter__(r)]
                conds = [z3.BoolVal(len(rows) == n)]
                for i, row in enumerate(rows[:n]):
                    gt = [em[j] > el[i] for j in range(2)]
                    conds.append(z3.Sum([z3.If(g, 1, 0) for g in gt]) == len(row))
                    if len(row) == 2:
                        conds += [row[0] == em[0] - el[i], row[1] == em[1] - el[i]]
                    elif len(row) == 1:
                        conds.append(z3.Or(z3.And(gt[0], row[0] == em[0] - el[i]), z3.And(z3.Not(gt[0]), gt[1], row[0] == em[1] - el[i])))
                obs.append(Ob(f"C09/nested/deep-elementwise@{runner}", z3.And(conds)))
            return obs
        return [Harness(id=f"C09/nested-macro/{n}@{runner}", vars=vars, pre=pre + mp + small, run=run,
                        witness=lambda vals: wit("nested-macro", vals, n=n), max_paths=400)]

    if kind == "index":
        n = t[1]
        vars, pre = _list_vars(n)
        vars["k"] = K
        el = _elems(n)
        # the list itself and lists produced by operations (they must index like any other list)
        progs = [(src, common.make_program(src, runner), els) for src, els in
                 (("l[k]", el), ("(l + l)[k]", el + el), ("l.map(x, x)[k]", el), ("l.filter(x, true)[k]", el), ("([0] + l)[k]", [z3.IntVal(0)] + el), ("[l, l][1][k]", el))]

        def run(vals):
            b = {"l": _bind_list(n, vals), "k": ct.IntType(mk(SInt, K, vals["k"]))}
            obs = []
            for src, prog, els in progs:
                tag = "index" if src == "l[k]" else "index-of-result"
                kd, r = common.outcome(lambda: prog.evaluate(dict(b)))
                inr = z3.And(K >= 0, K < len(els))
                if kd == "error":
                    obs.append(Ob(f"C09/{tag}/error-only-out-of-range@{runner}", z3.Not(inr), note=src))
                elif kd != "value":
                    obs.append(Ob(f"C09/{tag}/escape@{runner}", z3.BoolVal(False), note=f"{src}: {r!r}"[:100]))
                else:
                    sel = z3.Or([z3.And(K == i, tm(r) == els[i]) for i in range(len(els))]) if els else z3.BoolVal(False)
                    obs.append(Ob(f"C09/{tag}/value-in-range@{runner}", z3.And(inr, sel), observe={"k": K},
                                  note=f"`{src}`: a value only for 0 <= k < size, and then element k; negative and too-large indexes are errors"))
            return obs
        return [Harness(id=f"C09/index/{n}@{runner}", vars=vars, pre=pre + kpre, run=run,
                        witness=lambda vals: wit("index", vals, n=n), max_paths=150)]

    if kind == "concat":
        n = t[1]
        m = (n + 1) % 3
        vars, pre = _list_vars(n, "l")
        v2, p2 = _list_vars(m, "r")
        vars.update(v2)
        prog = common.make_program("l + r", runner)
        spec = _elems(n, "l") + _elems(m, "r")

        def run(vals):
            b = {"l": _bind_list(n, vals, "l"), "r": _bind_list(m, vals, "r")}
            kd, r = common.outcome(lambda: prog.evaluate(dict(b)))
            if kd != "value":
                return [Ob(f"C09/concat/no-error@{runner}", z3.BoolVal(False), note=f"{kd} {r!r}"[:120])]
            rt = _result_list_terms(r)
            if len(rt) != len(spec):
                return [Ob(f"C09/concat/size@{runner}", z3.BoolVal(False))]
            return [Ob(f"C09/concat/elements@{runner}", z3.And([a == b_ for a, b_ in zip(rt, spec)]) if spec else z3.BoolVal(True))]
        return [Harness(id=f"C09/concat/{n}+{m}@{runner}", vars=vars, pre=pre + p2, run=run,
                        witness=lambda vals: wit("concat", vals, n=n, m=m), max_paths=50)]

    if kind == "size":
        n = t[1]
        vars, pre = _list_vars(n)
        progs = [common.make_program(s, runner) for s in ("size(l)", "l.size()")]

        def run(vals):
            b = {"l": _bind_list(n, vals)}
            obs = []
            for p in progs:
                kd, r = common.outcome(lambda: p.evaluate(dict(b)))
                obs.append(Ob(f"C09/size/list@{runner}", (tm(r) == n) if kd == "value" else z3.BoolVal(False)))
            return obs
        return [Harness(id=f"C09/size/{n}@{runner}", vars=vars or {"dummy": z3.Int("dummy")}, pre=pre, run=run,
                        witness=lambda vals: wit("size", vals, n=n), max_paths=10)]

    if kind == "str-laws":
        a, b_ = t[1], t[2]
        sa, sb = ("string", a), ("string", b_)
        vars, pre = V.shape_vars(sa, "s")
        v2, p2 = V.shape_vars(sb, "t")
        vars.update(v2)
        srcs = {"starts": "(s + t).startsWith(s)", "ends": "(s + t).endsWith(t)", "contains": "(s + t).contains(s)",
                "size-sum": "size(s + t) == size(s) + size(t)", "size": "size(s)", "s-contains-t": "s.contains(t)",
                "s-starts-t": "s.startsWith(t)", "s-ends-t": "s.endsWith(t)", "cat": "s + t"}
        progs = {k: common.make_program(v, runner) for k, v in srcs.items()}
        S = [z3.Int(f"s_c{i}") for i in range(a)]
        T = [z3.Int(f"t_c{i}") for i in range(b_)]
        eqs = lambda x, y: z3.And([p == q for p, q in zip(x, y)]) if x else z3.BoolVal(True)

        def run(vals):
            bd = {"s": V.build(sa, "s", vals), "t": V.build(sb, "t", vals)}
            obs = []
            res = {}
            for k, p in progs.items():
                kd, r = common.outcome(lambda: p.evaluate(dict(bd)))
                if kd != "value":
                    return [Ob(f"C09/string/{k}/no-error@{runner}", z3.BoolVal(False), note=f"{kd} {r!r}"[:120])]
                res[k] = r
            for k in ("starts", "ends", "contains", "size-sum"):
                obs.append(Ob(f"C09/string/{k}@{runner}", bool_term(res[k]), note=srcs[k]))
            obs.append(Ob(f"C09/string/size-code-points@{runner}", tm(res["size"]) == a, note="size counts code points (non-BMP = 1)"))
            obs.append(Ob(f"C09/string/contains-spec@{runner}", bool_term(res["s-contains-t"]) == contains_term(S, T)))
            obs.append(Ob(f"C09/string/startsWith-spec@{runner}",
                          bool_term(res["s-starts-t"]) == (eqs(S[:b_], T) if b_ <= a else z3.BoolVal(False))))
            obs.append(Ob(f"C09/string/endsWith-spec@{runner}",
                          bool_term(res["s-ends-t"]) == (eqs(S[a - b_:], T) if b_ <= a else z3.BoolVal(False))))
            ct_ = cterms(res["cat"])
            obs.append(Ob(f"C09/string/concat@{runner}", z3.And(z3.BoolVal(len(ct_) == a + b_), eqs(ct_, S + T)) if len(ct_) == a + b_ else z3.BoolVal(False)))
            return obs
        return [Harness(id=f"C09/str/{a},{b_}@{runner}", vars=vars or {"dummy": z3.Int("dummy")}, pre=pre + p2, run=run,
                        witness=lambda vals: wit("str-laws", vals, a=a, b=b_), max_paths=200)]

    if kind == "map-lookup":
        kt = t[1]
        if kt == "int":
            src_m = ("map", [({"t": "int", "v": 1}, ("int",)), ({"t": "int", "v": 5}, ("int",))])
            keyshape = ("int",)
        else:
            src_m = ("map", [({"t": "string", "v": "a"}, ("int",)), ({"t": "string", "v": "b"}, ("int",))])
            keyshape = ("string", 1)
        vars, pre = V.shape_vars(src_m, "m")
        v2, p2 = V.shape_vars(keyshape, "k")
        vars.update(v2)
        prog = common.make_program("m[k]", runner)
        p_in = common.make_program("k in m", runner)
        p_sz = common.make_program("size(m)", runner)
        if kt == "int":
            kt_ = z3.Int("k")
            hit = [kt_ == 1, kt_ == 5]
        else:
            c = z3.Int("k_c0")
            hit = [c == ord("a"), c == ord("b")]
        mv = [z3.Int("m_v0"), z3.Int("m_v1")]

        def run(vals):
            bd = {"m": V.build(src_m, "m", vals), "k": V.build(keyshape, "k", vals)}
            obs = []
            kd, r = common.outcome(lambda: prog.evaluate(dict(bd)))
            if kd == "error":
                obs.append(Ob(f"C09/map-lookup/{kt}/error-only-missing@{runner}", z3.Not(z3.Or(hit))))
            elif kd == "value":
                obs.append(Ob(f"C09/map-lookup/{kt}/value@{runner}", z3.Or([z3.And(h, tm(r) == v) for h, v in zip(hit, mv)])))
            else:
                obs.append(Ob(f"C09/map-lookup/{kt}/escape@{runner}", z3.BoolVal(False), note=repr(r)[:100]))
            kd, r = common.outcome(lambda: p_in.evaluate(dict(bd)))
            obs.append(Ob(f"C09/in-map/{kt}@{runner}", (bool_term(r) == z3.Or(hit)) if kd == "value" else z3.BoolVal(False)))
            kd, r = common.outcome(lambda: p_sz.evaluate(dict(bd)))
            obs.append(Ob(f"C09/size/map@{runner}", (tm(r) == 2) if kd == "value" else z3.BoolVal(False)))
            return obs
        return [Harness(id=f"C09/map-lookup/{kt}@{runner}", vars=vars, pre=pre + p2, run=run,
                        witness=lambda vals: wit("map-lookup", vals, kt=kt), max_paths=100)]

    if kind == "map-literal":
        kt = t[1]
        A, B = z3.Int("a"), z3.Int("b")
        vars = {"a": A, "b": B}
        pre = [in64(A), in64(B)]
        if kt == "int":
            ks = [("int",), ("int",)]
        else:
            ks = [("string", 1), ("string", 1)]
        for i, s in enumerate(ks):
            v, p = V.shape_vars(s, f"k{i}")
            vars.update(v)
            pre += p
        prog = common.make_program("{k0: a, k1: b}", runner)
        prog_l = common.make_program("{k0: a, k1: b}[k0]", runner)
        same = (z3.Int("k0") == z3.Int("k1")) if kt == "int" else (z3.Int("k0_c0") == z3.Int("k1_c0"))

        def run(vals):
            bd = {"k0": V.build(ks[0], "k0", vals), "k1": V.build(ks[1], "k1", vals),
                  "a": ct.IntType(mk(SInt, A, vals["a"])), "b": ct.IntType(mk(SInt, B, vals["b"]))}
            obs = []
            kd, r = common.outcome(lambda: prog.evaluate(dict(bd)))
            if kd == "error":
                obs.append(Ob(f"C09/map-literal/{kt}/error-only-duplicate@{runner}", same))
            elif kd == "value":
                obs.append(Ob(f"C09/map-literal/{kt}/duplicate-is-error@{runner}", z3.Not(same),
                              note="a map literal with two equal keys must be an error, never a value"))
                obs.append(Ob(f"C09/map-literal/{kt}/size@{runner}", z3.BoolVal(dict.__len__(r) == 2)))
            else:
                obs.append(Ob(f"C09/map-literal/{kt}/escape@{runner}", z3.BoolVal(False), note=repr(r)[:100]))
            kd, r = common.outcome(lambda: prog_l.evaluate(dict(bd)))
            if kd == "error":
                obs.append(Ob(f"C09/map-literal/{kt}/lookup-error-only-duplicate@{runner}", same))
            elif kd == "value":
                obs.append(Ob(f"C09/map-literal/{kt}/lookup@{runner}", z3.And(z3.Not(same), tm(r) == A)))
            else:
                obs.append(Ob(f"C09/map-literal/{kt}/escape@{runner}", z3.BoolVal(False), note=repr(r)[:100]))
            return obs
        return [Harness(id=f"C09/map-literal/{kt}@{runner}", vars=vars, pre=pre, run=run,
                        witness=lambda vals: wit("map-literal", vals, kt=kt), max_paths=60)]

    if kind == "map-select":
        src_m = ("map", [({"t": "string", "v": "a"}, ("int",)), ({"t": "string", "v": "b"}, ("int",))])
        vars, pre = V.shape_vars(src_m, "m")
        srcs = {"m.a": 0, "m.b": 1, "m['a']": 0, "has(m.a)": True, "has(m.zz)": False, "m.zz": "error",
                # entries whose value is null / false / 0 / empty are present: selection yields the value, has() is true
                "nz.n == null": True, "nz['n'] == null": True, "has(nz.n)": True, "nz.f == false": True, "has(nz.f)": True, "nz.z == 0": True, "has(nz.z)": True,
                "nz.e == ''": True, "has(nz.e)": True, "{'k': null}.k == null": True, "has({'k': null}.k)": True, "nz.l == []": True, "has(nz.l)": True, "has(nz.missing)": False,
                "'n' in nz": True, "size(nz) == 5": True}
        progs = {s: common.make_program(s, runner) for s in srcs}
        mv = [z3.Int("m_v0"), z3.Int("m_v1")]
        S_ = ct.StringType
        nz = ct.MapType({S_("n"): None, S_("f"): ct.BoolType(False), S_("z"): ct.IntType(0), S_("e"): S_(""), S_("l"): ct.ListType([])})

        def run(vals):
            bd = {"m": V.build(src_m, "m", vals), "nz": nz}
            obs = []
            for s, exp in srcs.items():
                kd, r = common.outcome(lambda: progs[s].evaluate(dict(bd)))
                if exp == "error":
                    obs.append(Ob(f"C09/select/missing-field-error@{runner}", z3.BoolVal(kd == "error"), note=s))
                elif isinstance(exp, bool):
                    obs.append(Ob(f"C09/has@{runner}", (bool_term(r) == z3.BoolVal(exp)) if kd == "value" else z3.BoolVal(False), note=s))
                else:
                    obs.append(Ob(f"C09/select/value@{runner}", (tm(r) == mv[exp]) if kd == "value" else z3.BoolVal(False), note=s))
            return obs
        return [Harness(id=f"C09/map-select@{runner}", vars=vars, pre=pre, run=run,
                        witness=lambda vals: wit("map-select", vals), max_paths=20)]

    if kind == "matches-invalid":
        vars, pre = V.shape_vars(("string", 1), "s")
        progs = [common.make_program(s, runner) for s in ("s.matches('(')", "matches(s, '[a')", "s.matches('a{2,1}')", "s.matches('?')", "s.matches('?a')",
                                                          "s.matches('*a')", "matches(s, '+')", "s.matches('a(?P<n')", "s.matches('[z-a]')", "s.matches('x{')" if False else "s.matches(')')")]

        def run(vals):
            bd = {"s": V.build(("string", 1), "s", vals)}
            obs = []
            for p in progs:
                kd, r = common.outcome(lambda: p.evaluate(dict(bd)))
                obs.append(Ob(f"C09/matches/invalid-pattern-error@{runner}", z3.BoolVal(kd == "error"), note=f"{kd}"))
            return obs
        return [Harness(id=f"C09/matches-invalid@{runner}", vars=vars, pre=pre, run=run,
                        witness=lambda vals: wit("matches-invalid", vals), max_paths=6)]

    if kind == "in-map":
        return []
    raise ValueError(t)


MATCH_PATTERNS = ["colou?r", "a.c", "ab*", "^a", "b$", "a|b", "(ab)+", "[a-c]x", "a?", "x+y", "a{2}", "\\.", "^$"]
MATCH_SUBJECTS = ["", "a", "b", "ab", "abc", "color", "colour", "colr", "a.c", "axc", "aab", "abab", "bx", "cx", "dx", "xy", "xxy", "y", "aa", ".", "ba", "abb",
                  "a\nc", "A", "colouur", "ac", "x", "xa", "ax", "aaa", "é", "aé", "abx", "cab", "b$", "^a", "a|b", "a?", "xy+", "x+y"]


def extra_validation():
    return [{"check": "c09.matches_grid", "args": {"pattern": p, "subjects": MATCH_SUBJECTS}} for p in MATCH_PATTERNS]
