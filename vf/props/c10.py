"""C10 type conversions round-trip and range-check."""
import z3

from .. import explore
from ..explore import Harness, Ob
from ..refsem import MIN64, MAX64, MAXU64
from ..sym import core
from ..sym.core import SInt, SFloat, mk, mkf, tm, ft, is_sym, _attr, RTZ, F64, TRUNC_BITS, fp_val
from ..sym.strs import cterms, bterms
from . import common, values as V
from ..replay import enc

PROP = "C10"
LEVEL = "model_checking"
FIDELITY_TESTS = ["tests"]
BOUNDS = {
    "quick": {"int(double), uint(double)": "every binary64 value (NaN, +-inf, subnormals, |d| up to 1.8e308); truncation compared in 70-bit bit-vectors",
              "int<->uint": "all of int64 / uint64", "int(string(i)), uint(string(u))": "all of int64 / uint64 (decimal rendering modelled digit-wise, <= 20 digits)",
              "string(bytes(s))": "strings of 0..2 code points (all scalar values); bytes of 1..3 arbitrary octets for the invalid-UTF-8 error",
              "timestamp/duration/double text round trips": "enumerated boundary instants / values through the real code (enumeration, not a solver verdict)"},
    "thorough": {"same": "with strings of 0..3 code points and bytes of 1..4 octets; per-query cap 120 s"},
}
OUTSIDE = ["double(string(d)): repr/strtod are C code with nothing of the repository's own to encode -- enumerated doubles only",
           "timestamp(string(t)) / duration(string(d)): strftime / pendulum.parse are C / third-party -- enumerated boundary instants only (years 0001, 0999, 1000, 9999, leap days, offsets)",
           "UTF-8 codec itself: modelled (RFC 3629) and cross-validated against CPython's codec on witnesses"]
ASSUMPTIONS = ["z3 fp.to_sbv(RTZ) is IEEE round-toward-zero conversion", "the UTF-8 model in vf.sym.strs equals CPython's strict utf-8 codec (validated on every replay)"]
TRUSTED = ["z3 5.1 (FP, BV, LIA)", "CPython 3.12", "vf.sym shadows"]
MANIFEST = {
    "text": "Symbolic execution of IntType/UintType/StringType/BytesType constructors, the int64/uint64 range decorators and function_eval's error mapping under both runners: "
            "z3 proves int(double)/uint(double) truncate toward zero and error exactly outside the target range for EVERY binary64 value (bit-vector encoding), int<->uint range "
            "errors for all 64-bit values, int(string(i)) == i and uint(string(u)) == u for all values (digit-wise decimal model), string(bytes(s)) == s and error on invalid UTF-8.",
    "note": "Text round trips that are one-line calls into C codecs (double repr/strtod, strftime, pendulum) are outside the solver's reach and are checked on enumerated boundary values only "
            "(labelled as enumeration in evidence).",
    "technique": "symbolic execution of the real Python byte-code with shadow builtins + z3 (FloatingPoint->BitVec truncation, LIA digit model, UTF-8 model); counterexample replay",
    "design_ref": "DESIGN.md §7 C10",
}


def utf8_valid(bs):
    """RFC 3629 well-formedness of a byte sequence (terms), written independently of the shadow decoder"""
    n = len(bs)
    memo = {}

    def cont(k):
        return z3.And(bs[k] >= 0x80, bs[k] <= 0xBF)

    def v(i):
        if i == n:
            return z3.BoolVal(True)
        if i in memo:
            return memo[i]
        b = bs[i]
        alts = [z3.And(b <= 0x7F, v(i + 1))]
        if i + 1 < n:
            alts.append(z3.And(b >= 0xC2, b <= 0xDF, cont(i + 1), v(i + 2)))
        if i + 2 < n:
            alts.append(z3.And(b == 0xE0, bs[i + 1] >= 0xA0, bs[i + 1] <= 0xBF, cont(i + 2), v(i + 3)))
            alts.append(z3.And(z3.Or(z3.And(b >= 0xE1, b <= 0xEC), b == 0xEE, b == 0xEF), cont(i + 1), cont(i + 2), v(i + 3)))
            alts.append(z3.And(b == 0xED, bs[i + 1] >= 0x80, bs[i + 1] <= 0x9F, cont(i + 2), v(i + 3)))
        if i + 3 < n:
            alts.append(z3.And(b == 0xF0, bs[i + 1] >= 0x90, bs[i + 1] <= 0xBF, cont(i + 2), cont(i + 3), v(i + 4)))
            alts.append(z3.And(b >= 0xF1, b <= 0xF3, cont(i + 1), cont(i + 2), cont(i + 3), v(i + 4)))
            alts.append(z3.And(b == 0xF4, bs[i + 1] >= 0x80, bs[i + 1] <= 0x8F, cont(i + 2), cont(i + 3), v(i + 4)))
        memo[i] = z3.Or(alts)
        return memo[i]
    return v(0)


def tasks(tier):
    ts = [{"what": w} for w in ("int(double)", "uint(double)", "int(uint)", "uint(int)", "int(int)", "uint(uint)",
                                "int(string(int))", "uint(string(uint))", "string(string)", "double(double)", "bool(bool)")]
    smax = 2 if tier == "quick" else 3
    bmax = 3 if tier == "quick" else 4
    ts += [{"what": "string(bytes(s))", "n": n} for n in range(0, smax + 1)]
    ts += [{"what": "string(bytes)", "n": n} for n in range(1, bmax + 1)]
    ts += [{"what": "bytes(string)", "n": n} for n in range(0, smax + 1)]
    ts += [{"what": f"{t}(text)", "n": n} for t in ("int", "uint") for n in range(0, smax + 1)]
    return ts


def run_task(task, kf):
    from ..sym import loader
    out = []
    for runner in common.RUNNERS:
        out.append(explore.explore(_harness(task, runner), kf, profile_root=loader.SRC))
    return out


def _harness(task, runner):
    celpy, ct, ev = common.mods()
    what = task["what"]

    def W(vals, **kw):
        return {"check": "c10.conversion", "args": enc({"what": what, "runner": runner, "vals": vals, **kw})}

    if what in ("int(text)", "uint(text)"):
        # text of n symbolic code points: a value exactly for an optional sign followed by ASCII decimal digits (then the spelled number,
        # range-checked), an error for any other text -- underscores, blanks, non-ASCII digits, a lone sign, the empty text.  Hexadecimal
        # `0x..` text is the library's own extension: nothing is asserted for texts that start like one.
        target, n = what.split("(")[0], task["n"]
        from ..sym.strs import SStr, mks
        cs = [z3.Int(f"t_c{i}") for i in range(n)]
        vars = {f"t_c{i}": c for i, c in enumerate(cs)} or {"dummy": z3.Int("dummy")}
        pre = []
        for c in cs:
            pre += [c >= 0, c <= 0x10FFFF, z3.Not(z3.And(c >= 0xD800, c <= 0xDFFF))]
        prog = common.make_program(f"{target}(t)", runner)
        isd = lambda c: z3.And(c >= 48, c <= 57)  # noqa: E731
        lo, hi = (MIN64, MAX64) if target == "int" else (0, MAXU64)

        def spec():
            """(parsable, value) for the digits-with-optional-sign reading; hexlike = starts like a 0x text"""
            alts = []
            if n >= 1:
                v = z3.IntVal(0)
                for c in cs:
                    v = v * 10 + (c - 48)
                alts.append((z3.And([isd(c) for c in cs]), v))
            if n >= 2:
                v = z3.IntVal(0)
                for c in cs[1:]:
                    v = v * 10 + (c - 48)
                alts.append((z3.And([cs[0] == 43] + [isd(c) for c in cs[1:]]), v))
                alts.append((z3.And([cs[0] == 45] + [isd(c) for c in cs[1:]]), -v))
            ok = z3.Or([a for a, _ in alts]) if alts else z3.BoolVal(False)
            val = z3.IntVal(0)
            for a, v in alts:
                val = z3.If(a, v, val)
            hexlike = z3.BoolVal(False)
            if n >= 2:
                zx = lambda i: z3.And(cs[i] == 48, z3.Or(cs[i + 1] == 120, cs[i + 1] == 88))  # noqa: E731
                hexlike = z3.Or(zx(0), z3.And(z3.Or(cs[0] == 45, cs[0] == 43), zx(1)) if n >= 3 else z3.BoolVal(False))
            return ok, val, hexlike
        OKT, VAL, HEX = spec()
        fits = z3.And(VAL >= lo, VAL <= hi)
        if target == "uint":
            # a text with a minus sign is not the text of an unsigned number (also "-0")
            OKT = z3.And(OKT, cs[0] != 45) if n >= 1 else OKT

        def run(vals):
            t = ct.StringType(mks(SStr, cs, "".join(chr(vals[f"t_c{i}"]) for i in range(n)))) if n else ct.StringType("")
            kd, r = common.outcome(lambda: prog.evaluate({"t": t}))
            if kd == "error":
                return [Ob(f"C10/{target}(text)/error-only-unparsable-or-out-of-range@{runner}", z3.Or(HEX, z3.Not(z3.And(OKT, fits))))]
            if kd != "value":
                return [Ob(f"C10/{target}(text)/no-escape@{runner}", z3.BoolVal(False), note=f"{type(r).__name__}: {r}", tags={"exc": type(r).__name__})]
            return [Ob(f"C10/{target}(text)/value-only-for-number-text@{runner}", z3.Or(HEX, z3.And(OKT, fits, tm(r) == VAL)),
                       note="a value only for [+-]digits text (ASCII), and then the spelled number")]
        return Harness(id=f"C10/{what}/{n}@{runner}", vars=vars, pre=pre or [z3.Int("dummy") == 0], run=run, witness=lambda vals: W(vals, n=n), max_paths=400)

    if what in ("int(double)", "uint(double)"):
        target = what.split("(")[0]
        D = z3.FP("d", F64)
        prog = common.make_program(f"{target}(d)", runner)
        w = TRUNC_BITS
        lo, hi = (MIN64, MAX64) if target == "int" else (0, MAXU64)
        sbv = z3.fpToSBV(RTZ, D, z3.BitVecSort(w))
        lim = float(2 ** (w - 1))
        small = z3.And(z3.fpLT(D, fp_val(lim)), z3.fpGT(D, fp_val(-lim)))
        finite = z3.Not(z3.Or(z3.fpIsNaN(D), z3.fpIsInf(D)))
        inrange = z3.And(finite, small, sbv >= z3.BitVecVal(lo, w), sbv <= z3.BitVecVal(hi, w))

        def run(vals):
            d = ct.DoubleType(mkf(SFloat, D, vals["d"]))
            kd, r = common.outcome(lambda: prog.evaluate({"d": d}))
            if kd == "error":
                return [Ob(f"C10/{target}(double)/error-only-out-of-range@{runner}", z3.Not(inrange))]
            if kd != "value":
                return [Ob(f"C10/{target}(double)/no-escape@{runner}", z3.BoolVal(False), note=f"{type(r).__name__}: {r}", tags={"exc": type(r).__name__})]
            bv = _attr(r, int, "_bv")
            if bv is not None:
                same = bv == sbv
            elif is_sym(r):
                same = tm(r) == z3.BV2Int(sbv, True)
            else:
                same = z3.BitVecVal(int(r), w) == sbv
            return [Ob(f"C10/{target}(double)/truncates-toward-zero@{runner}", z3.And(inrange, same),
                       note="a value only inside the target range, and then trunc(d)")]
        return Harness(id=f"C10/{what}@{runner}", vars={"d": D}, pre=[], run=run, witness=lambda vals: W(vals), max_paths=60)

    if what in ("int(uint)", "uint(int)", "int(int)", "uint(uint)"):
        target, src = what[:-1].split("(")
        X = z3.Int("x")
        slo, shi = (MIN64, MAX64) if src == "int" else (0, MAXU64)
        tlo, thi = (MIN64, MAX64) if target == "int" else (0, MAXU64)
        prog = common.make_program(f"{target}(x)", runner)
        cls = ct.IntType if src == "int" else ct.UintType
        want = ct.IntType if target == "int" else ct.UintType
        fits = z3.And(X >= tlo, X <= thi)

        def run(vals):
            x = cls(mk(SInt, X, vals["x"]))
            kd, r = common.outcome(lambda: prog.evaluate({"x": x}))
            if kd == "error":
                return [Ob(f"C10/{what}/error-only-out-of-range@{runner}", z3.Not(fits))]
            if kd != "value":
                return [Ob(f"C10/{what}/no-escape@{runner}", z3.BoolVal(False), note=repr(r)[:100])]
            return [Ob(f"C10/{what}/value@{runner}", z3.And(fits, tm(r) == X), note="never wrapped or clamped"),
                    Ob(f"C10/{what}/class@{runner}", z3.BoolVal(type(r) is want), note=type(r).__name__)]
        return Harness(id=f"C10/{what}@{runner}", vars={"x": X}, pre=[X >= slo, X <= shi], run=run, witness=lambda vals: W(vals), max_paths=40)

    if what in ("int(string(int))", "uint(string(uint))"):
        t = "int" if what.startswith("int") else "uint"
        X = z3.Int("x")
        lo, hi = (MIN64, MAX64) if t == "int" else (0, MAXU64)
        prog = common.make_program(f"{t}(string(x)) == x", runner)
        prog2 = common.make_program(f"{t}(string(x))", runner)
        prog3 = common.make_program("string(x)", runner)
        cls = ct.IntType if t == "int" else ct.UintType

        def run(vals):
            x = cls(mk(SInt, X, vals["x"]))
            obs = []
            kd, r = common.outcome(lambda: prog.evaluate({"x": x}))
            obs.append(Ob(f"C10/{what}/round-trip@{runner}", common.truth_term(r) if kd == "value" else z3.BoolVal(False), note=f"{kd}"))
            kd, r = common.outcome(lambda: prog2.evaluate({"x": x}))
            obs.append(Ob(f"C10/{what}/value@{runner}", (tm(r) == X) if kd == "value" else z3.BoolVal(False)))
            kd, r = common.outcome(lambda: prog3.evaluate({"x": x}))
            if kd == "value":
                cs = cterms(r)
                # decimal rendering: optional '-', then digits, no leading zero unless the number is 0
                digs = cs[1:] if (len(cs) and z3.is_int_value(cs[0]) and cs[0].as_long() == 45) else cs
                wf = z3.And([z3.And(c >= 48, c <= 57) for c in digs]) if digs else z3.BoolVal(False)
                obs.append(Ob(f"C10/string({t})/decimal-digits@{runner}", wf))
            else:
                obs.append(Ob(f"C10/string({t})/value@{runner}", z3.BoolVal(False)))
            return obs
        return Harness(id=f"C10/{what}@{runner}", vars={"x": X}, pre=[X >= lo, X <= hi], run=run, witness=lambda vals: W(vals),
                       max_paths=120, timeout_ms=60000)

    if what in ("string(string)", "double(double)", "bool(bool)"):
        t = what.split("(")[0]
        shape = {"string": ("string", 2), "double": ("double",), "bool": ("bool",)}[t]
        vars, pre = V.shape_vars(shape, "x")
        prog = common.make_program(f"{t}(x)", runner)

        def run(vals):
            x = V.build(shape, "x", vals)
            kd, r = common.outcome(lambda: prog.evaluate({"x": x}))
            if kd != "value":
                return [Ob(f"C10/{what}/identity@{runner}", z3.BoolVal(False), note=f"{kd} {r!r}"[:100])]
            from . import skel
            return [Ob(f"C10/{what}/identity@{runner}", skel.equal_term(r, x)),
                    Ob(f"C10/{what}/class@{runner}", z3.BoolVal(common.value_class(r) == common.value_class(x)))]
        return Harness(id=f"C10/{what}@{runner}", vars=vars, pre=pre, run=run, witness=lambda vals: W(vals), max_paths=20)

    if what == "string(bytes(s))":
        n = task["n"]
        shape = ("string", n)
        vars, pre = V.shape_vars(shape, "s")
        prog = common.make_program("string(bytes(s)) == s", runner)
        prog2 = common.make_program("string(bytes(s))", runner)
        prog3 = common.make_program("size(bytes(s))", runner)
        S = [z3.Int(f"s_c{i}") for i in range(n)]

        def run(vals):
            s = V.build(shape, "s", vals)
            obs = []
            kd, r = common.outcome(lambda: prog.evaluate({"s": s}))
            obs.append(Ob(f"C10/string(bytes(s))/round-trip@{runner}", common.truth_term(r) if kd == "value" else z3.BoolVal(False), note=kd))
            kd, r = common.outcome(lambda: prog2.evaluate({"s": s}))
            if kd == "value" and len(cterms(r)) == n:
                obs.append(Ob(f"C10/string(bytes(s))/value@{runner}", z3.And([a == b for a, b in zip(cterms(r), S)]) if n else z3.BoolVal(True)))
            else:
                obs.append(Ob(f"C10/string(bytes(s))/value@{runner}", z3.BoolVal(False), note=f"{kd}"))
            kd, r = common.outcome(lambda: prog3.evaluate({"s": s}))
            if kd == "value":
                ln = z3.Sum([z3.If(c < 0x80, 1, z3.If(c < 0x800, 2, z3.If(c < 0x10000, 3, 4))) for c in S]) if n else z3.IntVal(0)
                obs.append(Ob(f"C10/bytes(string)/utf8-length@{runner}", tm(r) == ln))
            else:
                obs.append(Ob(f"C10/bytes(string)/utf8-length@{runner}", z3.BoolVal(False)))
            return obs
        return Harness(id=f"C10/{what}/{n}@{runner}", vars=vars or {"dummy": z3.Int("dummy")}, pre=pre, run=run,
                       witness=lambda vals: W(vals, n=n), max_paths=200)

    if what == "string(bytes)":
        n = task["n"]
        shape = ("bytes", n)
        vars, pre = V.shape_vars(shape, "y")
        prog = common.make_program("string(y)", runner)
        prog2 = common.make_program("bytes(string(y)) == y", runner)
        Y = [z3.Int(f"y_b{i}") for i in range(n)]

        def run(vals):
            y = V.build(shape, "y", vals)
            kd, r = common.outcome(lambda: prog.evaluate({"y": y}))
            if kd == "escape":
                return [Ob(f"C10/string(bytes)/no-escape@{runner}", z3.BoolVal(False), note=f"{type(r).__name__}: {r}", tags={"exc": type(r).__name__})]
            valid = utf8_valid(Y)
            if kd == "error":
                return [Ob(f"C10/string(bytes)/error-only-invalid-utf8@{runner}", z3.Not(valid), note="an error only for octets that are not valid UTF-8 (RFC 3629)")]
            kd2, r2 = common.outcome(lambda: prog2.evaluate({"y": y}))
            cs = cterms(r)
            scalar = z3.And([z3.And(c >= 0, c <= 0x10FFFF, z3.Not(z3.And(c >= 0xD800, c <= 0xDFFF))) for c in cs]) if cs else z3.BoolVal(True)
            return [Ob(f"C10/string(bytes)/value-only-valid-utf8@{runner}", valid, note="invalid UTF-8 must be an error, never a value"),
                    Ob(f"C10/string(bytes)/scalar-values@{runner}", scalar, note="the decoded string holds Unicode scalar values only"),
                    Ob(f"C10/string(bytes)/re-encodes@{runner}", common.truth_term(r2) if kd2 == "value" else z3.BoolVal(False),
                       note="a decoded string encodes back to the same octets (so the value is the UTF-8 reading, not another codec's)")]
        return Harness(id=f"C10/{what}/{n}@{runner}", vars=vars, pre=pre, run=run, witness=lambda vals: W(vals, n=n), max_paths=400)

    if what == "bytes(string)":
        n = task["n"]
        shape = ("string", n)
        vars, pre = V.shape_vars(shape, "s")
        prog = common.make_program("bytes(s)", runner)
        S = [z3.Int(f"s_c{i}") for i in range(n)]
        from .c07 import utf8_terms

        def run(vals):
            s = V.build(shape, "s", vals)
            kd, r = common.outcome(lambda: prog.evaluate({"s": s}))
            if kd != "value":
                return [Ob(f"C10/bytes(string)/value@{runner}", z3.BoolVal(False), note=f"{kd} {r!r}"[:100])]
            got = bterms(r)
            alts = [([], z3.BoolVal(True))]
            for c in S:
                new = []
                for cond, octs in utf8_terms(c):
                    new += [(o + octs, z3.And(k, cond)) for o, k in alts]
                alts = new
            ok = z3.Or([z3.And([k] + [g == o for g, o in zip(got, octs)]) for octs, k in alts if len(octs) == len(got)] or [z3.BoolVal(False)])
            return [Ob(f"C10/bytes(string)/utf8-octets@{runner}", ok),
                    Ob(f"C10/bytes(string)/class@{runner}", z3.BoolVal(type(r) is ct.BytesType))]
        return Harness(id=f"C10/{what}/{n}@{runner}", vars=vars or {"dummy": z3.Int("dummy")}, pre=pre, run=run,
                       witness=lambda vals: W(vals, n=n), max_paths=200)
    raise ValueError(what)


TS = ["0001-01-01T00:00:00Z", "0001-01-01T00:00:01Z", "0099-12-31T23:59:59Z", "0999-01-01T00:00:00Z", "0999-12-31T23:59:59Z", "1000-01-01T00:00:00Z",
      "1582-10-15T12:00:00Z", "1969-12-31T23:59:59Z", "1970-01-01T00:00:00Z", "2000-02-29T12:34:56Z", "2009-02-13T23:31:30Z", "2038-01-19T03:14:08Z",
      "2100-02-28T23:59:59Z", "9999-12-31T23:59:59Z", "2020-06-30T23:59:59+05:30", "2020-01-01T00:00:00-08:00", "0001-01-02T00:00:00+14:00",
      "9999-12-30T12:00:00-12:00", "2020-03-01T00:15:00-03:30", "1999-12-31T23:45:00-09:30", "2021-07-04T00:10:00-00:30", "2010-10-10T10:10:10+05:45",
      "2015-06-30T23:59:59+12:45", "2000-01-01T00:00:00-00:01", "1985-04-12T23:20:50+00:01"]
DUR = [0, 1, -1, 59, 60, 3600, 86399, 86400, -86400, 315576000000, -315576000000, 315575999999, 1234567, -7200]
DBL = [0.0, -0.0, 1.0, -1.5, 0.1, 1e22, 1e23, 5e-324, 1.7976931348623157e308, 2.2250738585072014e-308, 123456789.123456789, 1 / 3,
       9007199254740993.0, 1e-7, 1e16, float("inf"), float("-inf")]


def extra_validation():
    ws = [{"check": "c10.text_round_trip", "args": {"kind": "timestamp", "value": t}} for t in TS]
    ws += [{"check": "c10.text_round_trip", "args": {"kind": "duration", "value": d}} for d in DUR]
    ws += [{"check": "c10.text_round_trip", "args": {"kind": "double", "value": enc(d)}} for d in DBL]
    return ws
