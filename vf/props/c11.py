"""C11 timestamp and duration arithmetic and calendar accessors are exact."""
import os

os.environ["VERIF_TIME_SHADOW"] = "1"  # must precede the import of vf.sym.core / the shadow loading of celtypes

import z3  # noqa: E402

from .. import explore  # noqa: E402
from ..explore import Harness, Ob  # noqa: E402
from ..sym.core import SInt, mk, tm, bool_term  # noqa: E402
from ..sym import strs, times as T  # noqa: E402
from . import common  # noqa: E402
from ..replay import enc  # noqa: E402

PROP = "C11"
LEVEL = "model_checking"
FIDELITY_TESTS = ["tests/test_celtypes.py", "tests/test_evaluation.py"]
FIDELITY_TESTS_THOROUGH = ["tests"]
US, DAY, MIN_L, MAX_L = T.US, T.DAY, T.MIN_L, T.MAX_L
DMAX = 315576000000 * US
ZONES_QUICK = ("UTC", "Europe/Paris", "America/St_Johns")
ZONES_THOROUGH = ("UTC", "Europe/Paris", "America/St_Johns", "Asia/Kolkata", "Australia/Lord_Howe", "US/Central", "Pacific/Apia")
GETTERS = ("getFullYear", "getMonth", "getDate", "getDayOfMonth", "getDayOfYear", "getDayOfWeek", "getHours", "getMinutes", "getSeconds", "getMilliseconds")
BOUNDS = {
    "quick": {"timestamps": "every UTC instant 0001-01-01T00:00:00Z .. 9999-12-31T23:59:59.999999Z at microsecond resolution (one symbolic integer), "
                            "displayed at every fixed offset -14:00..+14:00 in whole minutes (second symbolic integer)",
              "durations": "every duration within +-315,576,000,000 s at microsecond resolution",
              "offset arguments": "texts [+-]dd:dd and d:dd with symbolic digits, |offset| <= 14:00, minutes <= 59",
              "IANA zones": list(ZONES_QUICK) + ["per zone: the offset intervals reached from the solver's instants, at most 64 intervals per harness"],
              "duration texts": "DhDmDs, DDhDDmDDs, [+-]DDu for every unit u, D.DDs, DDDms/us/ns with symbolic digits and sign; one text with a symbolic unit letter",
              "runners": "both"},
    "thorough": {"timestamps": "same", "durations": "same", "offset arguments": "additionally [+-]d:dd and dd:dd",
                 "IANA zones": list(ZONES_THOROUGH), "duration texts": "additionally three-component texts with fractions and 4-digit numbers", "runners": "both"},
}
OUTSIDE = ["leap seconds and nanosecond resolution (the implementation stores microseconds; sub-microsecond duration texts are required to round to the nearest microsecond only)",
           "timestamp(string) parsing and string(timestamp) (C10)", "IANA zones other than the listed ones; zone offsets are whatever the installed tz database says",
           "a result whose UTC form is in 0001..9999 but whose displayed local form is not (or the reverse): either outcome is accepted, "
           "because the statement does not say in which zone the range applies"]
ASSUMPTIONS = ["TRUSTED MODEL: vf/sym/times.py re-implements CPython's C datetime/timedelta/timezone arithmetic over integer microsecond terms; every value it builds is "
               "cross-checked against the real C type, the repository's own timestamp tests run under it (fidelity self-check) and validation replays compare its "
               "predictions with the un-shadowed code",
               "float arithmetic on total_seconds()/timestamp() values is exact rational arithmetic in the model (binary rounding of the intermediate doubles abstracted); "
               "float constants in the unit scale table are read as the decimals they spell",
               "calendar lemmas (civil_from_days inverts the textbook ordinal formula; the date fields are valid; the field round trip is the identity) are discharged by z3 "
               "over the whole day range in every run (harness C11/lemma/*)"]
TRUSTED = ["z3 5.1", "CPython 3.12 datetime (C) as modelled by vf/sym/times.py", "tz database via zoneinfo/pendulum for IANA offsets", "textbook proleptic Gregorian ordinal formula"]
MANIFEST = {
    "text": "Symbolic execution of TimestampType.__new__/__add__/__radd__/__sub__, tz_parse/tz_name_lookup/tz_offset_parse, the ten TimestampType getters, DurationType.__new__ "
            "(timedelta, text grammar, scale table, range check), DurationType.__add__/__sub__/getters, the function_get* wrappers and addition/subtraction in evaluation.py, under "
            "both runners, on a symbolic instant (integer microseconds), symbolic display offset, symbolic duration, symbolic digits of the offset argument and of duration texts. "
            "z3 proves (t+d)-d==t, (t+d)-t==d, t1-t2 == elapsed, error exactly outside the range, each accessor equal to the civil field of instant+offset, and duration text == "
            "sum of number x unit, for all values in the stated ranges.",
    "note": "CPython's datetime is C code: it is replaced by a term-level model (vf/sym/times.py, trusted, cross-checked against the C type on every constructed value). "
            "Calendar lemmas are proved by z3 over all 3.65 million days each run.",
    "technique": "symbolic execution of the real Python byte-code with shadow builtins and a term-level datetime model + z3 (linear integer arithmetic with div/mod; calendar lemmas per 400-year era) with cvc5 as second back end for the bit-vector/floating-point duration-getter queries; counterexample replay",
    "design_ref": "DESIGN.md §7 C11, §10.2 (time model, exact rationals, cvc5 back end)",
}

E, O, D = z3.Int("e"), z3.Int("o"), z3.Int("d")
E2, O2, D2 = z3.Int("e2"), z3.Int("o2"), z3.Int("d2")


def _ts_pre(e, o):
    return [e >= MIN_L, e <= MAX_L, o >= -840, o <= 840, e + o * 60 * US >= MIN_L, e + o * 60 * US <= MAX_L]


def _d_pre(d):
    return [d >= -DMAX, d <= DMAX]


def _in(x):
    return z3.And(x >= MIN_L, x <= MAX_L)


def classic_ordinal(y, m, d):
    cum = [0, 31, 59, 90, 120, 151, 181, 212, 243, 273, 304, 334]
    leap = z3.And(y % 4 == 0, z3.Or(y % 100 != 0, y % 400 == 0))
    before = z3.IntVal(0)
    for k in range(2, 13):
        before = z3.If(m == k, cum[k - 1] + (z3.If(leap, 1, 0) if k > 2 else 0), before)
    y1 = y - 1
    return y1 * 365 + y1 / 4 - y1 / 100 + y1 / 400 + before + d


def spec_fields(local):
    """civil fields of a wall clock (term).  Year/month/day are T.civil_from_days -- tied to the textbook ordinal formula by lemma C11/lemma/civil-inverts-ordinal"""
    days, sod = local / DAY, local % DAY
    y, m, d = T.civil_from_days(days)
    return {"getFullYear": y, "getMonth": m - 1, "getDate": d, "getDayOfMonth": d - 1,
            "getDayOfYear": days - T.days_from_civil(y, 1, 1),  # lemma C11/lemma/jan1
            "getDayOfWeek": (days + 4) % 7,  # 1970-01-01 was a Thursday
            "getHours": sod / (3600 * US), "getMinutes": (sod / (60 * US)) % 60, "getSeconds": (sod / US) % 60, "getMilliseconds": (sod % US) / 1000}


def tasks(tier):
    # calendar lemmas over all days of 0001..9999: one solver query per 400-year era (every day number z is
    # era*146097 + doe - 719468 for exactly one era in 0..24 and doe in [0, 146097), so the 25 queries cover the range)
    ts = [{"tier": tier, "t": ["lemma", n, era]} for n in ("civil-inverts-ordinal", "fields-valid", "roundtrip") for era in range(25)]
    ts += [{"tier": tier, "t": ["lemma", n, -1]} for n in ("jan1", "weekday")]
    ts += [{"tier": tier, "t": [k]} for k in ("add-sub", "diff", "dur-arith", "dur-getters")]
    ts += [{"tier": tier, "t": ["dur-getters-fp", g]} for g in ("getHours", "getMinutes", "getSeconds", "getMilliseconds")]
    modes = ["none", "offset+dd:dd", "offsetd:dd"] + list(ZONES_QUICK if tier == "quick" else ZONES_THOROUGH)
    if tier != "quick":
        modes += ["offset+d:dd", "offsetdd:dd"]
    ts += [{"tier": tier, "t": ["getters", m]} for m in modes]
    ts += [{"tier": tier, "t": ["dur-parse", s]} for s in _dur_shapes(tier)]
    return ts


def _dur_shapes(tier):
    q = ["DhDmDs", "DDhDDmDDs", "?DDh", "?DDm", "?DDs", "?DDms", "?DDus", "?DDns", "DDµs", "D.DDs", "DDDms", "DDDus", "DDDns", "DD*", "?DhDDm", "DDDDDDDDDDDDs", "?DDDDDDDDh", ".Ds", "D.s", "?Dh.DDm"]
    if tier != "quick":
        q += ["D.DhD.DmD.Ds", "DDDDhDDDDmDDDDs", "?D.DDDms", ".DDDms", "DmsDusDns", "DsDmDh", "?DDD.DDDs", "DhDh"]
    return q


def run_task(task, kf):
    from ..sym import loader
    t = tuple(task["t"])
    out = []
    if t[0] == "lemma":
        return [explore.explore(_lemma(t[1], t[2]), kf)]
    for runner in common.RUNNERS:
        for h in _harnesses(t, runner, task["tier"]):
            out.append(explore.explore(h, kf, profile_root=loader.SRC))
    return out


# ----------------------------------------------------------------------------- lemmas (pure solver queries)
def _lemma(name, era):
    doe, y = z3.Int("doe"), z3.Int("y")
    lo, hi = 1 - T.EPOCH_ORD, 3652059 - T.EPOCH_ORD
    z = era * 146097 + doe - 719468
    cy, cm, cd = T.civil_from_days(z)
    rng = [doe >= 0, doe < 146097, z >= lo, z <= hi]
    vars = {"doe": doe}
    if name == "civil-inverts-ordinal":
        goal = classic_ordinal(cy, cm, cd) == z + T.EPOCH_ORD
    elif name == "fields-valid":
        goal = z3.And(cy >= 1, cy <= 9999, cm >= 1, cm <= 12, cd >= 1, cd <= T.days_in_month(cy, cm))
    elif name == "roundtrip":
        goal = T.days_from_civil(cy, cm, cd) == z
    elif name == "jan1":
        vars, rng = {"y": y}, [y >= 1, y <= 9999]
        goal = T.days_from_civil(y, 1, 1) + T.EPOCH_ORD == classic_ordinal(y, z3.IntVal(1), z3.IntVal(1))
    elif name == "weekday":
        # the model's isoweekday, reduced mod 7, is Sunday = 0 counted from the Thursday 1970-01-01
        z = z3.Int("z")
        vars, rng = {"z": z}, [z >= lo, z <= hi]
        goal = (((z + T.EPOCH_ORD + 6) % 7) + 1) % 7 == (z + 4) % 7
    else:
        raise ValueError(name)
    hid = f"C11/lemma/{name}" + (f"/era{era}" if era >= 0 else "")
    h = Harness(id=hid, vars=vars, pre=rng, run=lambda vals: [Ob(f"C11/lemma/{name}", goal)],
                witness=lambda vals: {"check": "c11.lemma", "args": enc({"name": name, "vals": dict(vals), "era": era})}, max_paths=1, timeout_ms=300_000)
    h.max_seconds = 600
    return h


# ----------------------------------------------------------------------------- harnesses
def _utc_term(r):
    return r._utc()[0] if T.dt_is_sym(r) else z3.IntVal(T._View(r)._utc()[1])


def _td_term(r):
    return T.td_us(r)[0]


def _esc(obs, hid, r):
    obs.append(Ob(hid, z3.BoolVal(False), note=repr(r)[:120]))


def _harnesses(t, runner, tier):
    celpy, ct, ev = common.mods()
    kind = t[0]

    def ts(e, o, vals, en="e", on="o"):
        return ct.TimestampType(T.make_datetime(mk(SInt, e, vals[en]), mk(SInt, o, vals[on])))

    def du(d, vals, dn="d"):
        return ct.DurationType(T.make_timedelta(mk(SInt, d, vals[dn])))

    def wit(vals, **extra):
        return {"check": "c11.case", "args": enc({"kind": kind, "runner": runner, "vals": dict(vals), **extra})}

    if kind == "add-sub":
        laws = [(s, common.make_program(s, runner)) for s in ("(t + d) - d == t", "(t + d) - t == d", "d + t == t + d")]
        vals_p = [(s, common.make_program(s, runner), w) for s, w in (("t + d", E + D), ("d + t", E + D), ("t - d", E - D))]
        off = O * 60 * US

        def run(vals):
            b = {"t": ts(E, O, vals), "d": du(D, vals)}
            obs = []
            must_ok = z3.And(_in(E + D), _in(E + D + off))
            must_err = z3.And(z3.Not(_in(E + D)), z3.Not(_in(E + D + off)))
            for s, p in laws:
                kd, r = common.outcome(lambda: p.evaluate(dict(b)))
                if kd == "value":
                    obs.append(Ob(f"C11/law/{s}@{runner}", z3.And(z3.Not(must_err), bool_term(r))))
                elif kd == "error":
                    obs.append(Ob(f"C11/law/error-only-out-of-range/{s}@{runner}", z3.Not(must_ok)))
                else:
                    _esc(obs, f"C11/law/escape@{runner}", r)
            for s, p, w in vals_p:
                kd, r = common.outcome(lambda: p.evaluate(dict(b)))
                ok_ = z3.And(_in(w), _in(w + off))
                err_ = z3.And(z3.Not(_in(w)), z3.Not(_in(w + off)))
                if kd == "value":
                    obs.append(Ob(f"C11/arith/{s}@{runner}", z3.And(z3.Not(err_), _utc_term(r) == w)))
                elif kd == "error":
                    obs.append(Ob(f"C11/arith/error-only-out-of-range/{s}@{runner}", z3.Not(ok_)))
                else:
                    _esc(obs, f"C11/arith/escape@{runner}", r)
            return obs
        return [Harness(id=f"C11/add-sub@{runner}", vars={"e": E, "o": O, "d": D}, pre=_ts_pre(E, O) + _d_pre(D), run=run, witness=wit, max_paths=200)]

    if kind == "diff":
        p = common.make_program("t1 - t2", runner)
        cmps = [(s, common.make_program(s, runner), w) for s, w in (("t1 < t2", E < E2), ("t1 == t2", E == E2), ("t1 >= t2", E >= E2))]

        def run(vals):
            b = {"t1": ts(E, O, vals), "t2": ts(E2, O2, vals, "e2", "o2")}
            obs = []
            kd, r = common.outcome(lambda: p.evaluate(dict(b)))
            if kd == "value":
                obs.append(Ob(f"C11/diff/elapsed@{runner}", _td_term(r) == E - E2))
            else:
                obs.append(Ob(f"C11/diff/{kd}@{runner}", z3.BoolVal(False), note=repr(r)[:100]))
            for s, q, w in cmps:
                kd, r = common.outcome(lambda: q.evaluate(dict(b)))
                obs.append(Ob(f"C11/diff/{s}@{runner}", bool_term(r) == w) if kd == "value" else Ob(f"C11/diff/{kd}@{runner}", z3.BoolVal(False), note=repr(r)[:100]))
            return obs
        return [Harness(id=f"C11/diff@{runner}", vars={"e": E, "o": O, "e2": E2, "o2": O2}, pre=_ts_pre(E, O) + _ts_pre(E2, O2), run=run, witness=wit, max_paths=100)]

    if kind == "dur-arith":
        ps = [(s, common.make_program(s, runner), w) for s, w in (("d1 + d2", D + D2), ("d1 - d2", D - D2))]

        def run(vals):
            b = {"d1": du(D, vals), "d2": du(D2, vals, "d2")}
            obs = []
            for s, p, w in ps:
                kd, r = common.outcome(lambda: p.evaluate(dict(b)))
                inr = z3.And(w >= -DMAX, w <= DMAX)
                if kd == "value":
                    obs.append(Ob(f"C11/dur/{s}@{runner}", z3.And(inr, _td_term(r) == w)))
                elif kd == "error":
                    obs.append(Ob(f"C11/dur/error-only-out-of-range/{s}@{runner}", z3.Not(inr)))
                else:
                    _esc(obs, f"C11/dur/escape@{runner}", r)
            return obs
        return [Harness(id=f"C11/dur-arith@{runner}", vars={"d": D, "d2": D2}, pre=_d_pre(D) + _d_pre(D2), run=run, witness=wit, max_paths=100)]

    if kind in ("dur-getters", "dur-getters-fp"):
        tr = lambda a, k: z3.If(a >= 0, a / k, -((-a) / k))  # noqa: E731
        units = (("getHours", 3600 * US), ("getMinutes", 60 * US), ("getSeconds", US), ("getMilliseconds", 1000))
        ps = [(g, common.make_program(f"d.{g}()", runner), k) for g, k in units]
        from ..sym.core import _attr

        def run(vals):
            b = {"d": du(D, vals)}
            obs = []
            for g, p, k in ps:
                kd, r = common.outcome(lambda: p.evaluate(dict(b)))
                obs.append(Ob(f"C11/dur/{g}@{runner}", tm(r) == tr(D, k)) if kd == "value" else Ob(f"C11/dur/{g}-{kd}@{runner}", z3.BoolVal(False), note=repr(r)[:100]))
            return obs

        # second harness: the duration is a 64-bit vector, so that an implementation going through total_seconds() is
        # followed in faithful binary floating point (|d| <= 2**53 us) instead of the exact-rational abstraction; it
        # raises obligations only for results that were computed that way
        DB = z3.BitVec("d", 64)
        DI = z3.BV2Int(DB, True)

        def signed(v):
            return v - 2**64 if v >= 2**63 else v

        def mk_fp(g, p, k):
            def run_fp(vals):
                b = {"d": ct.DurationType(T.make_timedelta(mk(SInt, DI, signed(vals["d"]), bv=DB)))}
                kd, r = common.outcome(lambda: p.evaluate(dict(b)))
                rb = _attr(r, int, "_bv") if kd == "value" else None
                if rb is not None:
                    w = rb.size()
                    return [Ob(f"C11/dur/{g}/binary-float-path@{runner}", rb == z3.SignExt(w - 64, DB) / z3.BitVecVal(k, w))]
                # not computed through binary floating point on this path: the exact obligation of C11/dur-getters applies
                return [Ob(f"C11/dur/{g}/no-binary-float-on-path@{runner}", z3.BoolVal(kd == "value"), note=kd)]
            h = Harness(id=f"C11/dur-getters-fp/{g}@{runner}", vars={"d": DB}, pre=[DB >= -DMAX, DB <= DMAX], run=run_fp,
                        witness=lambda vals: wit({"d": signed(vals["d"])}), max_paths=6, timeout_ms=10_000)
            h.max_seconds = 200
            h.cvc5_ms = 40_000  # QF_BVFP with division: cvc5 finds the counterexamples z3 does not reach
            return h
        if kind == "dur-getters-fp":
            kind = "dur-getters"  # same oracle
            return [mk_fp(g, p, k) for g, p, k in ps if g == t[1]]
        return [Harness(id=f"C11/dur-getters@{runner}", vars={"d": D}, pre=_d_pre(D), run=run, witness=wit, max_paths=100)]

    if kind == "getters":
        mode = t[1]
        vars = {"e": E, "o": O}
        pre = _ts_pre(E, O)
        zlen = 0
        if mode == "none":
            arg = ""
        else:
            arg = "z"
        if mode.startswith("offset"):
            shape = mode[len("offset"):]
            zlen = len(shape)
            zc = [z3.Int(f"z_c{i}") for i in range(zlen)]
            digs = []
            for c, ch in zip(zc, shape):
                vars[str(c)] = c
                if ch == "+":
                    pre.append(z3.Or(c == 43, c == 45))
                elif ch == ":":
                    pre.append(c == 58)
                else:
                    pre += [c >= 48, c <= 57]
                    digs.append(c - 48)
            mm = digs[-2] * 10 + digs[-1]
            hh = digs[0] * 10 + digs[1] if len(digs) == 4 else digs[0]
            sign = z3.If(zc[0] == 45, -1, 1) if shape[0] == "+" else 1
            pre += [mm <= 59, hh * 60 + mm <= 840]
            offarg = sign * (hh * 60 + mm) * 60 * US
        progs = [(g, common.make_program(f"t.{g}({arg})", runner)) for g in GETTERS]

        def run(vals):
            b = {"t": ts(E, O, vals)}
            if mode.startswith("offset"):
                conc = "".join(chr(vals[f"z_c{i}"]) for i in range(zlen))
                b["z"] = ct.StringType(strs.mks(strs.SStr, zc, conc))
                off, guard = offarg, z3.BoolVal(True)
            elif mode == "none":
                off, guard = z3.IntVal(0), z3.BoolVal(True)
            else:
                import zoneinfo
                b["z"] = ct.StringType(mode)
                lo, hi, o2 = T._iana_interval(_zone(mode), vals["e"] // US)
                if o2 is None:
                    off, guard = z3.IntVal(0), z3.BoolVal(False)
                else:
                    off, guard = z3.IntVal(T.td_us(o2)[1]), z3.And(E >= lo * US, E < hi * US)
            loc = E + off
            spec = spec_fields(loc)
            obs = []
            for g, p in progs:
                kd, r = common.outcome(lambda: p.evaluate(dict(b)))
                if kd == "value":
                    obs.append(Ob(f"C11/get/{g}@{runner}", z3.Implies(guard, z3.And(_in(loc), tm(r) == spec[g])), tags={"tz": mode}))
                elif kd == "error":
                    obs.append(Ob(f"C11/get/error-only-out-of-range/{g}@{runner}", z3.Implies(guard, z3.Not(_in(loc))), tags={"tz": mode}, note=repr(r)[:100]))
                else:
                    _esc(obs, f"C11/get/escape/{g}@{runner}", r)
            return obs
        return [Harness(id=f"C11/getters/{mode}@{runner}", vars=vars, pre=pre, run=run, witness=lambda vals: wit(vals, tz=mode, zlen=zlen), max_paths=120)]

    if kind == "dur-parse":
        shape = t[1]
        n = len(shape)
        sc = [z3.Int(f"s_c{i}") for i in range(n)]
        vars = {str(c): c for c in sc}
        pre = []
        # spec: exact value in nanoseconds as (numerator, denominator)
        comps, cur, frac, sign = [], None, None, z3.IntVal(1)
        i = 0
        star = None
        items = []  # (kind, payload)
        while i < n:
            ch = shape[i]
            c = sc[i]
            if ch == "?":
                pre.append(z3.Or(c == 43, c == 45))
                sign = z3.If(c == 45, -1, 1)
            elif ch == "D":
                pre += [c >= 48, c <= 57]
                items.append(("d", c - 48))
            elif ch == ".":
                pre.append(c == 46)
                items.append((".", None))
            elif ch == "*":
                # symbolic single-letter unit: anything printable except 'd' (a days unit is accepted by the table but not named by the statement)
                pre += [c >= 33, c <= 0x2FF, c != 100, z3.Not(z3.And(c >= 48, c <= 57)), c != 46]
                star = c
                items.append(("u", "*"))
            else:
                # literal unit text (possibly two characters)
                u = ch
                while i + 1 < n and shape[i + 1] not in "D.?*" and shape[i + 1].isalpha() and (u + shape[i + 1]) in ("ms", "us", "ns", "µs"):
                    i += 1
                    u += shape[i]
                for k, uc in enumerate(u):
                    pre.append(sc[i - len(u) + 1 + k] == ord(uc))
                items.append(("u", u))
            i += 1
        SC = {"ns": 1, "us": 1000, "µs": 1000, "ms": 10**6, "s": 10**9, "m": 60 * 10**9, "h": 3600 * 10**9}
        num, den = z3.IntVal(0), 1  # total = num/den ns
        cn, cf, in_frac = z3.IntVal(0), 0, False
        valid_star = z3.BoolVal(True)
        for kd_, pl in items:
            if kd_ == "d":
                cn = cn * 10 + pl
                cf += 1 if in_frac else 0
            elif kd_ == ".":
                in_frac = True
            else:
                if pl == "*":
                    scale = z3.If(star == 104, SC["h"], z3.If(star == 109, SC["m"], SC["s"]))
                    valid_star = z3.Or(star == 104, star == 109, star == 115)
                else:
                    scale = SC[pl]
                d2 = 10 ** cf
                num, den = num * d2 + cn * scale * den, den * d2
                cn, cf, in_frac = z3.IntVal(0), 0, False
        exact_num = sign * num  # / den   (ns)
        prog = common.make_program("duration(s)", runner)

        def run(vals):
            conc = "".join(chr(vals[f"s_c{i}"]) for i in range(n))
            b = {"s": ct.StringType(strs.mks(strs.SStr, sc, conc))}
            kd, r = common.outcome(lambda: prog.evaluate(dict(b)))
            inr = z3.And(exact_num >= -DMAX * 1000 * den, exact_num <= DMAX * 1000 * den)
            if kd == "value":
                R = _td_term(r)
                diff = R * 1000 * den - exact_num
                near = z3.And(2 * diff <= 1000 * den, 2 * diff >= -1000 * den)
                return [Ob(f"C11/duration-text/value@{runner}", z3.And(valid_star, inr, near), tags={"shape": shape})]
            if kd == "error":
                return [Ob(f"C11/duration-text/error-only-invalid-or-out-of-range@{runner}", z3.Or(z3.Not(valid_star), z3.Not(inr)), tags={"shape": shape}, note=repr(r)[:100])]
            return [Ob(f"C11/duration-text/escape@{runner}", z3.BoolVal(False), note=repr(r)[:100])]
        return [Harness(id=f"C11/dur-parse/{shape}@{runner}", vars=vars, pre=pre, run=run, witness=lambda vals: wit(vals, n=n), max_paths=150)]
    raise ValueError(kind)


_ZONES = {}


def _zone(name):
    import zoneinfo
    if name not in _ZONES:
        _ZONES[name] = zoneinfo.ZoneInfo(name)
    return _ZONES[name]
