"""C12 names resolve to the longest matching binding; macro variables are scoped."""
import z3

from .. import explore
from ..explore import Harness, Ob
from ..refsem import MIN64, MAX64
from ..sym.core import SInt, mk, tm, is_sym
from . import common, c12_model as M
from ..replay import enc

PROP = "C12"
LEVEL = "model_checking"
FIDELITY_TESTS = ["tests"]
BOUNDS = {
    "quick": {"binding sets": "every non-empty subset of the prefixes of a.b.c, each bound as int variable or as nested map(s) (23 sets), no package; "
                              "packages p and p.q with every subset of {p.q.a, p.a, a} and 4 mixed-depth sets",
              "references": "a, a.b, a.b.c under both runners", "values": "one distinct symbolic int64 per binding leaf, so `which binding won` is an equality that must hold for all values",
              "macros": "10 nestings of map/filter/exists/all/exists_one with colliding and distinct iteration variables"},
    "thorough": {"same": "plus deeper mixed package sets; declarations (annotations) present for every bound name"},
}
OUTSIDE = ["protobuf package/type resolution", "leading-dot (root scope) references"]
ASSUMPTIONS = ["the winning binding is defined by the statement: first package level (p.q, p, root) that binds the head identifier; within it the longest bound dotted prefix; "
               "remaining components are field selections"]
TRUSTED = ["z3 5.1", "CPython 3.12", "vf.sym shadows", "vf.props.c12_model (reference resolver written from the statement)"]
MANIFEST = {
    "text": "Symbolic execution of NameContainer.load_annotations/load_values/find_name/resolve_name, Referent.value, Activation.resolve_variable/__getattr__, member_dot and the macro "
            "sub-evaluators / nested activations under both runners, for every enumerated set of competing dotted bindings and package prefix; each binding leaf carries its own "
            "symbolic value and z3 proves the reference evaluates to the winning binding's term for all values (or to an error where the model says so).",
    "note": "Configurations (name sets, packages, references, macro nestings) are enumerated to the stated bound; values are symbolic.",
    "technique": "symbolic execution of the real Python byte-code with shadow builtins + z3; reference resolver from the statement; counterexample replay",
    "design_ref": "DESIGN.md §7 C12",
}
LIM = 2**40


def tasks(tier):
    n = len(M.configs(tier))
    ts = [{"what": "cfg", "tier": tier, "i": i} for i in range(n)]
    ts += [{"what": "macro", "i": i} for i in range(len(M.MACROS))]
    # the same macro programs inside a package, outer variables bound at package level (p.x)
    ts += [{"what": "macro", "i": i, "pkg": "p"} for i in range(len(M.MACROS)) if "x" in M.MACROS[i][1]]
    ts += [{"what": "decl"}]
    return ts


def run_task(task, kf):
    from ..sym import loader
    out = []
    for runner in common.RUNNERS:
        if task["what"] == "cfg":
            b, pkg = M.configs(task["tier"])[task["i"]]
            for annotate in ((False, True) if task["tier"] == "thorough" else (False,)):
                for ref in M.REFS:
                    out.append(explore.explore(_cfg_harness(b, pkg, ref, runner, annotate), kf, profile_root=loader.SRC))
                    if pkg or task["tier"] == "thorough":
                        # the same reference inside a macro body (one and two levels deep): it resolves as it does outside
                        for wrap in ("[7].map(z_, {ref})[0]", "[7, 8].map(z_, [z_].map(w_, {ref})[0])[1]"):
                            out.append(explore.explore(_cfg_harness(b, pkg, ref, runner, annotate, wrap), kf, profile_root=loader.SRC))
        elif task["what"] == "macro":
            out.append(explore.explore(_macro_harness(task["i"], runner, task.get("pkg")), kf, profile_root=loader.SRC))
        else:
            out.append(explore.explore(_decl_harness(runner), kf, profile_root=loader.SRC))
    return out


def _build(spec, vals, vars):
    celpy, ct, ev = common.mods()
    if spec[0] == "int":
        return ct.IntType(mk(SInt, vars[spec[1]], vals[spec[1]]))
    return ct.MapType({ct.StringType(k): _build(v, vals, vars) for k, v in spec[1].items()})


def _same(r, spec, vars):
    """z3 Bool: result r denotes the value described by spec"""
    celpy, ct, ev = common.mods()
    if spec[0] == "int":
        if not isinstance(r, int) or isinstance(r, dict):
            return z3.BoolVal(False)
        return tm(r) == vars[spec[1]]
    if not isinstance(r, dict) or isinstance(r, ev.NameContainer):
        return z3.BoolVal(False)
    items = {str.__str__(k): v for k, v in dict.items(r)}
    if set(items) != set(spec[1]):
        return z3.BoolVal(False)
    return z3.And([_same(items[k], s, vars) for k, s in spec[1].items()])


def _cfg_harness(bindings, pkg, ref, runner, annotate, wrap=None):
    celpy, ct, ev = common.mods()
    names = []
    for n in sorted(bindings):
        names += M.leaf_vars(bindings[n])
    vars = {v: z3.Int(v) for v in names}
    pre = []
    for v in vars.values():
        pre += [v >= MIN64, v <= MAX64]
    # distinct values are not assumed: equality with the winning term must hold for all values
    ann = None
    if annotate:
        ann = {n: (ct.IntType if s[0] == "int" else ct.MapType) for n, s in bindings.items()}
    prog = common.make_program(wrap.format(ref=ref) if wrap else ref, runner, package=pkg, annotations=ann)
    exp = M.resolve(bindings, pkg, ref)
    winner = M.LAST_WINNER if exp[0] == "value" else None
    # the winning name is also the strict prefix of a longer bound name (bound "both as variable and as namespace")
    also_ns = bool(winner) and any(n != winner and n.startswith(winner + ".") for n in bindings)
    tag = f"C12/resolve/{'pkg' if pkg else 'nopkg'}" + ("/in-macro" if wrap else "")

    def run(vals):
        b = {n: _build(s, vals, vars) for n, s in bindings.items()}
        before = dict(b)
        kd, r = common.outcome(lambda: prog.evaluate(b))
        obs = []
        if exp[0] == "unspecified":
            obs.append(Ob(f"{tag}/unspecified@{runner}", z3.BoolVal(True), note="reference names a namespace; nothing asserted"))
        elif exp[0] == "error":
            obs.append(Ob(f"{tag}/error-expected@{runner}", z3.BoolVal(kd == "error"),
                          note=f"ref {ref} with {sorted(bindings)} pkg={pkg}: model says error ({exp[1]}), got {kd} {_s(r)}", tags={"got": kd}))
        elif kd != "value":
            obs.append(Ob(f"{tag}/value-expected@{runner}", z3.BoolVal(False),
                          note=f"ref {ref} with {sorted(bindings)} pkg={pkg}: expected the binding {exp[1]}, got {kd} {_s(r)}", tags={"got": kd}))
        else:
            obs.append(Ob(f"{tag}/winning-binding@{runner}", _same(r, exp[1], vars),
                          note=f"ref {ref} with {sorted(bindings)} pkg={pkg}: must denote {exp[1]}; got {_s(r)}",
                          tags={"class": type(r).__name__, "winner_is_also_namespace": also_ns}))
        obs.append(Ob(f"C12/bindings-unmodified@{runner}", z3.BoolVal(set(b) == set(before) and all(b[k] is before[k] for k in b))))
        return obs

    def witness(vals):
        return {"check": "c12.resolve", "args": enc({"bindings": bindings, "package": pkg, "ref": ref, "runner": runner, "annotate": annotate, "vals": vals, "wrap": wrap})}

    return Harness(id=f"C12/{ref}|{','.join(sorted(bindings))}|{pkg}|{int(annotate)}|{wrap or ''}@{runner}", vars=vars, pre=pre, run=run, witness=witness, max_paths=40)


def _s(r):
    try:
        return f"{type(r).__name__}:{str(r)[:60]}"
    except Exception:  # noqa: BLE001
        return type(r).__name__


def _macro_harness(i, runner, pkg=None):
    """pkg: the environment has this package and the outer variables are bound inside it (`p.x`): the reference `x` outside a
    macro resolves to `p.x`, inside the macro body the iteration variable still shadows it"""
    celpy, ct, ev = common.mods()
    src, names, f = M.MACROS[i]
    vars = {n: z3.Int(n) for n in names}
    pre = []
    for v in vars.values():
        pre += [v >= -LIM, v <= LIM]
    prog = common.make_program(src, runner, package=pkg)
    exp = f(vars)

    def run(vals):
        b = {(f"{pkg}.{n}" if pkg else n): ct.IntType(mk(SInt, vars[n], vals[n])) for n in names}
        kd, r = common.outcome(lambda: prog.evaluate(b))
        tags = {"package": pkg or ""}
        if kd != "value":
            return [Ob(f"C12/macro-scope/value@{runner}", z3.BoolVal(False), note=f"`{src}`: {kd} {_s(r)}", tags=tags)]
        return [Ob(f"C12/macro-scope/value@{runner}", tm(r) == exp, note=f"`{src}`", tags=tags)]

    def witness(vals):
        return {"check": "c12.macro", "args": enc({"i": i, "runner": runner, "vals": vals, "pkg": pkg})}

    return Harness(id=f"C12/macro/{i}{'/package-' + pkg if pkg else ''}@{runner}", vars=vars, pre=pre, run=run, witness=witness, max_paths=60)


DECL_SRCS = M.DECL_SRCS


def _decl_harness(runner):
    """bindings passed to evaluate take precedence over declarations of the same name"""
    celpy, ct, ev = common.mods()
    A, B = z3.Int("va"), z3.Int("vb")
    prog = common.make_program("a + a.b", runner, annotations={"a": ct.IntType, "a.b": ct.IntType, "c": ct.IntType})
    progc = common.make_program("c", runner, annotations={"c": ct.IntType})

    def run(vals):
        kd, r = common.outcome(lambda: common.make_program("b1", runner, annotations={"b1": ct.IntType}).evaluate(
            {"b1": ct.IntType(mk(SInt, A, vals["va"]))}))
        obs = [Ob(f"C12/binding-over-declaration@{runner}", (tm(r) == A) if kd == "value" and isinstance(r, int) else z3.BoolVal(False), note=f"{kd} {_s(r)}")]
        # a declared name referenced inside macro bodies, bound to an int and to null: the binding still wins over the declaration
        for src in DECL_SRCS:
            for kind_ in ("int", "null"):
                val = ct.IntType(mk(SInt, A, vals["va"])) if kind_ == "int" else None
                kd, r = common.outcome(lambda: common.make_program(src, runner, annotations={"b1": ct.IntType, "b2": ct.StringType}).evaluate({"b1": val}))
                if kind_ == "int":
                    ok = (tm(r) == A) if kd == "value" and isinstance(r, int) else z3.BoolVal(False)
                else:
                    ok = z3.BoolVal(kd == "value" and r is None)
                obs.append(Ob(f"C12/binding-over-declaration/in-macro@{runner}", ok, note=f"`{src}` with b1 bound to {kind_}: {kd} {_s(r)}"))
        return obs

    def witness(vals):
        return {"check": "c12.declared", "args": enc({"runner": runner, "vals": vals})}

    return Harness(id=f"C12/decl@{runner}", vars={"va": A}, pre=[A >= MIN64, A <= MAX64], run=run, witness=witness, max_paths=10)
