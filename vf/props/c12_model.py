"""Reference name-resolution model for C12 (pure Python, shared by the symbolic harness and the concrete oracle).

binding value spec: ["int", var] | ["map", {field: spec}]
resolve(bindings, package, ref) -> ("value", spec) | ("error", reason)
"""
import itertools

LAST_WINNER = None


def levels(package):
    if not package:
        return [""]
    parts = package.split(".")
    return [".".join(parts[:i]) for i in range(len(parts), 0, -1)] + [""]


def resolve(bindings, package, ref):
    comps = ref.split(".")
    for lvl in levels(package):
        pre = (lvl.split(".") if lvl else [])
        full = pre + comps
        # does this level bind the head identifier?  (some bound name starts with level + head)
        head = pre + comps[:1]
        bound_here = [n for n in bindings if n.split(".")[:len(head)] == head]
        if not bound_here:
            continue
        fulln = ".".join(full)
        if fulln not in bindings and any(n.startswith(fulln + ".") for n in bindings):
            # the reference is a proper prefix of a bound name and not itself bound: it names a namespace
            return ("unspecified", "the reference names a namespace")
        # longest bound name that is a prefix of the full reference
        best = None
        for n in bindings:
            ns = n.split(".")
            if ns[:len(pre)] == pre and len(ns) > len(pre) and full[:len(ns)] == ns:
                if best is None or len(ns) > len(best.split(".")):
                    best = n
        if best is None:
            # the reference names a namespace, not a binding: the statement does not say what that denotes
            return ("unspecified", "only longer names are bound at this level")
        spec = bindings[best]
        global LAST_WINNER
        LAST_WINNER = best
        for f in full[len(best.split(".")):]:
            if spec[0] != "map" or f not in spec[1]:
                return ("error", f"no field {f}")
            spec = spec[1][f]
        return ("value", spec)
    return ("error", "unbound")


def leaf_vars(spec, acc=None):
    acc = [] if acc is None else acc
    if spec[0] == "int":
        acc.append(spec[1])
    else:
        for k in sorted(spec[1]):
            leaf_vars(spec[1][k], acc)
    return acc


def configs(tier):
    """list of (bindings, package, annotations-or-None)"""
    out = []
    A = [None, ["int", "va"], ["map", {"b": ["int", "ma_b"]}], ["map", {"b": ["map", {"c": ["int", "ma_bc"]}]}]]
    AB = [None, ["int", "vab"], ["map", {"c": ["int", "mab_c"]}]]
    ABC = [None, ["int", "vabc"]]
    for a, ab, abc in itertools.product(A, AB, ABC):
        b = {}
        if a:
            b["a"] = a
        if ab:
            b["a.b"] = ab
        if abc:
            b["a.b.c"] = abc
        if b:
            out.append((b, None))
    # packages
    for pkg in ("p", "p.q"):
        lv = levels(pkg)
        names = [(l + "." if l else "") + "a" for l in lv]
        for r in range(1, len(names) + 1):
            for sub in itertools.combinations(range(len(names)), r):
                out.append(({names[i]: ["int", f"v{i}"] for i in sub}, pkg))
        out.append(({"p.a.b": ["int", "v0"], "a.b": ["int", "v1"]}, pkg))
        out.append(({"p.a": ["map", {"b": ["int", "v0"]}], "a.b": ["int", "v1"]}, pkg))
        out.append(({"p.a.b": ["int", "v0"], "a": ["map", {"b": ["int", "v1"]}]}, pkg))
        out.append(({"a.b.c": ["int", "v0"], "p.a": ["map", {"b": ["map", {"c": ["int", "v1"]}]}]}, pkg))
        if tier == "thorough":
            out.append(({"p.q.a.b": ["int", "v0"], "p.a.b.c": ["int", "v1"], "a": ["map", {"b": ["map", {"c": ["int", "v2"]}]}]}, pkg))
            out.append(({"p.a": ["int", "v0"], "a.b": ["int", "v1"], "a.b.c": ["int", "v2"]}, pkg))
    return out


REFS = ["a", "a.b", "a.b.c"]
# a declared name read inside macro bodies
DECL_SRCS = ["[1, 2].map(n, b1)[1]", "[1].map(n, [n].map(m, b1)[0])[0]", "[b1].map(n, n)[0]", "[1, 2].filter(n, n == 2).map(n, b1)[0]"]

MACROS = [
    # (source, bound names, expected as python lambda over dict of values)
    ("[k].map(x, x + 1)[0] + x", ["k", "x"], lambda v: (v["k"] + 1) + v["x"]),
    ("[k].map(x, [x + 1].map(x, x * 2)[0] + x)[0]", ["k"], lambda v: (v["k"] + 1) * 2 + v["k"]),
    ("[k].map(x, [j].map(y, x - y)[0])[0]", ["k", "j"], lambda v: v["k"] - v["j"]),
    ("[k].map(y, x - y)[0]", ["k", "x"], lambda v: v["x"] - v["k"]),
    ("[k].map(x, [j].map(x, x)[0] - x)[0] - x", ["k", "j", "x"], lambda v: (v["j"] - v["k"]) - v["x"]),
    ("[k].exists(x, [j].all(x, x == j) && x == k) ? x : 0 - x", ["k", "j", "x"], lambda v: v["x"]),
    ("[k, j].filter(x, x == k).map(x, x - j)[0] + x", ["k", "j", "x"], lambda v: (v["k"] - v["j"]) + v["x"]),
    ("[[k]].map(x, x.map(x, x + 1)[0])[0]", ["k"], lambda v: v["k"] + 1),
    ("[k].map(x, x)[0] + [j].map(x, x)[0] + x", ["k", "j", "x"], lambda v: v["k"] + v["j"] + v["x"]),
    ("[k].exists_one(x, x == k) ? x : k", ["k", "x"], lambda v: v["x"]),
    # several outer items: the inner body must see the *current* outer element
    ("[k, j].map(x, [1, 2].map(y, x + y)[1])[1]", ["k", "j"], lambda v: v["j"] + 2),
    ("[k, j, x].map(a, [10, 20].map(b, a + b)[0])[2] - [k, j, x].map(a, [10, 20].map(b, a + b)[1])[0]", ["k", "j", "x"], lambda v: (v["x"] + 10) - (v["k"] + 20)),
    ("[k, j].map(x, [x].map(y, y + x)[0])[0] - [k, j].map(x, [x].map(y, y + x)[0])[1]", ["k", "j"], lambda v: 2 * v["k"] - 2 * v["j"]),
    ("[k, j].filter(x, [x, 1].exists(y, y == j && x == j))[0]", ["k", "j"], lambda v: v["j"]),
    ("[k, j].map(x, [x, 0].filter(y, y == x)[0])[1]", ["k", "j"], lambda v: v["j"]),
]
