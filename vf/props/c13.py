"""C13 results carry their CEL type: type() and API values agree with the language."""
import z3

from .. import explore
from ..explore import Harness, Ob
from . import common, gen, skel

PROP = "C13"
LEVEL = "model_checking"
FIDELITY_TESTS = ["tests"]
BOUNDS = {
    "quick": {"programs": "every well-typed generator form (operators, functions, macros, conversions, time arithmetic) at the root, depth 1; both runners",
              "data": "all values of the variable shapes (int64, uint64, binary64, bool, strings <= 2, lists <= 3, 2-key maps); timestamps/durations concrete",
              "path budget": 60},
    "thorough": {"programs": "the same forms at depth 1 and 2 (nested)", "data": "same", "path budget": 150},
}
OUTSIDE = ["protobuf messages", "timestamp/duration *values* (only the class of time arithmetic results is checked here)"]
ASSUMPTIONS = ["the static CEL type of each generated skeleton is known from the generator's typing of its form",
               "`type(x op y) == type(x)` is asserted only where CEL gives the left operand's type (int/uint/double arithmetic, string/bytes/list +, "
               "timestamp +- duration, duration +- duration); timestamp - timestamp must be a duration"]
TRUSTED = ["z3 5.1 (path feasibility, value-dependent results)", "CPython 3.12", "vf.sym shadows (a plain shadow class as result class means the real code returned a native value)"]
MANIFEST = {
    "text": "Symbolic execution of every well-typed skeleton under both runners: on every feasible path that yields a value, the class of the returned object must be the "
            "celtypes class of the skeleton's static type, and `type(e) == T` evaluated inside CEL must be true for exactly the matching type name. The solver decides path "
            "feasibility and the value-dependent results (operand returned by ||, selected branch of ?:).",
    "note": "Shapes enumerated, data symbolic. `==`-tolerant comparisons are never used: classes are compared by identity.",
    "technique": "symbolic execution of the real Python byte-code with shadow builtins + z3; class-of-result obligations per path; counterexample replay",
    "design_ref": "DESIGN.md §7 C13",
}

CLASS = {"int": "IntType", "uint": "UintType", "double": "DoubleType", "bool": "BoolType", "string": "StringType", "bytes": "BytesType",
         "list": "ListType", "map": "MapType", "timestamp": "TimestampType", "duration": "DurationType", "dyn-int": "IntType",
         "null_type": "NoneType"}
TYPE_NAMES = ["int", "uint", "double", "bool", "string", "bytes", "list", "map", "null_type", "timestamp", "duration", "type"]


def all_skeletons(tier):
    return [(t, s, f) for t, s, f in gen.skeletons(1 if tier == "quick" else 2)]


NT = 64


def tasks(tier):
    return [{"tier": tier, "stride": i} for i in range(NT)]


def run_task(task, kf):
    from ..sym import loader
    out, first = [], True
    for typ, src, fid in all_skeletons(task["tier"])[task["stride"]::NT]:
        for runner in common.RUNNERS:
            out.append(explore.explore(harness(typ, src, fid, runner, 60 if task["tier"] == "quick" else 150), kf,
                                       profile_root=loader.SRC if first else None))
            first = False
    return out


def harness(typ, src, fid, runner, budget):
    celpy, ct, ev = common.mods()
    names, vars, pre, build, to_json = skel.bindings_for(src)
    base = gen.base(typ)
    expected = CLASS.get(base)
    cel_name = {"dyn-int": "int"}.get(base, base)
    try:
        prog = common.make_program(src, runner)
        tprogs = {n: common.make_program(f"type({src}) == {n}", runner) for n in
                  ([cel_name] + [x for x in ("int", "string", "list") if x != cel_name][:1])} if base != "type" else \
            {"type": common.make_program(f"type({src}) == type", runner)}
        err = None
    except Exception as ex:  # noqa: BLE001
        prog, tprogs, err = None, {}, ex

    def run(vals):
        if prog is None:
            return [Ob(f"C13/build/{fid}@{runner}", z3.BoolVal(False), note=f"{type(err).__name__}: {err}")]
        kind, v = common.outcome(lambda: prog.evaluate(build(vals)))
        if kind != "value":
            return [Ob(f"C13/class/{fid}@{runner}", z3.BoolVal(True), note="no value on this path")]
        got = common.value_class(v)
        if base == "type":
            ok = isinstance(v, type)
        else:
            ok = got == expected
        obs = [Ob(f"C13/class/{fid}@{runner}", z3.BoolVal(ok), note=f"`{src}`: expected {expected or 'a type'}, got {got}",
                  tags={"got": got, "expected": expected or "type"})]
        for n, tp in tprogs.items():
            k2, v2 = common.outcome(lambda: tp.evaluate(build(vals)))
            want = (n == cel_name) or base == "type"
            if k2 != "value":
                obs.append(Ob(f"C13/type-eq/{fid}@{runner}", z3.BoolVal(False), note=f"`type({src}) == {n}` gave {k2}", tags={"got": got}))
            else:
                obs.append(Ob(f"C13/type-eq/{fid}@{runner}", common.truth_term(v2) == z3.BoolVal(want),
                              note=f"`type({src}) == {n}` must be {want}", tags={"got": got}))
        return obs

    def witness(vals):
        return {"check": "c13.result_class", "args": {"src": src, "typ": base, "runner": runner, "bindings": to_json(vals)}}

    return Harness(id=f"C13:{src}@{runner}", vars=vars, pre=pre, run=run, witness=witness, max_paths=budget)
