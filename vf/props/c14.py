"""C14 host functions bind uniformly as functions or methods and override built-ins."""
import itertools

import z3

from .. import explore
from ..explore import Harness, Ob
from ..sym.core import SInt, mk, tm, is_sym
from . import common
from ..replay import enc

PROP = "C14"
LEVEL = "model_checking"
FIDELITY_TESTS = ["tests"]
BOUNDS = {
    "quick": {"call shapes": "global f(..) and method a.f(..) with 0-3 arguments, nested call f(f(a)), inside ||, &&, ?: and a map() macro body",
              "supplying style x callable kind": "list / dict x module-level def, nested def (closure), lambda, callable object, a name shadowing the built-in `size`",
              "arguments": "symbolic int64-range values (|v| < 2^30 so the host arithmetic cannot overflow); the host function records the terms it received",
              "runners": "both"},
    "thorough": {"same": "all shape x style x kind combinations (quick takes a covering subset of the product)"},
}
OUTSIDE = ["host functions with keyword arguments", "functions declared through Environment annotations only"]
ASSUMPTIONS = ["the host function is pure apart from recording its invocations"]
TRUSTED = ["z3 5.1", "CPython 3.12", "vf.sym shadows"]
MANIFEST = {
    "text": "Symbolic execution of Activation.__init__ (functions), resolve_function, function_eval/method_eval, Phase1Transpiler.func_name, Runner.new_activation and "
            "Environment.program for every call shape x supplying style x callable kind x runner: the host callable records the z3 terms of the arguments it received, and z3 "
            "proves they are the evaluated argument terms, that the call result is the function's result for all argument values, that it is invoked once per call site, that a "
            "supplied name shadows the built-in for this program only, and that returned/raised errors behave like built-in errors under ||, && and ?:.",
    "note": "The product of shapes/styles/kinds is enumerated; argument values are symbolic.",
    "technique": "symbolic execution of the real Python byte-code with shadow builtins + z3; instrumented host callables; counterexample replay",
    "design_ref": "DESIGN.md §7 C14",
}

CALLS = []  # invocation log of the host callables: list of (name, args tuple)


def host_f(*args):
    """module-level host function: weighted sum, so argument order matters"""
    CALLS.append(("f", args))
    celpy, ct, ev = common.mods()
    r = ct.IntType(1)
    for i, a in enumerate(args):
        r = r + a * ct.IntType(i + 2)
    return r


def f(*args):
    """module-level host function literally named `f` (the list style binds callables under their __name__)"""
    return host_f(*args)


def host_err(*args):
    CALLS.append(("err", args))
    celpy, ct, ev = common.mods()
    return celpy.CELEvalError("host says no", ValueError, ())


def host_raise_value(*args):
    CALLS.append(("raise", args))
    raise ValueError("host raises")


def host_raise_type(*args):
    CALLS.append(("raise", args))
    raise TypeError("host raises")


def host_raise_type_bare(*args):
    CALLS.append(("raise", args))
    raise TypeError


def host_raise_value_bare(*args):
    CALLS.append(("raise", args))
    raise ValueError()


def host_raise_value_args(*args):
    CALLS.append(("raise", args))
    raise ValueError(7, None, ("x",))


def size(*args):
    """shadows the built-in size()"""
    CALLS.append(("size", args))
    celpy, ct, ev = common.mods()
    return ct.IntType(4242)


class HostObject:
    __name__ = "f"

    def __call__(self, *args):
        return host_f(*args)


def make_callable(kind, name="f"):
    if kind == "def":
        return globals()["f"]
    if kind == "nested":
        k = 0

        def f(*args):
            return host_f(*args) if k == 0 else None
        return f
    if kind == "lambda":
        return lambda *args: host_f(*args)
    if kind == "object":
        return HostObject()
    raise ValueError(kind)


# (id, source, argument names, expected number of calls, spec builder over z3 vars -> expected int term or 'error'/'true')
def _f(*ts):
    r = z3.IntVal(1)
    for i, t in enumerate(ts):
        r = r + t * (i + 2)
    return r


SHAPES = [
    ("global0", "f()", [], 1, lambda v: _f()),
    ("global1", "f(a)", ["a"], 1, lambda v: _f(v["a"])),
    ("global2", "f(a, b)", ["a", "b"], 1, lambda v: _f(v["a"], v["b"])),
    ("global3", "f(a, b, c)", ["a", "b", "c"], 1, lambda v: _f(v["a"], v["b"], v["c"])),
    ("method1", "a.f()", ["a"], 1, lambda v: _f(v["a"])),
    ("method2", "a.f(b)", ["a", "b"], 1, lambda v: _f(v["a"], v["b"])),
    ("method3", "a.f(b, c)", ["a", "b", "c"], 1, lambda v: _f(v["a"], v["b"], v["c"])),
    ("nested", "f(f(a), b)", ["a", "b"], 2, lambda v: _f(_f(v["a"]), v["b"])),
    ("arith", "f(a + 1, b * 2) - 3", ["a", "b"], 1, lambda v: _f(v["a"] + 1, v["b"] * 2) - 3),
    ("in-macro", "[a, b].map(x, f(x))[1]", ["a", "b"], 2, lambda v: _f(v["b"])),
    ("in-cond", "true ? f(a) : f(b)", ["a", "b"], None, lambda v: _f(v["a"])),
    ("in-or", "f(a) > 0 || f(b) > 0", ["a", "b"], None, lambda v: ("bool", z3.Or(_f(v["a"]) > 0, _f(v["b"]) > 0))),
    ("in-or3", "f(a) > 0 || f(b) > 0 || f(c) > 0", ["a", "b", "c"], None, lambda v: ("bool", z3.Or(_f(v["a"]) > 0, _f(v["b"]) > 0, _f(v["c"]) > 0))),
    ("in-and", "f(a) > 0 && f(b) > 0", ["a", "b"], None, lambda v: ("bool", z3.And(_f(v["a"]) > 0, _f(v["b"]) > 0))),
    ("macro-or", "[a, b].map(x, f(x) > 0 || x > 0)[1]", ["a", "b"], None, lambda v: ("bool", z3.Or(_f(v["b"]) > 0, v["b"] > 0))),
]
STYLES = [("list", "def"), ("list", "nested"), ("dict", "def"), ("dict", "nested"), ("dict", "lambda"), ("dict", "object"), ("list", "object")]


def combos(tier):
    out = []
    for si, sh in enumerate(SHAPES):
        for ti, st in enumerate(STYLES):
            if tier == "quick" and (si + ti) % 3 and not (sh[0] in ("global2", "method2")):
                continue
            out.append((sh[0], st))
    return out


def tasks(tier):
    ts = [{"what": "call", "shape": s, "style": list(st)} for s, st in combos(tier)]
    ts += [{"what": w} for w in ("shadow", "errors", "unbound")]
    ts += [{"what": "spelling", "names": HOST_NAMES[i::4]} for i in range(4)]
    ts += [{"what": "receivers"}]
    ts += [{"what": "reachable", "case": c} for c in REACHABLE]
    return ts


def run_task(task, kf):
    from ..sym import loader
    out = []
    for runner in common.RUNNERS:
        if task["what"] == "call":
            out.append(explore.explore(_call_harness(task["shape"], tuple(task["style"]), runner), kf, profile_root=loader.SRC))
        elif task["what"] == "shadow":
            out.append(explore.explore(_shadow_harness(runner), kf, profile_root=loader.SRC))
        elif task["what"] == "reachable":
            if task["case"] == "tolerant-host-error" and runner == "compiled":
                continue  # instrumented callables of this module are out of reach of generated code (known findings C14-compiled-*)
            out.append(explore.explore(_reachable_harness(task["case"], runner), kf, profile_root=loader.SRC))
        elif task["what"] == "spelling":
            if runner == "interp":  # host callables of this module are out of reach of generated code (known findings C14-compiled-*)
                out.append(explore.explore(_spelling_harness(task["names"], runner), kf, profile_root=loader.SRC))
        elif task["what"] == "receivers":
            if runner == "interp":
                out.append(explore.explore(_receiver_harness(runner), kf, profile_root=loader.SRC))
        elif task["what"] == "errors":
            out += [explore.explore(h, kf) for h in _error_harnesses(runner)]
        else:
            out.append(explore.explore(_unbound_harness(runner), kf))
    return out


def _functions(style, kind):
    c = make_callable(kind)
    if style == "list":
        return [c]
    return {"f": c}


LIM = 2**30


def _call_harness(shape, style, runner):
    celpy, ct, ev = common.mods()
    sid, src, names, ncalls, spec = next(s for s in SHAPES if s[0] == shape)
    vars = {n: z3.Int(n) for n in names} or {"dummy": z3.Int("dummy")}
    pre = []
    for v in vars.values():
        pre += [v >= -LIM, v <= LIM]
    try:
        prog = common.make_program(src, runner, functions=_functions(*style))
        err = None
    except Exception as ex:  # noqa: BLE001
        prog, err = None, ex
    exp = spec(vars)
    tag = f"C14/call/{'method' if sid.startswith('method') else 'global'}"
    tags = {"style": style[0], "kind": style[1], "runner": runner}

    def run(vals):
        if prog is None:
            return [Ob(f"{tag}/program-construction@{runner}", z3.BoolVal(False), note=f"`{src}` with functions {style}: {type(err).__name__}: {err}"[:200],
                       tags={**tags, "exc": type(err).__name__})]
        del CALLS[:]
        b = {n: ct.IntType(mk(SInt, vars[n], vals[n])) for n in names}
        kd, r = common.outcome(lambda: prog.evaluate(b))
        if kd != "value":
            return [Ob(f"{tag}/invoked@{runner}", z3.BoolVal(False), note=f"`{src}` with functions {style}: {kd} {type(r).__name__}: {str(r)[:120]}",
                       tags={**tags, "outcome": kd, "exc": type(r).__name__ if kd == "escape" else ""})]
        obs = []
        if isinstance(exp, tuple):
            obs.append(Ob(f"{tag}/result@{runner}", common.truth_term(r) == exp[1], tags=tags))
        else:
            obs.append(Ob(f"{tag}/result@{runner}", tm(r) == exp, note="the call yields the host function's result on the evaluated arguments", tags=tags))
        if ncalls is not None:
            obs.append(Ob(f"{tag}/once-per-call-site@{runner}", z3.BoolVal(len(CALLS) == ncalls), note=f"{len(CALLS)} invocations, expected {ncalls}", tags=tags))
        else:
            # inside || and ?: a call site may be skipped, but none is reached twice (whether it is reached at all is the result obligation's business)
            per_site = {}
            for _, args in CALLS:
                k = id(args[0]) if args else None
                per_site[k] = per_site.get(k, 0) + 1
            obs.append(Ob(f"{tag}/at-most-once-per-call-site@{runner}", z3.BoolVal(max(per_site.values(), default=0) <= 1),
                          note=f"invocations per call site: {sorted(per_site.values())}", tags=tags))
        if sid in ("global2", "method2", "global3", "method3", "global1", "method1") and CALLS:
            got = CALLS[-1][1]
            want = [vars[n] for n in names]
            ok = len(got) == len(want) and all(isinstance(g, int) for g in got)
            obs.append(Ob(f"{tag}/arguments@{runner}", z3.And([tm(g) == w for g, w in zip(got, want)]) if ok else z3.BoolVal(False),
                          note="the callable receives the evaluated CEL arguments in order", tags=tags))
            obs.append(Ob(f"{tag}/argument-classes@{runner}", z3.BoolVal(all(type(g).__name__ == "IntType" for g in got)), tags=tags))
        return obs

    def witness(vals):
        return {"check": "c14.call", "args": enc({"shape": shape, "style": list(style), "runner": runner, "vals": vals})}

    return Harness(id=f"C14/{shape}/{style[0]}-{style[1]}@{runner}", vars=vars, pre=pre, run=run, witness=witness, max_paths=30)


def _shadow_harness(runner):
    """a supplied function named like a built-in replaces it for this program only"""
    celpy, ct, ev = common.mods()
    A = z3.Int("a")
    try:
        prog = common.make_program("size(l) + a", runner, functions={"size": size})
        err = None
    except Exception as ex:  # noqa: BLE001
        prog, err = None, ex
    plain = common.make_program("size(l) + a", runner)
    tags = {"runner": runner}

    def run(vals):
        if prog is None:
            return [Ob(f"C14/shadow/program-construction@{runner}", z3.BoolVal(False), note=f"{type(err).__name__}: {err}"[:160], tags={**tags, "exc": type(err).__name__})]
        b = {"l": ct.ListType([ct.IntType(1), ct.IntType(2)]), "a": ct.IntType(mk(SInt, A, vals["a"]))}
        kd, r = common.outcome(lambda: prog.evaluate(dict(b)))
        kd2, r2 = common.outcome(lambda: plain.evaluate(dict(b)))
        return [Ob(f"C14/shadow/overrides-builtin@{runner}", (tm(r) == 4242 + A) if kd == "value" else z3.BoolVal(False), note=f"{kd} {str(r)[:80]}", tags={**tags, "outcome": kd}),
                Ob(f"C14/shadow/this-program-only@{runner}", (tm(r2) == 2 + A) if kd2 == "value" else z3.BoolVal(False), note="another program still sees the built-in", tags=tags)]

    def witness(vals):
        return {"check": "c14.shadow", "args": enc({"runner": runner, "vals": vals})}

    return Harness(id=f"C14/shadow@{runner}", vars={"a": A}, pre=[A >= -LIM, A <= LIM], run=run, witness=witness, max_paths=10)


# names a host function may plausibly have (also names of list / string helpers that a later version might turn into macros or
# built-ins); the macro names the library already reserves (map, filter, all, exists, exists_one, reduce, min) are not host-callable
# in method spelling and are left out
HOST_NAMES = ["f", "max", "sum", "join", "first", "last", "sort", "reverse", "flatten", "lower", "upper", "get", "keys", "values", "index", "find",
              "format", "distinct", "avg", "count", "len", "abs", "round", "split", "replace", "trim", "slice", "isEmpty", "orValue", "bind"]


def _spelling_harness(names, runner):
    """`a.NAME(b)` and `NAME(a, b)` both invoke the supplied function once with (a, b), whatever the function is called"""
    celpy, ct, ev = common.mods()
    A, B = z3.Int("a"), z3.Int("b")
    progs = []
    for nm in names:
        for form, src in (("method", f"a.{nm}(b)"), ("global", f"{nm}(a, b)"), ("method0", f"a.{nm}()")):
            try:
                progs.append((nm, form, src, common.make_program(src, runner, functions={nm: host_f}), None))
            except Exception as ex:  # noqa: BLE001
                progs.append((nm, form, src, None, ex))

    def run(vals):
        b = {"a": ct.IntType(mk(SInt, A, vals["a"])), "b": ct.IntType(mk(SInt, B, vals["b"]))}
        obs = []
        for nm, form, src, prog, err in progs:
            tags = {"runner": runner, "name": nm, "form": form}
            if prog is None:
                obs.append(Ob(f"C14/spelling/program-construction@{runner}", z3.BoolVal(False), note=f"`{src}`: {type(err).__name__}: {err}"[:160], tags=tags))
                continue
            del CALLS[:]
            kd, r = common.outcome(lambda: prog.evaluate(dict(b)))
            want = _f(A) if form == "method0" else _f(A, B)
            nargs = 1 if form == "method0" else 2
            ok = kd == "value" and isinstance(r, int) and len(CALLS) == 1 and len(CALLS[0][1]) == nargs
            obs.append(Ob(f"C14/spelling/{form}@{runner}", z3.And(tm(r) == want, *[tm(x) == t for x, t in zip(CALLS[0][1], (A, B))]) if ok else z3.BoolVal(False),
                          note=f"`{src}` with a host function named {nm}: {kd} {str(r)[:60]}, {len(CALLS)} invocation(s)", tags=tags))
        return obs

    def witness(vals):
        return {"check": "c14.spelling", "args": enc({"names": names, "runner": runner, "vals": vals})}

    return Harness(id=f"C14/spelling/{names[0]}..@{runner}", vars={"a": A, "b": B}, pre=[A >= -LIM, A <= LIM, B >= -LIM, B <= LIM], run=run, witness=witness, max_paths=10)


def host_rec(*args):
    CALLS.append(("rec", args))
    celpy, ct, ev = common.mods()
    return ct.IntType(100 + len(args))


RECEIVERS = ["null", "0", "''", "false", "[]", "{}", "0u", "0.0", "b''", "n", "m.k"]


def _receiver_harness(runner):
    """the receiver of the method spelling is the first argument, also when it is null or another falsy value"""
    celpy, ct, ev = common.mods()
    B = z3.Int("b")
    progs = [(rc, form, src, common.make_program(src, runner, functions={"g": host_rec}))
             for rc in RECEIVERS for form, src in (("method", f"({rc}).g(b)"), ("global", f"g({rc}, b)"))]

    def run(vals):
        b = {"b": ct.IntType(mk(SInt, B, vals["b"])), "n": None, "m": ct.MapType({ct.StringType("k"): None})}
        obs = []
        for rc, form, src, prog in progs:
            del CALLS[:]
            kd, r = common.outcome(lambda: prog.evaluate(dict(b)))
            ok = kd == "value" and len(CALLS) == 1 and len(CALLS[0][1]) == 2 and isinstance(CALLS[0][1][1], int)
            recv_ok = ok and ((CALLS[0][1][0] is None) if rc in ("null", "n", "m.k") else (CALLS[0][1][0] is not None and not bool(CALLS[0][1][0])))
            obs.append(Ob(f"C14/receiver/{form}@{runner}", z3.And(tm(r) == 102, tm(CALLS[0][1][1]) == B) if recv_ok else z3.BoolVal(False),
                          note=f"`{src}`: {kd} {str(r)[:60]}; invocations {[(n_, len(a_)) for n_, a_ in CALLS]}", tags={"runner": runner, "receiver": rc, "form": form}))
        return obs

    def witness(vals):
        return {"check": "c14.receivers", "args": enc({"runner": runner, "vals": vals})}

    return Harness(id=f"C14/receivers@{runner}", vars={"b": B}, pre=[B >= -LIM, B <= LIM], run=run, witness=witness, max_paths=10)


ERR_FUNCS = {"returns-error": "host_err", "raises-ValueError": "host_raise_value", "raises-TypeError": "host_raise_type",
             # exceptions raised without a message / with arguments that are not text
             "raises-bare-TypeError": "host_raise_type_bare", "raises-bare-ValueError": "host_raise_value_bare", "raises-ValueError-nontext-args": "host_raise_value_args"}
ERR_CTX = [("f(a) > 0 || true", True), ("true || f(a) > 0", True), ("f(a) > 0 && false", False), ("false && f(a) > 0", False),
           ("true ? 7 : f(a)", 7), ("f(a)", "error"), ("f(a) > 0 || false", "error"), ("a.f() > 0 || true", True),
           # method and global form with further arguments of several kinds (int, double, list, string)
           ("a.f(1) > 0 || true", True), ("a.f(2.5, [a]) > 0 || true", True), ("a.f('s')", "error"), ("f(a, 1, 'x') > 0 || true", True), ("[a].f(a) == 1 && false", False),
           ("a.f(1u)", "error"), ("false ? 1 : a.f(a, a)", "error")]


def _error_harnesses(runner):
    celpy, ct, ev = common.mods()
    hs = []
    A = z3.Int("a")
    for ek, fname in ERR_FUNCS.items():
        fn = globals()[fname]
        for src, exp in ERR_CTX:
            try:
                prog = common.make_program(src, runner, functions={"f": fn})
                err = None
            except Exception as ex:  # noqa: BLE001
                prog, err = None, ex
            tags = {"runner": runner, "errkind": ek}

            def run(vals, prog=prog, err=err, src=src, exp=exp, tags=tags, ek=ek):
                if prog is None:
                    return [Ob(f"C14/errors/program-construction@{runner}", z3.BoolVal(False), note=f"{type(err).__name__}: {err}"[:160], tags={**tags, "exc": type(err).__name__})]
                kd, r = common.outcome(lambda: prog.evaluate({"a": ct.IntType(mk(SInt, A, vals["a"]))}))
                if exp == "error":
                    ok = kd == "error"
                elif kd != "value":
                    ok = False
                elif isinstance(exp, bool):
                    ok = isinstance(r, int) and bool(r) == exp
                else:
                    ok = isinstance(r, int) and int(r) == exp
                return [Ob(f"C14/errors/{ek}/behaves-as-evaluation-error@{runner}", z3.BoolVal(ok), note=f"`{src}` expected {exp}, got {kd} {str(r)[:80]}",
                           tags={**tags, "outcome": kd, "exc": type(r).__name__ if kd == "escape" else ""})]

            def witness(vals, src=src, ek=ek):
                return {"check": "c14.error_behaviour", "args": enc({"src": src, "errkind": ek, "runner": runner, "vals": vals})}
            hs.append(Harness(id=f"C14/errors/{ek}:{src}@{runner}", vars={"a": A}, pre=[A >= -LIM, A <= LIM], run=run, witness=witness, max_paths=6))
    return hs


def tolerant(*args):
    """a host function that ignores its arguments"""
    CALLS.append(("tolerant", args))
    celpy, ct, ev = common.mods()
    return ct.IntType(7)


# Host callables that generated code can reach as well (importable from a module evaluation.py itself imports), so that the
# compiled runner is exercised beyond its known findings.  case -> (functions builder, [(source, spec)]) ; spec over z3 a, b, c
REACHABLE = ["one-env-two-programs", "dict-sub", "list-sub", "shadow-size", "leak-list", "leak-dict", "tolerant-builtin-error", "tolerant-host-error", "builtin-error-argument"]


def _reachable_harness(case, runner):
    import operator
    celpy, ct, ev = common.mods()
    A, B, C = z3.Int("a"), z3.Int("b"), z3.Int("c")
    vars = {"a": A, "b": B, "c": C}
    pre = [v >= -LIM for v in vars.values()] + [v <= LIM for v in vars.values()]
    ERR = "error"
    if case == "one-env-two-programs":
        # handled separately below: several programs built from ONE Environment, the same names bound to different callables
        R = celpy.InterpretedRunner if runner == "interp" else celpy.CompiledRunner
        celpy.CELParser.CEL_PARSER = common._parsers.get(runner)
        env = celpy.Environment(runner_class=R)
        common._parsers[runner] = celpy.CELParser.CEL_PARSER
        specs = [({"g": operator.neg}, "g(a) + a.g()", -2 * A), ({"g": operator.abs}, "g(a) + a.g()", 2 * z3.If(A >= 0, A, -A)), ([operator.neg], "neg(a)", -A),
                 ({"g": operator.pos, "size": operator.neg}, "g(a) + size(a)", z3.IntVal(0)), ({"size": operator.abs}, "size(a)", z3.If(A >= 0, A, -A))]
        built1 = []
        for fns, src, want in specs:
            try:
                built1.append((src, want, env.program(env.compile(src), functions=fns), None))
            except Exception as ex:  # noqa: BLE001
                built1.append((src, want, None, ex))

        def run1(vals):
            b = {"a": ct.IntType(mk(SInt, A, vals["a"]))}
            obs = []
            for rnd in (0, 1):  # evaluate them interleaved, twice
                for i, (src, want, prog, err) in enumerate(built1):
                    if prog is None:
                        obs.append(Ob(f"C14/reachable/program-construction@{runner}", z3.BoolVal(False), note=f"`{src}`: {type(err).__name__}: {err}"[:160], tags={"runner": runner, "case": case}))
                        continue
                    kd, r = common.outcome(lambda: prog.evaluate(dict(b)))
                    obs.append(Ob(f"C14/this-program-only/own-functions@{runner}", (tm(r) == want) if kd == "value" else z3.BoolVal(False),
                                  note=f"program {i} `{src}` of one Environment (round {rnd}): {kd} {str(r)[:60]}", tags={"runner": runner, "case": case}))
            return obs
        return Harness(id=f"C14/reachable/{case}@{runner}", vars={"a": A}, pre=[A >= -LIM, A <= LIM], run=run1,
                       witness=lambda vals: {"check": "c14.one_env", "args": enc({"runner": runner, "vals": vals})}, max_paths=40)
    if case == "dict-sub":
        fns, progs = {"f": operator.sub}, [("f(a, b)", A - B), ("a.f(b)", A - B), ("f(f(a, b), c)", A - B - C), ("a.f(b).f(c)", A - B - C), ("f(a, f(b, c))", A - (B - C)),
                                          ("[a, b].map(x, x.f(c))[1]", B - C), ("f(a, b) > 0 || f(b, a) >= 0", ("bool", z3.BoolVal(True)))]
    elif case == "list-sub":
        fns, progs = [operator.sub], [("sub(a, b)", A - B), ("a.sub(b)", A - B), ("sub(a, b).sub(c)", A - B - C)]
    elif case == "shadow-size":
        fns, progs = {"size": operator.neg, "startsWith": operator.sub}, [("size(a)", -A), ("a.size()", -A), ("a.startsWith(b)", A - B), ("startsWith(a, b)", A - B),
                                                                          ("size(a) + a.size()", -2 * A)]
    elif case in ("leak-list", "leak-dict"):
        fns = [operator.sub, operator.neg] if case == "leak-list" else {"sub": operator.sub, "neg": operator.neg}
        progs = [("sub(a, b)", A - B), ("neg(a)", -A)]
    elif case == "tolerant-builtin-error":
        # operator.is_ never looks into its arguments: an erroring argument must still make the call an error
        fns = {"g": operator.is_}
        progs = [("g(a / b, c)", ("err-iff", B == 0, ("bool", z3.BoolVal(False)))), ("(a / b).g(c)", ("err-iff", B == 0, ("bool", z3.BoolVal(False)))),
                 ("g(c, a % b)", ("err-iff", B == 0, ("bool", z3.BoolVal(False))))]
    elif case == "tolerant-host-error":
        fns = {"g": tolerant, "f": host_err, "h": host_raise_value}
        progs = [("g(f(a), 2)", ERR), ("f(a).g(2)", ERR), ("g(2, h(a))", ERR), ("g(f(a), 2) > 0 || true", ("bool", z3.BoolVal(True))), ("g(a, 2)", z3.IntVal(7))]
    elif case == "builtin-error-argument":
        fns = {"g": operator.is_}
        progs = [("string(a / b) == string(a / b)", ("err-iff", B == 0, ("bool", z3.BoolVal(True)))), ("size([a / b])", ("err-iff", B == 0, z3.IntVal(1))),
                 ("int(a / b)", ("err-iff", B == 0, z3.If(z3.And(A < 0, A % z3.If(B == 0, 1, B) != 0), z3.If(B > 0, A / z3.If(B == 0, 1, B) + 1, A / z3.If(B == 0, 1, B) + 1), A / z3.If(B == 0, 1, B))))]
        progs = progs[:2]
    else:
        raise ValueError(case)
    built = []
    for src, spec in progs:
        try:
            built.append((src, spec, common.make_program(src, runner, functions=fns), None))
        except Exception as ex:  # noqa: BLE001
            built.append((src, spec, None, ex))
    later = []
    if case.startswith("leak"):
        for src in ("sub(a, b)", "a.sub(b)", "neg(a)", "size([a, b]) + 0"):
            later.append(src)
    tags = {"runner": runner, "case": case}

    def judge(obs, src, spec, kd, r, oid):
        if isinstance(spec, tuple) and spec[0] == "err-iff":
            cond, inner = spec[1], spec[2]
            if kd == "error":
                obs.append(Ob(f"{oid}/error-only-when-argument-errs@{runner}", cond, note=f"`{src}`", tags=tags))
                return
            if kd == "value":
                val = (common.truth_term(r) == inner[1]) if isinstance(inner, tuple) else (tm(r) == inner)
                obs.append(Ob(f"{oid}/argument-error-propagates@{runner}", z3.And(z3.Not(cond), val), note=f"`{src}` gave {str(r)[:60]}", tags=tags))
                return
        elif isinstance(spec, str) and spec == ERR:
            obs.append(Ob(f"{oid}/argument-error-propagates@{runner}", z3.BoolVal(kd == "error"), note=f"`{src}`: {kd} {str(r)[:80]}", tags={**tags, "outcome": kd}))
            return
        elif kd == "value":
            val = (common.truth_term(r) == spec[1]) if isinstance(spec, tuple) else (tm(r) == spec)
            obs.append(Ob(f"{oid}/result@{runner}", val, note=f"`{src}` gave {str(r)[:60]}", tags=tags))
            return
        obs.append(Ob(f"{oid}/invoked@{runner}", z3.BoolVal(False), note=f"`{src}`: {kd} {type(r).__name__}: {str(r)[:100]}", tags={**tags, "outcome": kd}))

    def run(vals):
        b = {n: ct.IntType(mk(SInt, vars[n], vals[n])) for n in vars}
        obs = []
        for src, spec, prog, err in built:
            if prog is None:
                obs.append(Ob(f"C14/reachable/program-construction@{runner}", z3.BoolVal(False), note=f"`{src}`: {type(err).__name__}: {err}"[:160], tags={**tags, "exc": type(err).__name__}))
                continue
            del CALLS[:]
            kd, r = common.outcome(lambda: prog.evaluate(dict(b)))
            judge(obs, src, spec, kd, r, f"C14/reachable/{case}")
        for src in later:
            # a program built afterwards WITHOUT functions must not see the ones supplied to the earlier program
            try:
                p2 = common.make_program(src, runner)
                kd, r = common.outcome(lambda: p2.evaluate(dict(b)))
            except Exception as ex:  # noqa: BLE001
                kd, r = "construction", ex
            if src.startswith("size"):
                obs.append(Ob(f"C14/this-program-only/builtin-intact@{runner}", (tm(r) == 2) if kd == "value" else z3.BoolVal(False), note=f"`{src}`: {kd} {str(r)[:60]}", tags=tags))
            else:
                obs.append(Ob(f"C14/this-program-only/unbound-afterwards@{runner}", z3.BoolVal(kd == "error"), note=f"`{src}` in a later program without functions: {kd} {str(r)[:60]}", tags=tags))
        return obs

    def witness(vals):
        return {"check": "c14.reachable", "args": enc({"case": case, "runner": runner, "vals": vals})}

    return Harness(id=f"C14/reachable/{case}@{runner}", vars=vars, pre=pre, run=run, witness=witness, max_paths=40)


def _unbound_harness(runner):
    celpy, ct, ev = common.mods()
    A = z3.Int("a")
    progs = {}
    # `limit` and `label` are declared variables (annotations), not functions: calling them is calling an unbound function
    decls = {"limit": ct.IntType, "label": ct.StringType, "a": ct.IntType}
    for src, ann in (("nosuch(a)", None), ("a.nosuch()", None), ("nosuch(a) > 0 || true", None),
                     ("limit(a)", decls), ("a.limit()", decls), ("label(a)", decls), ("limit(a) > 0 || true", decls), ("a.label() == 'x' && false", decls)):
        try:
            progs[src] = common.make_program(src, runner, functions={"f": host_f}, annotations=ann)
        except Exception as ex:  # noqa: BLE001
            progs[src] = ex

    def run(vals):
        obs = []
        for src, p in progs.items():
            if isinstance(p, Exception):
                obs.append(Ob(f"C14/unbound/program-construction@{runner}", z3.BoolVal(False), note=f"`{src}`: {type(p).__name__}", tags={"exc": type(p).__name__}))
                continue
            for extra in ({}, {"limit": ct.IntType(3), "label": ct.StringType("x")}):
                if extra and "limit" not in src and "label" not in src:
                    continue
                kd, r = common.outcome(lambda: p.evaluate({"a": ct.IntType(mk(SInt, A, vals["a"])), **extra}))
                want = "value" if ("||" in src or "&&" in src) else "error"
                obs.append(Ob(f"C14/unbound/is-evaluation-error@{runner}", z3.BoolVal(kd == want),
                              note=f"`{src}`{' with the variable bound' if extra else ''}: {kd} {str(r)[:80]}", tags={"outcome": kd}))
        return obs

    def witness(vals):
        return {"check": "c14.unbound", "args": enc({"runner": runner, "vals": vals})}

    return Harness(id=f"C14/unbound@{runner}", vars={"a": A}, pre=[A >= -LIM, A <= LIM], run=run, witness=witness, max_paths=6)
