"""C15 JSON documents convert to CEL values and back without loss."""
import os

os.environ["VERIF_TIME_SHADOW"] = "1"  # timestamp/duration encodings run on the term-level datetime model (vf/sym/times.py)

import z3  # noqa: E402

from .. import explore
from ..explore import Harness, Ob
from ..refsem import MIN64, MAX64, fp_same
from ..sym import core, loader as L
from ..sym.core import SInt, SFloat, mk, mkf, tm, ft, is_sym, f_is_sym
from ..sym.strs import SStr, mks, cterms, s_is_sym
from . import common
from ..replay import enc

PROP = "C15"
LEVEL = "model_checking"
FIDELITY_TESTS = ["tests"]
BOUNDS = {
    "quick": {"documents": "17 document shapes to depth 3 (objects, arrays, empties, scalars at the top, nested arrays), <= 4 children per node",
              "leaves": "all int64 integers, all binary64 doubles (NaN excluded: not JSON), strings of 0..2 code points (all scalar values); true/false/null enumerated",
              "paths": "every valid path into each shape, navigated with .field, [\"key\"] and [i] under both runners"},
    "thorough": {"documents": "the same shapes plus all permutations of leaf kinds in the 4-child array/object shapes", "leaves": "same", "paths": "same"},
}
OUTSIDE = ["the JSON text rendering/parsing itself (C json encoder/decoder): checked on the witnesses by the concrete oracle (json.dumps -> json.loads == original)",
           "integers outside int64 (the statement restricts to int64)", "bytes encodings: concrete representatives only (enumeration; base64 is C code)",
           "timestamps with a sub-second part and display offsets that are not whole minutes"]
ASSUMPTIONS = ["a JSON document is what json.loads returns: dict with str keys, list, str, int, float, True/False, None"]
TRUSTED = ["z3 5.1", "CPython 3.12 json module on concrete values", "vf.sym shadows (bool cannot be shadowed: booleans are enumerated)"]
MANIFEST = {
    "text": "Symbolic execution of json_to_cel, CELJSONEncoder.to_python/encode/default and of `.f`, [\"k\"], [i] navigation programs under both runners on documents whose scalar "
            "leaves are symbolic: z3 proves the type mapping (bool never becomes int), that to_python(json_to_cel(d)) is structurally equal to d for all leaf values, and that every "
            "valid path reaches exactly the leaf it reaches in the JSON document.",
    "note": "Document shapes enumerated, leaf data symbolic. The final text rendering by the C json encoder is outside symbolic reach and is validated on witnesses. "
            "Timestamp and duration encodings (CELJSONEncoder.default) are decided for every whole-second instant 0001..9999 at every whole-minute offset and every whole-second duration in range, "
            "on the term-level datetime model; bytes (base64, C code) on concrete representatives.",
    "technique": "symbolic execution of the real Python byte-code with shadow builtins + z3; structural-equality obligations over leaf terms; counterexample replay",
    "design_ref": "DESIGN.md §7 C15, §10.2 (timestamp/duration text on the time model)",
}


def profile():
    p = L.default_profile()
    p.add("celpy.adapter", post=L._generic_post)
    return p


I, F, S1, S2, S0 = ("int",), ("float",), ("str", 1), ("str", 2), ("str", 0)
SHAPES = [
    {"a": I, "b": [S1, F, True, None], "c": {"d": I, "e": False}},
    [I, {"k": S2, "n": None}, [True, I]],
    I, S2, F, True, None, [], {},
    {"x": [], "y": {}, "z": [[]]},
    {"a": {"b": {"c": I, "d": [F, S0]}}},
    [[I, I], [S1], []],
    {"t": True, "f": False, "one": I, "zero": I},
    [[True, I]], [I, [False, S1]], {"k": [[True]], "n": [I, [None, False]]}, [[[False]], I],
]


def shapes(tier):
    out = list(SHAPES)
    if tier == "thorough":
        import itertools
        kinds = [I, F, S1, True, False, None]
        for combo in itertools.islice(itertools.permutations(kinds, 4), 0, 60):
            out.append(list(combo))
            out.append({f"k{i}": c for i, c in enumerate(combo)})
    return out


def tasks(tier):
    return [{"tier": tier, "i": i} for i in range(len(shapes(tier)))] + [{"what": "default"}, {"what": "timestamp-text"}, {"what": "duration-text"}]


def run_task(task, kf):
    if task.get("what") == "default":
        return [explore.explore(_default_harness(), kf, profile_root=L.SRC)]
    if task.get("what") in ("timestamp-text", "duration-text"):
        return [explore.explore(_time_text_harness(task["what"]), kf, profile_root=L.SRC)]
    return [explore.explore(_harness(shapes(task["tier"])[task["i"]], task["i"]), kf, profile_root=L.SRC)]


def leaves(shape, path=()):
    """yield (path, leaf spec) for every scalar leaf; path elements are dict keys (str) or list indexes (int)"""
    if isinstance(shape, dict):
        for k, v in shape.items():
            yield from leaves(v, path + (k,))
    elif isinstance(shape, list):
        for i, v in enumerate(shape):
            yield from leaves(v, path + (i,))
    else:
        yield path, shape


def containers(shape, path=()):
    if isinstance(shape, dict):
        yield path, shape
        for k, v in shape.items():
            yield from containers(v, path + (k,))
    elif isinstance(shape, list):
        yield path, shape
        for i, v in enumerate(shape):
            yield from containers(v, path + (i,))


def vname(path):
    return "L" + "_".join(str(p) for p in path)


def build_doc(shape, vals, vars, path=()):
    """native Python JSON document with symbolic leaves (plain shadow values = what json.loads would hand over)"""
    if isinstance(shape, dict):
        return {k: build_doc(v, vals, vars, path + (k,)) for k, v in shape.items()}
    if isinstance(shape, list):
        return [build_doc(v, vals, vars, path + (i,)) for i, v in enumerate(shape)]
    if shape is True or shape is False or shape is None:
        return shape
    n = vname(path)
    if shape[0] == "int":
        return mk(SInt, vars[n], vals[n])
    if shape[0] == "float":
        return mkf(SFloat, vars[n], vals[n])
    names = [f"{n}_c{i}" for i in range(shape[1])]
    return mks(SStr, [vars[x] for x in names], "".join(chr(vals[x]) for x in names))


def doc_vars(shape):
    vars, pre = {}, []
    for path, leaf in leaves(shape):
        if leaf is True or leaf is False or leaf is None:
            continue
        n = vname(path)
        if leaf[0] == "int":
            vars[n] = z3.Int(n)
            pre += [vars[n] >= MIN64, vars[n] <= MAX64]
        elif leaf[0] == "float":
            vars[n] = z3.FP(n, core.F64)
            pre += [z3.Not(z3.fpIsNaN(vars[n])), z3.Not(z3.fpIsInf(vars[n]))]
        else:
            for i in range(leaf[1]):
                v = z3.Int(f"{n}_c{i}")
                vars[f"{n}_c{i}"] = v
                pre += [v >= 0, v <= 0x10FFFF, z3.Not(z3.And(v >= 0xD800, v <= 0xDFFF))]
    return vars, pre


def leaf_equal(leaf, path, vars, got, cel):
    """z3 Bool + class check: `got` is the (CEL or python) value found at the leaf position"""
    celpy, ct, ev = common.mods()
    if leaf is None:
        return z3.BoolVal(got is None)
    if leaf is True or leaf is False:
        if cel:
            return z3.BoolVal(type(got) is ct.BoolType and bool(got) == leaf)
        return z3.BoolVal(type(got) is bool and got == leaf)
    n = vname(path)
    if leaf[0] == "int":
        ok = (type(got) is ct.IntType) if cel else (isinstance(got, int) and not isinstance(got, bool))
        return z3.And(z3.BoolVal(ok), tm(got) == vars[n]) if ok else z3.BoolVal(False)
    if leaf[0] == "float":
        ok = (type(got) is ct.DoubleType) if cel else isinstance(got, float)
        return z3.And(z3.BoolVal(ok), fp_same(ft(got), vars[n])) if ok else z3.BoolVal(False)
    ok = (type(got) is ct.StringType) if cel else isinstance(got, str)
    cs = cterms(got) if ok else []
    if not ok or len(cs) != leaf[1]:
        return z3.BoolVal(False)
    return z3.And([c == vars[f"{n}_c{i}"] for i, c in enumerate(cs)]) if cs else z3.BoolVal(True)


def walk(value, path):
    for p in path:
        if isinstance(p, int):
            value = list.__getitem__(value, p)
        else:
            hit = [v for k, v in dict.items(value) if str.__str__(k) == p]
            if len(hit) != 1:
                raise KeyError(p)
            value = hit[0]
    return value


def nav_sources(path):
    """CEL sources reaching `path` from variable doc: field syntax, key syntax, index syntax"""
    def ident(k):
        return k.isidentifier()
    variants = [[]]
    for p in path:
        if isinstance(p, int):
            variants = [v + [f"[{p}]"] for v in variants]
        else:
            new = []
            for v in variants:
                new.append(v + [f'["{p}"]'])
                if ident(p):
                    new.append(v + [f".{p}"])
            variants = new[:4]
    return ["doc" + "".join(v) for v in variants]


def _harness(shape, idx):
    celpy, ct, ev = common.mods()
    import celpy.adapter as ad
    vars, pre = doc_vars(shape)
    lv = list(leaves(shape))
    cont = list(containers(shape))
    progs = {}
    for path, leaf in lv:
        # a document that is a scalar itself is reached by the empty path: the bound variable, also through a list / map built around it
        for src in (nav_sources(path) if path else ["doc", "[doc][0]", "{'k': doc}.k", "{'k': doc}['k']", "[doc, doc].map(x, x)[1]"]):
            for r in common.RUNNERS:
                progs[(src, r)] = (path, leaf, common.make_program(src, r))

    def run(vals):
        doc = build_doc(shape, vals, vars)
        obs = []
        try:
            cel = ad.json_to_cel(doc)
        except Exception as ex:  # noqa: BLE001
            return [Ob("C15/json_to_cel/no-error", z3.BoolVal(False), note=f"{type(ex).__name__}: {ex}"[:160])]
        # type mapping + value at every leaf; container classes
        for path, leaf in lv:
            try:
                got = walk(cel, path)
            except Exception as ex:  # noqa: BLE001
                obs.append(Ob("C15/json_to_cel/structure", z3.BoolVal(False), note=f"path {path}: {type(ex).__name__}"))
                continue
            kind = "bool" if leaf in (True, False) else ("null" if leaf is None else leaf[0])
            obs.append(Ob(f"C15/json_to_cel/{kind}", leaf_equal(leaf, path, vars, got, True), note=f"leaf at {path}: got {type(got).__name__}",
                          tags={"got": type(got).__name__}))
        for path, c in cont:
            got = walk(cel, path)
            want = ct.MapType if isinstance(c, dict) else ct.ListType
            n = dict.__len__(got) if isinstance(got, dict) else (list.__len__(got) if isinstance(got, list) else -1)
            obs.append(Ob("C15/json_to_cel/container", z3.BoolVal(type(got) is want and n == len(c)), note=f"{path}: {type(got).__name__} size {n}"))
            if isinstance(c, dict) and isinstance(got, dict):
                obs.append(Ob("C15/json_to_cel/keys-are-strings", z3.BoolVal(all(type(k) is ct.StringType for k in dict.keys(got)))))
        # back to python
        try:
            back = ad.CELJSONEncoder.to_python(cel)
        except Exception as ex:  # noqa: BLE001
            return obs + [Ob("C15/to_python/no-error", z3.BoolVal(False), note=f"{type(ex).__name__}: {ex}"[:160])]
        for path, leaf in lv:
            try:
                got = walk(back, path)
            except Exception as ex:  # noqa: BLE001
                obs.append(Ob("C15/to_python/structure", z3.BoolVal(False), note=f"path {path}: {type(ex).__name__}"))
                continue
            kind = "bool" if leaf in (True, False) else ("null" if leaf is None else leaf[0])
            obs.append(Ob(f"C15/round-trip/{kind}", leaf_equal(leaf, path, vars, got, False), note=f"leaf at {path}: got {type(got).__name__} {got!r}"[:120]))
        for path, c in cont:
            got = walk(back, path)
            want = dict if isinstance(c, dict) else list
            obs.append(Ob("C15/round-trip/container", z3.BoolVal(type(got) is want and len(got) == len(c)), note=f"{path}: {type(got).__name__}"))
        # navigation
        for (src, r), (path, leaf, prog) in progs.items():
            kd, v = common.outcome(lambda: prog.evaluate({"doc": cel}))
            if kd != "value":
                obs.append(Ob(f"C15/navigate@{r}", z3.BoolVal(False), note=f"`{src}`: {kd} {str(v)[:80]}"))
            else:
                obs.append(Ob(f"C15/navigate@{r}", leaf_equal(leaf, path, vars, v, True), note=f"`{src}` must reach the leaf at {path}"))
        return obs

    def witness(vals):
        return {"check": "c15.document", "args": enc({"shape": _jsonable_shape(shape), "vals": vals})}

    return Harness(id=f"C15/doc{idx}", vars=vars or {"dummy": z3.Int("dummy")}, pre=pre, run=run, witness=witness, max_paths=80)


def _jsonable_shape(s):
    if isinstance(s, dict):
        return {"__obj__": [[k, _jsonable_shape(v)] for k, v in s.items()]}
    if isinstance(s, list):
        return {"__arr__": [_jsonable_shape(v) for v in s]}
    if isinstance(s, tuple):
        return {"__leaf__": list(s)}
    return {"__const__": s}


def _default_harness():
    """timestamps, durations, bytes: default() on concrete representatives (enumeration)"""
    def run(vals):
        return [Ob("C15/default/enumerated", z3.BoolVal(True), note="timestamp/duration/bytes encodings are checked by the concrete oracle on representatives")]
    return Harness(id="C15/default", vars={"dummy": z3.Int("dummy")}, pre=[z3.Int("dummy") == 0], run=run, witness=lambda v: None, max_paths=2)


def _time_text_harness(what):
    """CELJSONEncoder.default on a symbolic whole-second timestamp (any instant 0001..9999, any display offset in whole minutes
    within +-14:00) / a symbolic whole-second duration: the text is the RFC 3339 rendering of that instant (at the value's own
    offset or in UTC) / the decimal seconds followed by `s`"""
    import importlib
    from ..sym import times as T
    from . import c11
    celpy, ct, ev = common.mods()
    adapter = importlib.import_module("celpy.adapter")
    US = T.US
    if what == "timestamp-text":
        ES, O = z3.Int("es"), z3.Int("o")
        E = ES * US
        pre = [E >= T.MIN_L, E <= T.MAX_L, O >= -840, O <= 840, E + O * 60 * US >= T.MIN_L, E + O * 60 * US <= T.MAX_L]

        def rendering(local, off_min):
            f = c11.spec_fields(local)
            dig = lambda t, w: [(t / 10 ** (w - 1 - k)) % 10 + 48 for k in range(w)]  # noqa: E731
            body = dig(f["getFullYear"], 4) + [45] + dig(f["getMonth"] + 1, 2) + [45] + dig(f["getDate"], 2) + [84] + dig(f["getHours"], 2) + [58] + \
                dig(f["getMinutes"], 2) + [58] + dig(f["getSeconds"], 2)
            if off_min is None:
                return body + [90]
            a = z3.If(off_min < 0, -off_min, off_min)
            return body + [z3.If(off_min < 0, 45, 43)] + dig(a / 60, 2) + [58] + dig(a % 60, 2)

        def run(vals):
            t = ct.TimestampType(T.make_datetime(mk(SInt, E, vals["es"] * US), mk(SInt, O, vals["o"])))
            try:
                text = adapter.CELJSONEncoder().default(t)
            except Exception as ex:  # noqa: BLE001
                return [Ob("C15/timestamp/encodes", z3.BoolVal(False), note=f"{type(ex).__name__}: {ex}"[:120])]
            if not isinstance(text, str):
                return [Ob("C15/timestamp/encodes-as-text", z3.BoolVal(False), note=repr(text)[:80])]
            got = cterms(text)
            alts = []
            for want in (rendering(E, None), rendering(E + O * 60 * US, O)):
                if len(want) == len(got):
                    alts.append(z3.And([g == w for g, w in zip(got, want)]))
            # the own-offset rendering with a zero offset is `Z`-less "+00:00": also RFC 3339 for the same instant
            return [Ob("C15/timestamp/rfc3339-same-instant", z3.Or(alts) if alts else z3.BoolVal(False), note=f"text of length {len(got)}")]

        return Harness(id="C15/timestamp-text", vars={"es": ES, "o": O}, pre=pre, run=run,
                       witness=lambda vals: {"check": "c15.time_text", "args": enc({"what": what, "vals": vals})}, max_paths=60, timeout_ms=60000)
    DS = z3.Int("ds")
    pre = [DS >= -315576000000, DS <= 315576000000]

    def run(vals):
        d = ct.DurationType(T.make_timedelta(mk(SInt, DS * US, vals["ds"] * US)))
        try:
            text = adapter.CELJSONEncoder().default(d)
        except Exception as ex:  # noqa: BLE001
            return [Ob("C15/duration/encodes", z3.BoolVal(False), note=f"{type(ex).__name__}: {ex}"[:120])]
        got = cterms(text) if isinstance(text, str) else []
        if len(got) < 2:
            return [Ob("C15/duration/encodes-as-text", z3.BoolVal(False), note=repr(text)[:80])]
        neg = got[0] == 45
        body = got[1:-1] if str.__str__(text).startswith("-") else got[:-1]
        val = z3.IntVal(0)
        for c in body:
            val = val * 10 + (c - 48)
        digits_ok = z3.And([z3.And(c >= 48, c <= 57) for c in body]) if body else z3.BoolVal(False)
        signed = -val if str.__str__(text).startswith("-") else val
        return [Ob("C15/duration/seconds-text", z3.And(got[-1] == 115, digits_ok, signed == DS, z3.Implies(len(body) > 1, body[0] != 48) if body else z3.BoolVal(False)))]

    return Harness(id="C15/duration-text", vars={"ds": DS}, pre=pre, run=run,
                   witness=lambda vals: {"check": "c15.time_text", "args": enc({"what": what, "vals": vals})}, max_paths=60)


def extra_validation():
    ws = []
    for t in ("2009-02-13T23:31:30Z", "0001-01-01T00:00:00Z", "9999-12-31T23:59:59Z", "2020-06-30T23:59:59+05:30", "1969-12-31T23:59:59-08:00"):
        ws.append({"check": "c15.special", "args": {"kind": "timestamp", "value": t}})
    for d in (0, 1, -1, 3600, 86400, -86400, 315576000000):
        ws.append({"check": "c15.special", "args": {"kind": "duration", "value": d}})
    for b in ([], [0], [255, 254, 253], [104, 105], list(range(256)), [255], [251, 239], [0, 0, 62], [63, 255, 254], [251, 255, 191]):
        ws.append({"check": "c15.special", "args": {"kind": "bytes", "value": b}})
    ws += [{"check": "c15.text_document", "args": {"text": t}} for t in
           ['{"a": 1, "b": [true, false, null, 1.5, "x"], "c": {"d": -9223372036854775808, "e": 9223372036854775807}}', '[1, 1.0, true, "1"]',
            '{"\\u00e9\\ud83d\\ude00": "\\u0000\\n"}', '[-0.0, 1e300, 5e-324, 0.1]', '{"true": true, "1": 1}', '[[[[[1]]]]]', '"s"', '0', 'true', 'null', '{}', '[]']]
    return ws
