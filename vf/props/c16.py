"""C16 concurrency: threads that each own their Environment and program get, under every interleaving, the results
they get when run alone.  Engine E3 `sched`: byte-code level shared-state events (vf.sched.events), z3 decides which
schedules change the reads-from relation (vf.sched.smt), every such schedule is forced on the real code with real
threads (vf.sched.replay -> vf.oracles.c16)."""
import fnmatch
import re
import time

PROP = "C16"
LEVEL = "model_checking"
ENGINE = "sched"          # no shadow loader, no fidelity run: the real byte-code is observed, not re-interpreted

SETS = {   # programs and bindings chosen so that every thread's solo result differs from what it computes on another
           # thread's bindings, program pieces or result
    "arith": (["x + 1", "x + 2", "x + 3", "x + 4"], [{"x": 1}, {"x": 100}, {"x": 10}, {"x": 1000}]),
    "logic": (["x > 0 || x == 7", "x < 0 || x == 1", "x > 3 || x == 2", "x < -3 || x == 4"],
              [{"x": 1}, {"x": 0}, {"x": 5}, {"x": -9}]),
    "cond": (["x > 0 ? x + 1 : x - 1", "x > 5 ? x * 2 : x * 3", "x > 2 ? x - 7 : x + 7", "x > 9 ? x + 5 : x * 5"],
             [{"x": 1}, {"x": 10}, {"x": 2}, {"x": 20}]),
    # deeply nested, legal expressions: fine alone, but only with a recursion limit above Python's default 1000
    "deep": (["(" * 40 + "x + k" + ")" * 40, "(" * 36 + "x * k" + ")" * 36 + " - 1",
              "(" * 44 + "x - k" + ")" * 44, "(" * 38 + "x + k + k" + ")" * 38],
             [{"x": 1, "k": 10}, {"x": 6, "k": 7}, {"x": 50, "k": 8}, {"x": 3, "k": 100}]),
    # the SAME text in every thread (a worker pool evaluating one policy), own Environment / program / bindings each
    "same": (["x > k ? x * x + 1 : x - k"] * 4, [{"x": 3, "k": 1}, {"x": 4, "k": 0}, {"x": 0, "k": 5}, {"x": 9, "k": 2}]),
    # matches() with a different pattern in every thread
    "regex": (['s.matches("^web-[0-9]+$") && port > 1024', 's.matches("^db")', 's.matches("[0-9]{3}$")', 's.matches("^x+$") || port < 0'],
              [{"s": "web-12", "port": 8080}, {"s": "db-1", "port": 1}, {"s": "abc123", "port": 2}, {"s": "xxx", "port": 3}]),
    # the same macro text in every thread, its body reading a variable that every thread binds differently
    "samemacro": (["[1, 2, 3].map(y, y + k)"] * 4, [{"k": 10}, {"k": 100}, {"k": 1000}, {"k": 5}]),
    "samemacro2": (["[k, 2, 3].filter(y, [y, k].exists(z, z > k + y))"] * 4, [{"k": 1}, {"k": -7}, {"k": 2}, {"k": 0}]),
    # zone arguments that a process-wide memo could conflate
    "zones": (["timestamp('2020-06-01T12:30:00Z').getHours('-00:45') * 100 + timestamp('2020-06-01T12:30:00Z').getMinutes('-00:45') + x",
               "timestamp('2020-06-01T12:30:00Z').getHours('+00:45') * 100 + timestamp('2020-06-01T12:30:00Z').getMinutes('+00:45') + x",
               "timestamp('2020-06-01T12:30:00Z').getHours('00:45') * 100 + x", "timestamp('2020-06-01T12:30:00Z').getHours('-0:45') * 100 + x"],
              [{"x": 1}, {"x": 2}, {"x": 3}, {"x": 4}]),
    "macro": (["[x, 2].map(y, y * x)", "[x, 3].map(y, y + x)", "[x, 4].map(y, y - x)", "[x, 5].map(y, y + x + x)"],
              [{"x": 2}, {"x": 5}, {"x": 7}, {"x": 11}]),
}
SHAPES = {   # (threads, evaluations per thread, warm parser, context-switch bound)
    "quick": [(2, 1, False, 4)],
    "thorough": [(2, 1, False, 4), (2, 2, False, 5), (3, 2, False, 5), (4, 1, True, 6)],
}
BOUNDS = {
    "quick": {"threads": 2, "evaluations per thread": 1, "context switches": "<= 4, at traced-line boundaries",
              "workloads": sorted(SETS), "runners": ["interp", "compiled", "mixed (compiled+interp, interp+compiled) for arith, logic"],
              "initial state": "parser singleton cleared (every thread may build it); recursion limit 1000 (Python's default)"},
    "thorough": {"threads": "2, 3, 4", "evaluations per thread": "1 or 2", "context switches": "<= 4 / 5 / 6 (4 threads)",
                 "workloads": sorted(SETS), "runners": ["interp", "compiled", "mixed (alternating per thread) for arith, logic"],
                 "initial state": "parser singleton cleared; for 4 threads: already built by an earlier Environment; "
                                  "recursion limit 1000 (Python's default) in every scenario"},
}
OUTSIDE = [
    "granularity: a thread is pre-empted only where a traced source line of src/celpy/* or of the exec-ed <string> code "
    "begins (a step = that line event up to the thread's next one); switches inside a line's byte-code are not explored",
    "tracked shared state only: module globals (incl. writes through a module __dict__), celpy class attributes, and "
    "attributes / items of any object two workloads both touch, where the receiver is a plain name(.attr)* chain: "
    "subscript load/store/delete, `in`, and method calls on a dict / list / set (setdefault, update, pop, append, add, get, "
    "...; key = the constant or name(.attr)* first argument / subscript, any hashable value, two keys being one location exactly "
    "when the dict treats them as one key - e.g. equal code objects or tuples; else the whole container is one location); a mutable object "
    "that a finished solo run leaves stored at most two hops from a module global / class attribute (e.g. a dict cached in "
    "a class-level table) is named by that location, so the objects each thread puts there count as one - deeper object "
    "graphs, objects only passed through such a location and later removed, and mutation through other APIs "
    "(dict.__setitem__ via operator/functools, deque, user classes' own methods) are not tracked; plus the pseudo locations interpreter::{recursionlimit, switchinterval, decimalcontext, locale}, "
    "written/read where the code loads sys.set/getrecursionlimit, sys.set/getswitchinterval, decimal.setcontext/"
    "getcontext/localcontext, locale.setlocale (decimal contexts are per-thread in CPython: deviations there replay "
    "benign); other process-wide setters (os.environ, warnings filters, signal, ...) are not tracked; receivers computed otherwise (counted in evidence as unresolved), "
    "C-level state (re / functools caches, logging) and everything inside Lark are not modelled",
    "objects reachable only from a thread's own Environment / program / bindings are assumed thread-local (that is the "
    "documented contract); the threads of a scenario use one runner class, or alternate between the two (mixed scenarios: "
    "each thread builds its Environment - and thereby selects the shared parser - inside the thread)",
    "the interpreter's implicit reads of the recursion limit (on every call) are not byte-code events: when some "
    "workload touches the limit explicitly, each thread gets ONE synthetic read per stretch between its explicit accesses, "
    "at the stretch's deepest stack point; what a foreign write does to a thread is visible only through the replayed "
    "result of that one schedule per (write, synthetic read), with programs nested 36-44 levels (limit needed: >1000, <2500)",
    "events come from each workload's solo run: after the first deviating read a thread may leave that control flow; "
    "the replay then shows what really happens, but accesses that exist only on such a path are not in the model",
    "benign/violation is judged on the scenario's programs and bindings (chosen to discriminate), not for all inputs",
    "free-running stress (no forced order) is not solver-based and is not claimed",
    "lock-based serialisation: a schedule that cannot be forced (gate wait times out) is inconclusive, never an alarm",
]
ASSUMPTIONS = [
    "sys.monitoring LINE/INSTRUCTION events (CPython 3.12, the layer under sys.settrace) report every executed line and "
    "instruction of the traced code objects",
    "the only inter-thread communication of the workloads is through the tracked locations (guard: every rebinding or "
    "in-place size/identity change of a celpy module global or class attribute seen by a before/after snapshot must have "
    "an extracted write event, else the run is a harness error)",
    "delaying a thread at a line boundary does not itself change what the code computes; one known exception, stated: a "
    "gate callback is a Python call, so a thread held ABOVE a recursion limit that another thread has just lowered gets its "
    "RecursionError at the gate instead of at its own next call (the same holds in the clean-interpreter replay)",
    "every scenario (extraction, solo runs, forced replays, clean-interpreter oracle) starts from recursion limit 1000 and "
    "the previous limit is put back afterwards; a change of the limit or switch interval by a workload without an "
    "extracted write event is a harness error (same snapshot guard)",
]
TRUSTED = ["z3 5.1", "CPython 3.12 sys.monitoring, dis, threading", "vf.sched (events, smt, replay)", "vf.oracles.c16"]
WITNESS_OB = "C16/{runner}/result-differs-under-schedule"


MIXED = ("compiled+interp", "interp+compiled")     # thread t uses the (t mod 2)-th runner class
MIXED_SETS = ("arith", "logic")


def tasks(tier):
    return [{"runner": r, "set": s, "threads": n, "evals": k, "warm": w, "switches": p}
            for (n, k, w, p) in SHAPES[tier] for s in SETS for r in ("interp", "compiled") + (MIXED if s in MIXED_SETS else ())]


def norm(site):
    return re.sub(r"\bex_\d+", "ex_N", site)


def known_match(kf, ob_id, wsite, rsite):
    for e in kf.entries if kf else []:
        site = e.get("site") or {}
        if fnmatch.fnmatchcase(ob_id, e["obligation"]) and site and \
                fnmatch.fnmatchcase(wsite, site.get("write", "")) and fnmatch.fnmatchcase(rsite, site.get("read", "")):
            return e
    return None


def run_task(task, kf):
    from ..sched import events, smt, replay
    t0 = time.time()
    runner, n, evals, warm = task["runner"], task["threads"], task["evals"], task["warm"]
    programs, bindings = (x[:n] for x in SETS[task["set"]])
    hid = f"C16/{runner}/{task['set']}/{n}x{evals}{'/warm' if warm else ''}"
    ob_all, ob_viol = f"C16/{runner}/no-schedule-changes-a-result", WITNESS_OB.format(runner=runner)
    res = {"id": hid, "paths": 0, "transitions": 0, "obligations": 1, "discharged": 0, "unknown": 0, "divergences": 0,
           "queries": 0, "display": 0, "aborted": 0, "solver_s": 0.0, "budget_exhausted": False, "pins": {},
           "ob_ids": {ob_all: 1}, "funcs": [], "samples": [], "known_hits": {}, "errors": [], "validate": [], "violations": []}
    sc = events.scenario(runner, programs, bindings, evals, warm)
    try:
        return _run(task, kf, sc, res, hid, ob_viol, runner, programs, bindings, evals, warm, t0, smt, replay)
    finally:
        sc["state"].close()            # recursion limit etc. back to what the worker had


def _run(task, kf, sc, res, hid, ob_viol, runner, programs, bindings, evals, warm, t0, smt, replay):
    res["errors"] += sc["errors"]
    res["funcs"] = sc["funcs"]
    res["transitions"] = sc["stats"].get("relevant-accesses", 0)
    model = smt.Model(sc["threads"], task["switches"])
    if not model.sanity():
        res["errors"].append("schedule space empty or undecided: bound too small for the thread count")
    res["paths"] = 1
    counts = {"benign": 0, "violation": 0, "known": 0, "inconclusive": 0}
    devs, by_site = [], {}
    for d in model.enumerate_deviations(cap=2000):
        wsite, rsite = norm(d["write"]["site"]), norm(d["read"]["site"])
        ob = f"C16/{runner}/deviation/{wsite}->{rsite}"
        res["obligations"] += 1
        res["ob_ids"][ob] = res["ob_ids"].get(ob, 0) + 1
        res["paths"] += 1
        r = replay.replay(sc, runner, programs, bindings, evals, warm, d)
        info = {"write": f"t{d['write']['t']} {d['write']['site']} @{d['write']['at']}",
                "read": f"t{d['read']['t']} {d['read']['site']} @{d['read']['at']}", "location": d["read"]["loc"],
                "first_deviation_of_schedule": d["first"], "only_location_deviating": d["isolated"], "status": r["status"]}
        devs.append(info)
        tally = by_site.setdefault(f"{wsite} -> {rsite}", {})
        tally[r["status"]] = tally.get(r["status"], 0) + 1
        if r["status"] == "benign":
            res["discharged"] += 1
            counts["benign"] += 1
        elif r["status"] == "inconclusive":
            res["unknown"] += 1
            counts["inconclusive"] += 1
            res["divergences"] += 1 if r.get("skipped") else 0
        else:
            e = known_match(kf, ob_viol, wsite, rsite)
            if e is not None:
                counts["known"] += 1
                res["known_hits"].setdefault(e["id"], {"text": e["text"], "witness": r["witness"], "obligation": ob_viol})
            else:
                counts["violation"] += 1
                res["violations"].append({
                    "obligation": ob_viol, "harness": hid, "witness": r["witness"],
                    "inputs": {"programs": programs, "bindings": bindings, "evals": evals, "warm": warm,
                               "site": {"write": wsite, "read": rsite}, "deviation": info},
                    "note": f"thread {d['read']['t']} reads {d['read']['loc']} written by thread {d['write']['t']}: {r['detail'][:400]}"})
        if len(res["samples"]) < 2 and (r["status"] != "benign" or not res["samples"]):
            res["samples"].append({"locations": sc["locations"], "deviation": info, "replay": r["detail"][:500],
                                   "schedule": [f"t{g['t']} {g['func']}:{str(g['line'])[:50]}#{g['occ']}"
                                                for g in replay.entries(sc, d["schedule"])]})
    if not res["samples"]:
        res["samples"].append({"locations": sc["locations"], "events": [], "schedule": [],
                               "note": "no location is written by one thread and touched by another"})
    res["samples"][0]["events_thread0"] = [f"{s['gate']['func']}:{str(s['gate']['line'])[:50]}#{s['gate']['occ']} "
                                           + ",".join(a["kind"] + " " + a["loc"] for a in s["acc"]) for s in sc["threads"][0]]
    res["samples"][0]["extraction"] = sc["stats"]
    res["queries"], res["solver_s"] = model.queries, model.solver_s
    res["unknown"] += model.unknown
    if not model.closed:
        res["budget_exhausted"] = True
        res["unknown"] += 1
    elif not (counts["violation"] or counts["known"] or counts["inconclusive"]):
        res["discharged"] += 1       # final `unsat`: no further read can be served by another thread's write
    res["deviations"] = devs
    res["summary"] = {**counts, "candidate_pairs": len(model.dev), "closed_by_unsat": model.closed, "by_site": by_site,
                      "locations": sc["locations"], "wall_s": round(time.time() - t0, 2)}
    return [res]


def extra_coverage(results, tier):
    return {"scenarios": {r["id"]: r.get("summary") for r in results},
            "shared_written_locations": sorted({loc for r in results for loc in (r.get("summary") or {}).get("locations", [])})}


MANIFEST = {
    "text": "Shared-state read/write events are extracted from the real byte-code of each thread's workload (sys.monitoring line/instruction events, namespaces by identity); "
            "z3 enumerates every interleaving (bounded context switches) whose reads-from relation differs from the solo runs; each such schedule is forced on the real code "
            "with real threads and line gates, and only a replay whose result differs from the solo result is a violation. unsat closes each scenario.",
    "note": "Line granularity, tracked shared state only (module globals, celpy class attributes, process-wide interpreter settings behind sys/decimal/locale accessors with a synthetic deepest-point read of the recursion limit), 2-4 threads, <= 5 context switches. Lark internals, C-level caches and "
            "free-running stress are outside; an unforceable schedule is inconclusive, never an alarm.",
    "technique": "SMT (z3) encoding of thread interleavings over byte-code-level shared-state events; forced-schedule replay on the real code",
    "design_ref": "DESIGN.md §3.2, §7 C16",
}
