"""C17 Custodian helper functions implement their set, CIDR, tag and ARN semantics; the filter context is scoped."""
import itertools
import sys

import z3

from .. import explore
from ..explore import Harness, Ob
from ..refsem import MIN64, MAX64
from ..sym import loader as L, cont, fnshim
from ..sym.core import SInt, SBool, mk, tm, bool_term, is_sym
from ..sym.strs import SStr, mks, cterms
from . import common, values as V
from ..replay import enc

PROP = "C17"
LEVEL = "model_checking"
FIDELITY_TESTS = ["tests/test_c7nlib.py", "tests/test_celtypes.py"]
FIDELITY_TESTS_THOROUGH = ["tests"]
BOUNDS = {
    "quick": {"set algebra": "intersect / difference / unique_size on lists of 0..3 symbolic int64 or 1-char strings (all values)",
              "CIDR": "IPv4Network((addr, p)).contains(network / address) for 8 x 8 prefix-length pairs x all 2^32 x 2^32 address pairs (host-bit rejection included); "
                      "parse_cidr / size_parse_cidr on concrete spellings", "tags": "key() on 3 tags with symbolic 1-char keys and a symbolic target; marked_key on values of the "
                      "shape m:a@d with symbolic separator positions", "arn_split": "5- and 6-field ARNs with 1-char symbolic fields, every field name",
              "normalize / glob": "ASCII strings of 0..2 code points; 4 glob patterns", "context": "C7NContext over success / error / escaping paths of one symbolic evaluation, sequences of 2"},
    "thorough": {"CIDR": "all 33 x 33 prefix-length pairs", "others": "lists of 0..4, strings of 0..3"},
}
OUTSIDE = ["versions other than dotted decimal numbers (epochs, pre/post/dev/local segments of PEP 440)", "value_from / text_from (network)", "jmes_path (third-party)", "non-ASCII case mapping in normalize",
           "parse_cidr on symbolic text (ipaddress parses the text with C-level string methods): concrete spellings only"]
ASSUMPTIONS = ["stdlib ipaddress is shadow-loaded (its own Python source runs on symbolic 32-bit integers)"]
TRUSTED = ["z3 5.1", "CPython 3.12", "vf.sym shadows (SSet, fnmatch shim, bit-run encoding of & | >> by constants)"]
MANIFEST = {
    "text": "Symbolic execution of celpy.c7nlib's own code (key, marked_key, arn_split, intersect, difference, unique_size, normalize, glob, IPv4Network.__contains__/contains, "
            "size_parse_cidr, C7NContext, C7N_Interpreted_Runner.evaluate) and of the stdlib ipaddress module it subclasses, on symbolic lists, strings and 32-bit addresses; z3 proves "
            "the set algebra, first-match tag lookup, prefix containment ((x >> (32-p)) == (n >> (32-p)) and p_x >= p), ARN field table and context scoping for all values.",
    "note": "Lengths and prefix lengths enumerated; elements, characters and addresses symbolic. Helpers that are thin wrappers over third-party/C code are outside.",
    "technique": "symbolic execution of the real Python byte-code (incl. shadow-loaded stdlib ipaddress) with shadow builtins + z3; counterexample replay",
    "design_ref": "DESIGN.md §7 C17",
}


def _c7nlib_post(module, state):
    L._generic_post(module, state)
    module.fnmatch = fnshim


def profile():
    sys.modules.pop("ipaddress", None)
    p = L.default_profile()
    p.add("celpy.adapter", post=L._generic_post)
    p.add("ipaddress", seeds={"int": SInt}, rewrite=False)
    seeds = dict(L.BASIC)
    seeds["set"] = cont.SSet
    p.add("celpy.c7nlib", seeds=seeds, post=_c7nlib_post)
    # packaging.version (pure Python, third party) is followed symbolically as well: version() delegates to it entirely
    for m in [k for k in sys.modules if k == "packaging" or k.startswith("packaging.")]:
        sys.modules.pop(m, None)
    p.add("packaging._structures", post=L._generic_post)
    p.add("packaging.version", post=_packaging_post)
    return p


class _CharSet:
    """stand-in for a frozenset of characters probed with issuperset(<symbolic str>): membership by comparison, not by hash"""

    def __init__(self, chars):
        self.chars = frozenset(chars)

    def issuperset(self, s):
        from ..sym import strs
        from ..sym.core import branch
        if not isinstance(s, str):
            raise TypeError("not iterable")
        if not strs.s_is_sym(s):
            return self.chars.issuperset(s)
        codes = sorted(ord(c) for c in self.chars)
        for t, ch in zip(strs.cterms(s), strs.sraw(s)):
            if not branch(z3.Or([t == c for c in codes]), ch in self.chars):
                return False
        return True

    def __contains__(self, c):
        return c in self.chars

    def __iter__(self):
        return iter(self.chars)


def _packaging_post(module, state):
    L._generic_post(module, state)
    if hasattr(module, "_SIMPLE_VERSION_INDICATORS"):
        module._SIMPLE_VERSION_INDICATORS = _CharSet(module._SIMPLE_VERSION_INDICATORS)


PREFIXES_Q = (0, 1, 8, 16, 23, 24, 31, 32)


def tasks(tier):
    ts = []
    nmax = 3 if tier == "quick" else 4
    for n, m in itertools.product(range(nmax + 1), repeat=2):
        ts.append({"what": "sets", "n": n, "m": m, "kind": "int"})
    for n, m in itertools.product(range(3), repeat=2):
        ts.append({"what": "sets", "n": n, "m": m, "kind": "string"})
    pf = PREFIXES_Q if tier == "quick" else tuple(range(33))
    for pn in pf:
        ts.append({"what": "cidr", "pn": pn, "pxs": list(pf)})
    ts += [{"what": w} for w in ("key", "marked_key", "arn_split", "normalize", "glob", "context", "cidr-text")]
    vs = VERSION_SHAPES_Q if tier == "quick" else VERSION_SHAPES_Q + VERSION_SHAPES_T
    ts += [{"what": "version", "a": a, "b": b} for a, b in vs]
    return ts


VERSION_SHAPES_Q = [("D.D", "D.D"), ("D.D.D", "D.D"), ("D.D", "D.D.D"), ("D", "D.D.D"), ("D.DD", "D.D"), ("DD.D", "D.DD"), ("D.D.D", "D.D.D")]
VERSION_SHAPES_T = [("D.D.D.D", "D.D"), ("DD.DD", "D.D.D"), ("D", "D"), ("DDD", "D.D"), ("D.D.DD", "D.D.D"), ("D.D", "D.D.D.D")]


def c7n():
    common.mods()
    import celpy.c7nlib as m
    return m


def run_task(task, kf):
    w = task["what"]
    if w == "sets":
        hs = _set_harnesses(task["n"], task["m"], task["kind"])
    elif w == "version":
        hs = [_version_harness(task["a"], task["b"])]
    elif w == "cidr":
        hs = [_cidr_harness(task["pn"], px) for px in task["pxs"]] + [_cidr_addr_harness(task["pn"])]
    else:
        hs = {"key": _key_harnesses, "marked_key": _marked_harnesses, "arn_split": _arn_harnesses, "normalize": _normalize_harnesses,
              "glob": _glob_harnesses, "context": _context_harnesses, "cidr-text": _cidr_text_harnesses}[w]()
    out, first = [], True
    for h in hs:
        out.append(explore.explore(h, kf, profile_root=L.SRC if first else None))
        first = False
    return out


def _prog(text):
    celpy, ct, ev = common.mods()
    m = c7n()
    celpy.CELParser.CEL_PARSER = common._parsers.get("interp")
    env = celpy.Environment(annotations=dict(m.DECLARATIONS))
    common._parsers["interp"] = celpy.CELParser.CEL_PARSER
    return env.program(env.compile(text), functions=dict(m.FUNCTIONS))


def _version_harness(sa, sb):
    """version(a) <op> version(b) for dotted numeric texts with symbolic digits: numeric component order, missing components count as zero"""
    from ..sym import strs
    celpy, ct, ev = common.mods()
    lib = c7n()
    vars, pre = {}, []

    def mkshape(name, shape):
        cs, comps, cur = [], [], z3.IntVal(0)
        for i, ch in enumerate(shape):
            c = z3.Int(f"{name}_c{i}")
            vars[str(c)] = c
            cs.append(c)
            if ch == "D":
                pre.extend([c >= 48, c <= 57])
                cur = cur * 10 + (c - 48)
            else:
                pre.append(c == 46)
                comps.append(cur)
                cur = z3.IntVal(0)
        comps.append(cur)
        return cs, comps
    ca, A = mkshape("a", sa)
    cb, B = mkshape("b", sb)
    n = max(len(A), len(B))
    A2, B2 = A + [z3.IntVal(0)] * (n - len(A)), B + [z3.IntVal(0)] * (n - len(B))

    def lex_lt(xs, ys):
        if not xs:
            return z3.BoolVal(False)
        return z3.Or(xs[0] < ys[0], z3.And(xs[0] == ys[0], lex_lt(xs[1:], ys[1:])))
    lt, eq = lex_lt(A2, B2), z3.And([x == y for x, y in zip(A2, B2)])
    spec = {"<": lt, "<=": z3.Or(lt, eq), ">": z3.And(z3.Not(lt), z3.Not(eq)), ">=": z3.Not(lt), "==": eq, "!=": z3.Not(eq)}
    progs = {op: _prog(f"version(a) {op} version(b)") for op in spec}
    import operator
    pyop = {"<": operator.lt, "<=": operator.le, ">": operator.gt, ">=": operator.ge, "==": operator.eq, "!=": operator.ne}

    def run(vals):
        a = ct.StringType(strs.mks(strs.SStr, ca, "".join(chr(vals[f"a_c{i}"]) for i in range(len(ca)))))
        b = ct.StringType(strs.mks(strs.SStr, cb, "".join(chr(vals[f"b_c{i}"]) for i in range(len(cb)))))
        obs = []
        for op, sp in spec.items():
            kd, r = common.outcome(lambda: pyop[op](lib.version(a), lib.version(b)))
            obs.append(Ob(f"C17/version/{op}@direct", (bool_term(r) == sp) if kd == "value" else z3.BoolVal(False), note=f"{kd} {str(r)[:60]}"))
            kd, r = common.outcome(lambda: progs[op].evaluate({"a": a, "b": b}))
            obs.append(Ob(f"C17/version/{op}@cel", (bool_term(r) == sp) if kd == "value" else z3.BoolVal(False), note=f"{kd} {str(r)[:60]}"))
        return obs

    def witness(vals):
        return {"check": "c17.version_order", "args": enc({"la": len(ca), "lb": len(cb), "vals": vals})}
    return Harness(id=f"C17/version/{sa}~{sb}", vars=vars, pre=pre, run=run, witness=witness, max_paths=400)


def _set_harnesses(n, m, kind):
    celpy, ct, ev = common.mods()
    lib = c7n()
    el = ("int",) if kind == "int" else ("string", 1)
    sa, sb = ("list", [el] * n), ("list", [el] * m)
    vars, pre = V.shape_vars(sa, "a")
    v2, p2 = V.shape_vars(sb, "b")
    vars.update(v2)
    tA = [z3.Int(f"a_{i}") if kind == "int" else z3.Int(f"a_{i}_c0") for i in range(n)]
    tB = [z3.Int(f"b_{i}") if kind == "int" else z3.Int(f"b_{i}_c0") for i in range(m)]
    inter = z3.Or([x == y for x in tA for y in tB]) if (n and m) else z3.BoolVal(False)
    diff = z3.Or([z3.Not(z3.Or([x == y for y in tB])) if m else z3.BoolVal(True) for x in tA]) if n else z3.BoolVal(False)
    uniq = z3.Sum([z3.If(z3.And([tA[i] != tA[j] for j in range(i)]) if i else z3.BoolVal(True), 1, 0) for i in range(n)]) if n else z3.IntVal(0)
    progs = {"intersect": _prog("a.intersect(b)"), "difference": _prog("a.difference(b)"), "unique_size": _prog("unique_size(a)")}

    def run(vals):
        a, b = V.build(sa, "a", vals), V.build(sb, "b", vals)
        obs = []
        for route in ("direct", "cel"):
            for fn, spec in (("intersect", inter), ("difference", diff)):
                if route == "direct":
                    kd, r = common.outcome(lambda: getattr(lib, fn)(a, b))
                else:
                    kd, r = common.outcome(lambda: progs[fn].evaluate({"a": a, "b": b}))
                obs.append(Ob(f"C17/{fn}/{kind}@{route}", (bool_term(r) == spec) if kd == "value" else z3.BoolVal(False), note=f"{kd} {str(r)[:60]}"))
            if route == "direct":
                kd, r = common.outcome(lambda: lib.unique_size(a))
            else:
                kd, r = common.outcome(lambda: progs["unique_size"].evaluate({"a": a}))
            obs.append(Ob(f"C17/unique_size/{kind}@{route}", (tm(r) == uniq) if kd == "value" and isinstance(r, int) else z3.BoolVal(False), note=f"{kd} {str(r)[:60]}"))
        return obs

    def witness(vals):
        return {"check": "c17.sets", "args": enc({"n": n, "m": m, "kind": kind, "vals": vals})}

    return [Harness(id=f"C17/sets/{kind}/{n},{m}", vars=vars or {"dummy": z3.Int("dummy")}, pre=pre + p2, run=run, witness=witness, max_paths=400)]


def _cidr_harness(pn, px):
    lib = c7n()
    NA, XA = z3.Int("na"), z3.Int("xa")
    pre = [NA >= 0, NA < 2**32, XA >= 0, XA < 2**32]
    n_ok = (NA % 2 ** (32 - pn)) == 0
    x_ok = (XA % 2 ** (32 - px)) == 0
    spec = z3.And(z3.BoolVal(px >= pn), (XA / 2 ** (32 - pn)) == (NA / 2 ** (32 - pn)))

    def run(vals):
        na, xa = mk(SInt, NA, vals["na"]), mk(SInt, XA, vals["xa"])
        try:
            net = lib.IPv4Network((na, pn))
        except ValueError:
            return [Ob("C17/cidr/network-rejected-iff-host-bits", z3.Not(n_ok))]
        try:
            sub = lib.IPv4Network((xa, px))
        except ValueError:
            return [Ob("C17/cidr/network-rejected-iff-host-bits", z3.Not(x_ok))]
        obs = []
        for how in ("contains", "in"):
            kd, r = common.outcome(lambda: net.contains(sub) if how == "contains" else (sub in net))
            obs.append(Ob(f"C17/cidr/network-containment@{how}", z3.And(n_ok, x_ok, bool_term(r) == spec) if kd == "value" else z3.BoolVal(False),
                          note=f"/{pn} contains /{px}: {kd} {str(r)[:60]}"))
        return obs

    def witness(vals):
        return {"check": "c17.cidr", "args": enc({"pn": pn, "px": px, "vals": vals, "address": False})}

    return Harness(id=f"C17/cidr/{pn}>{px}", vars={"na": NA, "xa": XA}, pre=pre, run=run, witness=witness, max_paths=80)


def _cidr_addr_harness(pn):
    lib = c7n()
    import ipaddress
    NA, XA = z3.Int("na"), z3.Int("xa")
    pre = [NA >= 0, NA < 2**32, XA >= 0, XA < 2**32, (NA % 2 ** (32 - pn)) == 0]
    spec = (XA / 2 ** (32 - pn)) == (NA / 2 ** (32 - pn))

    def run(vals):
        na, xa = mk(SInt, NA, vals["na"]), mk(SInt, XA, vals["xa"])
        kd, r = common.outcome(lambda: lib.IPv4Network((na, pn)).contains(ipaddress.IPv4Address(xa)))
        return [Ob("C17/cidr/address-containment", (bool_term(r) == spec) if kd == "value" else z3.BoolVal(False), note=f"/{pn}: {kd} {str(r)[:60]}")]

    def witness(vals):
        return {"check": "c17.cidr", "args": enc({"pn": pn, "px": 32, "vals": vals, "address": True})}

    return Harness(id=f"C17/cidr-addr/{pn}", vars={"na": NA, "xa": XA}, pre=pre, run=run, witness=witness, max_paths=40)


CIDR_TEXTS = [("10.0.0.0/8", "10.1.2.3", True), ("10.0.0.0/8", "11.0.0.1", False), ("192.168.1.0/24", "192.168.1.128/25", True), ("192.168.1.128/25", "192.168.1.0/24", False),
              ("0.0.0.0/0", "255.255.255.255", True), ("1.2.3.4/32", "1.2.3.4", True), ("1.2.3.4/32", "1.2.3.5", False), ("10.0.0.0/8", "10.0.0.0/8", True),
              ("172.16.0.0/12", "172.32.0.0/16", False), ("172.16.0.0/12", "172.31.255.0/24", True)]
CIDR_SIZES = [("10.0.0.0/8", 8), ("0.0.0.0/0", 0), ("1.2.3.4/32", 32), ("192.168.1.128/25", 25), ("10.1.2.3", None), ("not-a-cidr/99", None)]


def _cidr_text_harnesses():
    def run(vals):
        return [Ob("C17/cidr/text-enumerated", z3.BoolVal(True), note="parse_cidr / size_parse_cidr spellings are checked by the concrete oracle (enumeration)")]
    return [Harness(id="C17/cidr-text", vars={"dummy": z3.Int("dummy")}, pre=[z3.Int("dummy") == 0], run=run, witness=lambda v: None, max_paths=2)]


def _key_harnesses():
    celpy, ct, ev = common.mods()
    lib = c7n()
    K = [z3.Int(f"k{i}") for i in range(3)]
    Vv = [z3.Int(f"v{i}") for i in range(3)]
    T = z3.Int("t")
    vars = {**{f"k{i}": K[i] for i in range(3)}, **{f"v{i}": Vv[i] for i in range(3)}, "t": T}
    pre = [z3.And(c >= 32, c < 127) for c in K + [T]] + [z3.And(v >= MIN64, v <= MAX64) for v in Vv]
    prog = _prog('resource["Tags"].key(target)')

    def tags(vals):
        ch = lambda term, name: ct.StringType(mks(SStr, [term], chr(vals[name])))
        return ct.ListType([ct.MapType({ct.StringType("Key"): ch(K[i], f"k{i}"), ct.StringType("Value"): ct.IntType(mk(SInt, Vv[i], vals[f"v{i}"]))}) for i in range(3)])

    def run(vals):
        target = ct.StringType(mks(SStr, [T], chr(vals["t"])))
        obs = []
        for route in ("direct", "cel"):
            if route == "direct":
                kd, r = common.outcome(lambda: lib.key(tags(vals), target))
            else:
                kd, r = common.outcome(lambda: prog.evaluate({"resource": ct.MapType({ct.StringType("Tags"): tags(vals)}), "target": target}))
            if kd != "value":
                obs.append(Ob(f"C17/key/first-match@{route}", z3.BoolVal(False), note=f"{kd} {str(r)[:60]}"))
                continue
            none = z3.And([k != T for k in K])
            if r is None:
                obs.append(Ob(f"C17/key/null-only-when-absent@{route}", none))
            else:
                first = z3.Or(z3.And(K[0] == T, tm(r) == Vv[0]), z3.And(K[0] != T, K[1] == T, tm(r) == Vv[1]),
                              z3.And(K[0] != T, K[1] != T, K[2] == T, tm(r) == Vv[2]))
                obs.append(Ob(f"C17/key/first-match@{route}", first, note="Value of the FIRST tag whose Key equals the target"))
        return obs

    def witness(vals):
        return {"check": "c17.key", "args": enc({"vals": vals})}

    return [Harness(id="C17/key", vars=vars, pre=pre, run=run, witness=witness, max_paths=200)]


def _marked_harnesses():
    """marked_key on Value strings of the shape <m>:<a>@<d> with symbolic characters (so ':' and '@' may appear anywhere)"""
    celpy, ct, ev = common.mods()
    lib = c7n()
    hs = []
    n = 5
    C = [z3.Int(f"c{i}") for i in range(n)]
    vars = {f"c{i}": C[i] for i in range(n)}
    # alphabet: letters and ':' (so ':' may appear anywhere in the message); the date part is a fixed valid date appended
    # after the only '@' -- what a malformed date should give is not stated by the property and is not asserted
    pre = [z3.Or(c == ord(":"), z3.And(c >= 97, c <= 99)) for c in C]

    # dates without ':' (the form Custodian writes: YYYY/MM/DD) : message:action@date decomposes exactly
    D2 = "2020/01/02"

    def run2(vals):
        conc = "".join(chr(vals[f"c{i}"]) for i in range(n))
        head = mks(SStr, C, conc)
        value = ct.StringType(head + "@" + D2)
        tags = ct.ListType([ct.MapType({ct.StringType("Key"): ct.StringType("status"), ct.StringType("Value"): value})])
        kd, r = common.outcome(lambda: lib.marked_key(tags, ct.StringType("status")))
        if kd != "value":
            return [Ob("C17/marked_key/no-error", z3.BoolVal(False), note=f"{type(r).__name__}: {r}"[:120])]
        has_colon = z3.Or([c == ord(":") for c in C])
        if r is None:
            return [Ob("C17/marked_key/null-only-without-colon", z3.Not(has_colon), note="head@date without any ':' has no message:action structure")]
        msg, act = dict.get(r, "message"), dict.get(r, "action")
        mt, at = cterms(msg), cterms(act)
        # the last ':' at position p: message = head[:p], action = head[p+1:] up to the first '@' after p
        alts = []
        for p in range(n):
            later_no_colon = z3.And([C[q] != ord(":") for q in range(p + 1, n)]) if p + 1 < n else z3.BoolVal(True)
            tail = C[p + 1:]
            for e in range(len(tail) + 1):   # action = tail[:e], tail[e] is '@' or e == len(tail)
                no_at = z3.And([t != ord("@") for t in tail[:e]]) if e else z3.BoolVal(True)
                end = (tail[e] == ord("@")) if e < len(tail) else z3.BoolVal(True)
                if len(mt) == p and len(at) == e:
                    alts.append(z3.And([C[p] == ord(":"), later_no_colon, no_at, end] + [a == b for a, b in zip(mt, C[:p])] + [a == b for a, b in zip(at, tail[:e])]))
        return [Ob("C17/marked_key/decomposition", z3.Or(alts) if alts else z3.BoolVal(False),
                   note="message = text before the last ':', action = text between it and the next '@'")]

    def witness2(vals):
        return {"check": "c17.marked_key", "args": enc({"vals": vals, "date": D2, "form": "head@date"})}

    hs.append(Harness(id="C17/marked_key/decomposition", vars=vars, pre=pre, run=run2, witness=witness2, max_paths=300))
    return hs


ARN_FIELDS5 = ("partition", "service", "region", "account-id", "resource-id")
ARN_FIELDS6 = ("partition", "service", "region", "account-id", "resource-type", "resource-id")


def _arn_harnesses():
    celpy, ct, ev = common.mods()
    lib = c7n()
    hs = []
    for nf, names in ((5, ARN_FIELDS5), (6, ARN_FIELDS6)):
        F = [z3.Int(f"f{i}") for i in range(nf)]
        vars = {f"f{i}": F[i] for i in range(nf)}
        pre = [z3.And(c >= 97, c <= 122) for c in F]   # one lower-case letter per field (no ':' so the field count is fixed)
        prog = _prog("arn.arn_split(field)") if "arn_split" in c7n().FUNCTIONS else None

        def run(vals, nf=nf, names=names, F=F):
            parts = [mks(SStr, [F[i]], chr(vals[f"f{i}"])) for i in range(nf)]
            arn = "arn"
            for p in parts:
                arn = arn + ":" + p
            arn = ct.StringType(arn)
            obs = []
            for i, name in enumerate(names):
                kd, r = common.outcome(lambda: lib.arn_split(arn, ct.StringType(name)))
                ok = kd == "value" and isinstance(r, str) and len(cterms(r)) == 1
                obs.append(Ob(f"C17/arn_split/{name}", (cterms(r)[0] == F[i]) if ok else z3.BoolVal(False), note=f"{nf}-field ARN: {kd} {str(r)[:40]}"))
            kd, r = common.outcome(lambda: lib.arn_split(ct.StringType("xrn:a:b:c:d:e"), ct.StringType("service")))
            obs.append(Ob("C17/arn_split/not-an-arn-is-error", z3.BoolVal(kd != "value"), note=f"{kd}"))
            return obs

        def witness(vals, nf=nf):
            return {"check": "c17.arn", "args": enc({"nf": nf, "vals": vals})}
        hs.append(Harness(id=f"C17/arn_split/{nf}", vars=vars, pre=pre, run=run, witness=witness, max_paths=40))
    return hs


WS_ASCII = (9, 10, 11, 12, 13, 28, 29, 30, 31, 32)


def _normalize_harnesses():
    celpy, ct, ev = common.mods()
    lib = c7n()
    hs = []
    for n in (0, 1, 2, 3):
        C = [z3.Int(f"s_c{i}") for i in range(n)]
        vars = {f"s_c{i}": C[i] for i in range(n)}
        pre = [z3.And(c >= 0, c < 128) for c in C]
        lower = [z3.If(z3.And(c >= 65, c <= 90), c + 32, c) for c in C]
        ws = [z3.Or([c == w for w in WS_ASCII]) for c in C]

        def run(vals, n=n, C=C, lower=lower, ws=ws):
            s = ct.StringType(mks(SStr, C, "".join(chr(vals[f"s_c{i}"]) for i in range(n)))) if n else ct.StringType("")
            kd, r = common.outcome(lambda: lib.normalize(s))
            if kd != "value" or not isinstance(r, str):
                return [Ob("C17/normalize/value", z3.BoolVal(False), note=f"{kd} {r!r:.60}")]
            got = cterms(r)
            alts = []
            for i in range(n + 1):
                for j in range(i, n + 1):
                    if j - i != len(got):
                        continue
                    lead = z3.And(ws[:i]) if i else z3.BoolVal(True)
                    trail = z3.And(ws[j:]) if j < n else z3.BoolVal(True)
                    edge = z3.And(z3.Not(ws[i]) if i < j else z3.BoolVal(True), z3.Not(ws[j - 1]) if i < j else z3.BoolVal(True))
                    same = z3.And([g == l for g, l in zip(got, lower[i:j])]) if got else z3.BoolVal(True)
                    alts.append(z3.And(lead, trail, edge, same))
            return [Ob("C17/normalize/trims-and-lowercases", z3.Or(alts) if alts else z3.BoolVal(False)),
                    Ob("C17/normalize/class", z3.BoolVal(type(r) is ct.StringType))]

        def witness(vals, n=n):
            return {"check": "c17.normalize", "args": enc({"n": n, "vals": vals})}
        hs.append(Harness(id=f"C17/normalize/{n}", vars=vars or {"dummy": z3.Int("dummy")}, pre=pre, run=run, witness=witness, max_paths=300))
    return hs


def _glob_harnesses():
    celpy, ct, ev = common.mods()
    lib = c7n()
    hs = []
    c0, c1 = z3.Int("s_c0"), z3.Int("s_c1")
    pats = [("a*", lambda: c0 == 97), ("?b", lambda: c1 == 98), ("[ab]c", lambda: z3.And(z3.Or(c0 == 97, c0 == 98), c1 == 99)), ("*", lambda: z3.BoolVal(True)),
            ("ab", lambda: z3.And(c0 == 97, c1 == 98)), ("[!a]?", lambda: c0 != 97)]
    for pat, spec in pats:
        def run(vals, pat=pat, spec=spec):
            s = ct.StringType(mks(SStr, [c0, c1], chr(vals["s_c0"]) + chr(vals["s_c1"])))
            kd, r = common.outcome(lambda: lib.glob(s, ct.StringType(pat)))
            return [Ob("C17/glob/shell-pattern", (bool_term(r) == spec()) if kd == "value" else z3.BoolVal(False), note=f"glob(s, {pat!r}): {kd}")]

        def witness(vals, pat=pat):
            return {"check": "c17.glob", "args": enc({"pattern": pat, "vals": vals})}
        pre = [z3.And(c >= 0, c <= 0x10FFFF, z3.Not(z3.And(c >= 0xD800, c <= 0xDFFF)), c != 10) for c in (c0, c1)]
        hs.append(Harness(id=f"C17/glob/{pat}", vars={"s_c0": c0, "s_c1": c1}, pre=pre, run=run, witness=witness, max_paths=60))
    return hs


class _Filter:
    def __init__(self, tag):
        self.tag = tag


def _context_harnesses():
    """the filter context is visible during the evaluation and cleared afterwards, also when the evaluation fails"""
    celpy, ct, ev = common.mods()
    lib = c7n()
    X, Y = z3.Int("x"), z3.Int("y")
    seen = []

    def probe(v):
        seen.append(lib.C7N.filter.tag if lib.C7N is not None else None)
        return v

    def boom(v):
        raise RuntimeError("host failure")

    def make(src):
        celpy.CELParser.CEL_PARSER = common._parsers.get("interp")
        env = celpy.Environment(runner_class=lib.C7N_Interpreted_Runner)
        common._parsers["interp"] = celpy.CELParser.CEL_PARSER
        return env.program(env.compile(src), functions={"probe": probe, "boom": boom})

    p1 = make("probe(10 / x)")
    p2 = make("probe(10 / y) + boom(y)")
    p3 = make("probe(y)")

    def run(vals):
        obs = []
        del seen[:]
        f1, f2 = _Filter("F1"), _Filter("F2")
        for prog, flt, b in ((p1, f1, {"x": ct.IntType(mk(SInt, X, vals["x"]))}), (p2, f2, {"y": ct.IntType(mk(SInt, Y, vals["y"]))}),
                             (p3, f1, {"y": ct.IntType(mk(SInt, Y, vals["y"]))})):
            before = lib.C7N
            n0 = len(seen)
            kd, r = common.outcome(lambda: prog.evaluate(b, flt))
            obs.append(Ob("C17/context/cleared-after-evaluation", z3.BoolVal(lib.C7N is None), note=f"outcome {kd}; C7N afterwards = {lib.C7N!r}"[:120], tags={"outcome": kd}))
            obs.append(Ob("C17/context/visible-during-evaluation", z3.BoolVal(all(t == flt.tag for t in seen[n0:])), note=f"host function saw {seen[n0:]}"))
            if lib.C7N is not None:
                lib.C7N = None  # do not let one failure poison the next step of the sequence
        # the same program and filter inside an explicit, enclosing context of another filter (the documented `with C7NContext(filter):`
        # usage), then outside again, then with another filter: every evaluation sees its own filter and leaves no context behind
        f3 = _Filter("F3")
        bx = {"x": ct.IntType(mk(SInt, X, vals["x"]))}
        n0 = len(seen)
        with lib.C7NContext(filter=f3):
            kd, r = common.outcome(lambda: p1.evaluate(bx, f1))
        obs.append(Ob("C17/context/cleared-after-enclosing-block", z3.BoolVal(lib.C7N is None), note=f"after the with-block: C7N = {lib.C7N!r}"[:120], tags={"outcome": kd}))
        obs.append(Ob("C17/context/visible-during-evaluation", z3.BoolVal(all(t == "F1" for t in seen[n0:])), note=f"inside an enclosing context the host function saw {seen[n0:]}"))
        lib.C7N = None
        # ... and a program whose FIRST evaluation with its filter happens inside the enclosing block
        p5, f4 = make("probe(10 / x)"), _Filter("F4")
        n0 = len(seen)
        with lib.C7NContext(filter=f3):
            kd, r = common.outcome(lambda: p5.evaluate(bx, f4))
        obs.append(Ob("C17/context/cleared-after-enclosing-block", z3.BoolVal(lib.C7N is None), note=f"after the with-block: C7N = {lib.C7N!r}"[:120], tags={"outcome": kd}))
        obs.append(Ob("C17/context/visible-during-evaluation", z3.BoolVal(all(t == "F4" for t in seen[n0:])), note=f"inside an enclosing context the host function saw {seen[n0:]}"))
        lib.C7N = None
        kd, r = common.outcome(lambda: p5.evaluate(bx, f4))
        obs.append(Ob("C17/context/cleared-after-evaluation", z3.BoolVal(lib.C7N is None), note=f"same program and filter outside the block, outcome {kd}; C7N afterwards = {lib.C7N!r}"[:140], tags={"outcome": kd}))
        lib.C7N = None
        for flt in (f1, f2, f1):
            n0 = len(seen)
            kd, r = common.outcome(lambda: p1.evaluate(bx, flt))
            obs.append(Ob("C17/context/cleared-after-evaluation", z3.BoolVal(lib.C7N is None), note=f"re-evaluation after an enclosing block, outcome {kd}; C7N afterwards = {lib.C7N!r}"[:140], tags={"outcome": kd}))
            obs.append(Ob("C17/context/visible-during-evaluation", z3.BoolVal(all(t == flt.tag for t in seen[n0:])), note=f"host function saw {seen[n0:]}"))
            lib.C7N = None
        return obs

    def witness(vals):
        return {"check": "c17.context", "args": enc({"vals": vals})}

    return [Harness(id="C17/context", vars={"x": X, "y": Y}, pre=[X >= -5, X <= 5, Y >= -5, Y <= 5], run=run, witness=witness, max_paths=40)]


def extra_validation():
    ws = [{"check": "c17.cidr_text", "args": {"net": n, "other": o, "want": w}} for n, o, w in CIDR_TEXTS]
    ws += [{"check": "c17.cidr_size", "args": {"text": t, "want": w}} for t, w in CIDR_SIZES]
    return ws
