"""C18 policy translation preserves the filter's boolean structure."""
import contextlib
import io
import itertools

import z3

from .. import explore
from ..explore import Harness, Ob
from ..refsem import MIN64, MAX64
from ..sym import loader as L
from ..sym.core import SInt, mk, tm
from . import common
from ..replay import enc

PROP = "C18"
LEVEL = "model_checking"
FIDELITY_TESTS = ["tests/test_c7n_to_cel.py", "tests/test_celtypes.py"]
FIDELITY_TESTS_THOROUGH = ["tests"]
BOUNDS = {
    "quick": {"filter trees": "every nesting of list / and / or / not with 1-3 children over <= 3 leaves, depth <= 2 below the top-level list, singleton connectives included "
                              "(5 clause-kind assignments per tree up to 2 leaves, 1 rotating assignment per 3-leaf tree)",
              "leaf clauses": "value clauses whose text is a plain relation, a top-level `!` (op ni / boolean eq false), and stubbed rewriter families returning text with a "
                              "top-level ||, &&, ?: or ! (the shapes the real marked-for-op, flow-logs, schedule and not-in rewriters produce)",
              "truth assignments": "all: each clause's truth is decided by symbolic int64 resource attributes"},
    "thorough": {"filter trees": "<= 4 leaves, depth <= 2 (3 for <= 3 leaves)", "leaf clauses": "same, all compound kinds in every position", "truth assignments": "all"},
}
OUTSIDE = ["the clause rewriters' own semantics (C19) -- a clause is represented by its truth value",
           "compound clause families are represented by a stub `primitive` returning text of the same top-level shape; the real families need live Custodian filter objects"]
ASSUMPTIONS = ["Custodian combinators: list and `and` = all, `or` = any, `not` = not all of its children"]
TRUSTED = ["z3 5.1", "CPython 3.12", "vf.sym shadows", "the library's own CELParser + Evaluator for evaluating the emitted text (their correctness is C02/C06)"]
MANIFEST = {
    "text": "The real C7N_Rewriter.logical_connector/primitive/type_value_rewrite run on every enumerated filter tree; the emitted text is parsed by the real CELParser and evaluated by "
            "the real Evaluator on a resource whose attributes are symbolic, so every truth assignment to the primitive clauses is covered by path splitting; z3 proves the result "
            "equals the Custodian combinator formula (all/any/not all) over the clause truths.",
    "note": "Trees enumerated to the bound; truth assignments symbolic (through data). Compound clause families are stubbed by text shape.",
    "technique": "symbolic execution of the real translator output through the real parser/evaluator + z3; combinator formula as oracle; counterexample replay",
    "design_ref": "DESIGN.md §7 C18",
}


def profile():
    p = L.default_profile()
    return p


# leaf kinds: (clause builder, truth term builder over resource vars, variables used)
def leaf(kind, i):
    f, g = f"f{i}", f"g{i}"
    if kind == "eq":
        return {"type": "value", "key": f, "op": "eq", "value": 1}, (lambda V: V[f] == 1), [f]
    if kind == "ni":  # text: ! [1, 2].contains(resource["f"])
        return {"type": "value", "key": f, "op": "ni", "value": [1, 2]}, (lambda V: z3.Not(z3.Or(V[f] == 1, V[f] == 2))), [f]
    if kind == "gt":
        return {"type": "value", "key": f, "op": "gt", "value": 0}, (lambda V: V[f] > 0), [f]
    if kind == "stub-or":
        return {"type": "verif-stub", "text": f'resource["{f}"] == 1 || resource["{g}"] == 1'}, (lambda V: z3.Or(V[f] == 1, V[g] == 1)), [f, g]
    if kind == "stub-and":
        return {"type": "verif-stub", "text": f'resource["{f}"] == 1 && resource["{g}"] == 1'}, (lambda V: z3.And(V[f] == 1, V[g] == 1)), [f, g]
    if kind == "stub-cond":
        return {"type": "verif-stub", "text": f'resource["{f}"] == 1 ? resource["{g}"] == 1 : resource["{g}"] == 2'}, \
            (lambda V: z3.If(V[f] == 1, V[g] == 1, V[g] == 2)), [f, g]
    if kind == "stub-paren-and":  # starts with "(" and ends with ")" although the top-level operator is &&
        return {"type": "verif-stub", "text": f'(resource["{f}"] == 1) && (resource["{g}"] == 1)'}, (lambda V: z3.And(V[f] == 1, V[g] == 1)), [f, g]
    if kind == "stub-paren-or":
        return {"type": "verif-stub", "text": f'(resource["{f}"] == 1) || (resource["{g}"] == 1)'}, (lambda V: z3.Or(V[f] == 1, V[g] == 1)), [f, g]
    if kind == "stub-bslash-or":  # a string literal ending in an escaped backslash, an empty literal, then a top-level ||
        return {"type": "verif-stub", "text": f'resource["{f}"] == 1 && "\\\\" != "" || resource["{g}"] == 1'}, (lambda V: z3.Or(V[f] == 1, V[g] == 1)), [f, g]
    if kind == "stub-apos-or":  # an apostrophe inside a double-quoted literal (and a quote inside a single-quoted one), then a top-level ||
        return {"type": "verif-stub", "text": f'resource["{f}"] == 1 && "O\'B" != "" || resource["{g}"] == 1'}, (lambda V: z3.Or(V[f] == 1, V[g] == 1)), [f, g]
    if kind == "stub-not":
        return {"type": "verif-stub", "text": f'! [1].contains(resource["{f}"])'}, (lambda V: z3.Not(V[f] == 1)), [f]
    raise ValueError(kind)


KINDS = ["eq", "ni", "gt", "stub-or", "stub-and", "stub-cond", "stub-not", "stub-paren-and", "stub-paren-or", "stub-bslash-or", "stub-apos-or"]


def trees(nleaves, depth):
    """filter trees as nested structures over leaf placeholders ('L',): list | {'and': [...]} | {'or': [...]} | {'not': [...]}"""
    def gen(n, d):
        if n == 1:
            yield ("L",)
            if d > 0:
                for conn in ("and", "or", "not"):
                    yield (conn, [("L",)])
                yield ("list", [("L",)])
        if d == 0 or n < 1:
            return
        # split n leaves into k >= 2 children
        for k in (2, 3):
            if k > n:
                continue
            for parts in _compositions(n, k):
                for kids in itertools.product(*[list(gen(p, d - 1)) for p in parts]):
                    for conn in ("and", "or", "not", "list"):
                        yield (conn, list(kids))
    seen = []
    for t in gen(nleaves, depth):
        if t not in seen:
            seen.append(t)
    return seen


def _compositions(n, k):
    if k == 1:
        yield (n,)
        return
    for a in range(1, n - k + 2):
        for rest in _compositions(n - a, k - 1):
            yield (a,) + rest


def instantiate(t, kinds, counter):
    """-> (filter structure, truth builder)"""
    if t[0] == "L":
        i = counter[0]
        counter[0] += 1
        clause, truth, vs = leaf(kinds[i % len(kinds)], i)
        return clause, truth, vs
    conn, kids = t
    subs = [instantiate(k, kinds, counter) for k in kids]
    structs = [s[0] for s in subs]
    vs = sum((s[2] for s in subs), [])
    if conn == "list":
        return structs, (lambda V: z3.And([s[1](V) for s in subs])), vs
    if conn == "and":
        return {"and": structs}, (lambda V: z3.And([s[1](V) for s in subs])), vs
    if conn == "or":
        return {"or": structs}, (lambda V: z3.Or([s[1](V) for s in subs])), vs
    return {"not": structs}, (lambda V: z3.Not(z3.And([s[1](V) for s in subs]))), vs


def cases(tier):
    out = []
    maxl, depth = (3, 2) if tier == "quick" else (4, 2)
    rot = [["eq", "eq", "eq", "eq"], ["eq", "stub-or", "ni", "stub-cond"], ["stub-and", "eq", "stub-not", "gt"], ["stub-cond", "stub-or", "eq", "eq"],
           ["ni", "stub-not", "stub-or", "stub-and"], ["stub-paren-and", "stub-bslash-or", "eq", "stub-paren-or"], ["stub-bslash-or", "stub-paren-or", "gt", "stub-paren-and"], ["eq", "stub-apos-or", "stub-paren-and", "ni"]]
    for n in range(1, maxl + 1):
        for ti, t in enumerate(trees(n, depth)):
            top = t if t[0] == "list" else ("list", [t])  # `filters:` is always a list
            if tier == "thorough":
                # <= 2 leaves: every clause-kind row; 3 leaves: three of the seven rows; 4 leaves: one (rotating with the tree)
                ks = rot if n <= 2 else [rot[(ti + j) % len(rot)] for j in ((0, 2, 5) if n == 3 else (0,))]
            elif n == 1:
                ks = rot
            elif n == 2:
                ks = [rot[(ti + j) % len(rot)] for j in (0, 2, 5)]  # three of the seven clause-kind rows, rotating with the tree
            else:
                ks = [rot[ti % len(rot)]]  # quick, 3 leaves: one (rotating) clause-kind assignment per tree
            for kinds in ks:
                out.append((top, kinds))
            if t[0] == "not" and (tier == "thorough" or n <= 2):
                # a policy fragment whose root is a bare `not` (logical_connector called on the connective itself)
                out.append((t, rot[(ti + 1) % len(rot)]))
                out.append((t, rot[5 + ti % 2]))
    seen, res = set(), []
    for c in out:
        k = repr(c)
        if k not in seen:
            seen.add(k)
            res.append(c)
    return res


NT = 64


def tasks(tier):
    return [{"tier": tier, "stride": i} for i in range(NT)]


def run_task(task, kf):
    out, first = [], True
    for top, kinds in cases(task["tier"])[task["stride"]::NT]:
        out.append(explore.explore(_harness(top, kinds), kf, profile_root=L.SRC if first else None))
        first = False
    return out


_patched = {}


def rewriter():
    """the real C7N_Rewriter with `primitive` extended by the verif-stub clause family (returns the given text)"""
    if "R" not in _patched:
        common.mods()
        import sys
        if L.SRC not in sys.path:
            sys.path.insert(0, L.SRC)
        from xlate.c7n_to_cel import C7N_Rewriter
        orig = C7N_Rewriter.primitive

        def primitive(resource, c7n_filter):
            if isinstance(c7n_filter, dict) and c7n_filter.get("type") == "verif-stub":
                return c7n_filter["text"]
            return orig(resource, c7n_filter)
        C7N_Rewriter.primitive = staticmethod(primitive)
        _patched["R"] = C7N_Rewriter
    return _patched["R"]


def translate(filters):
    R = rewriter()
    with contextlib.redirect_stdout(io.StringIO()):
        return R.logical_connector("ec2", filters)


def _harness(top, kinds):
    celpy, ct, ev = common.mods()
    filt, truth, vs = instantiate(top, kinds, [0])
    vars = {v: z3.Int(v) for v in dict.fromkeys(vs)}
    pre = []
    for v in vars.values():
        pre += [v >= MIN64, v <= MAX64]
    try:
        text = translate(filt)
        terr = None
    except Exception as ex:  # noqa: BLE001
        text, terr = None, ex
    prog, perr = None, None
    if text is not None:
        try:
            prog = common.make_program(text, "interp")
        except Exception as ex:  # noqa: BLE001
            perr = ex
    expected = truth(vars)
    shape = _shape(top)

    def run(vals):
        if terr is not None:
            return [Ob("C18/translates", z3.BoolVal(False), note=f"{type(terr).__name__}: {terr}"[:200])]
        if perr is not None:
            return [Ob("C18/emitted-text-parses", z3.BoolVal(False), note=f"`{text}`: {type(perr).__name__}"[:300])]
        res = ct.MapType({ct.StringType(n): ct.IntType(mk(SInt, v, vals[n])) for n, v in vars.items()})
        kd, r = common.outcome(lambda: prog.evaluate({"resource": res}))
        if kd != "value" or not isinstance(r, int):
            return [Ob("C18/evaluates-to-bool", z3.BoolVal(False), note=f"`{text}`: {kd} {str(r)[:100]}")]
        return [Ob(f"C18/combinators/{shape}", common.truth_term(r) == expected,
                   note=f"filters {filt!r:.160} -> `{text}`", tags={"shape": shape})]

    def witness(vals):
        return {"check": "c18.tree", "args": enc({"top": _j(top), "kinds": kinds, "vals": vals})}

    return Harness(id=f"C18:{text or filt!r:.140}", vars=vars, pre=pre, run=run, witness=witness, max_paths=300)


def _shape(t):
    """semantic name of the tree shape: connectives by nesting, leaves anonymised"""
    if t[0] == "L":
        return "c"
    return f"{t[0]}({','.join(_shape(k) for k in t[1])})"


def _j(t):
    return ["L"] if t[0] == "L" else [t[0], [_j(k) for k in t[1]]]
