"""C19 translated value clauses keep their operator, operands and literals."""
import contextlib
import io
import os

os.environ["VERIF_TIME_SHADOW"] = "1"  # duration literals are evaluated on the term-level timedelta model (vf/sym/times.py)

import z3

from .. import explore
from ..explore import Harness, Ob
from ..refsem import MIN64, MAX64
from ..sym import loader as L, cont, fnshim
from ..sym.core import SInt, mk, tm, bool_term
from ..sym.strs import SStr, mks, cterms, contains_term, s_is_sym
from . import common, values as V
from ..replay import enc

PROP = "C19"
LEVEL = "model_checking"
FIDELITY_TESTS = ["tests/test_c7n_to_cel.py", "tests/test_c7nlib.py", "tests/test_celtypes.py"]
FIDELITY_TESTS_THOROUGH = ["tests"]
BOUNDS = {
    "quick": {"ops": "every entry of the operator table (eq/equal, ne/not-equal, gt/greater-than, ge/gte, lt/less-than, le/lte, in, ni/not-in, contains, glob, intersect, difference, "
                     "present/absent) on int, string, bool and list values; value_type size, integer, normalize, swap, unique_size",
              "resources": "the attribute named by the key is symbolic: all int64 values / strings of 0..2 code points / lists of 2 symbolic ints -- both sides of every comparison boundary",
              "policy strings": "q() and key_to_cel on strings of 0..3 symbolic code points (all scalar values incl. quotes, backslash, controls, non-ASCII) decoded back by the real CEL literal decoder",
              "durations": "seconds_to_duration / age_to_duration: see C11-time obligations (symbolic seconds below 10^7)",
              "tables": "every (rewriter, resource type) table entry must parse (finite enumeration, labelled)"},
    "thorough": {"same": "strings up to 4 code points for q(); lists of 3"},
}
OUTSIDE = ["`regex` op (not in the statement's operator list)", "value_from / jmes_path (network, third-party)", "what present/absent decide for a *missing* key (not stated)",
           "value_type age/expiration/date/cidr/version beyond concrete representatives (C libraries)"]
ASSUMPTIONS = ["Custodian's relation for each op as named in the statement; `present` = attribute is not null, `absent` = attribute is null (Custodian ValueFilter)",
               "list literals are lists of ints or strings"]
TRUSTED = ["z3 5.1", "CPython 3.12", "vf.sym shadows (incl. SSet for set algebra, fnmatch through the regex shim)", "the library's own parser/evaluator for evaluating the emitted text"]
MANIFEST = {
    "text": "The real translator (q, key_to_cel, atomic_op_map, value_to_cel, type_value_rewrite) is executed (shadow-loaded, so policy strings may be symbolic), its output is parsed and "
            "evaluated by the real interpreter with the real c7nlib functions on a resource whose attribute is symbolic, and z3 proves the match decision equals the relation the op "
            "names for ALL attribute values; every policy string pushed through q() must decode back to itself for all code points.",
    "note": "Ops x value kinds x value_type enumerated; attribute values and policy-string characters symbolic. Finite tables are enumerated and labelled as such.",
    "technique": "symbolic execution of the real translator and of its output through the real parser/evaluator/c7nlib + z3; counterexample replay",
    "design_ref": "DESIGN.md §7 C19, §10.2 (duration literals on the time model)",
}


def _c7nlib_post(module, state):
    L._generic_post(module, state)
    module.fnmatch = fnshim


def profile():
    p = L.default_profile()
    p.add("celpy.adapter", post=L._generic_post)
    seeds = dict(L.BASIC)
    seeds["set"] = cont.SSet
    p.add("celpy.c7nlib", seeds=seeds, post=_c7nlib_post)
    p.add("xlate.c7n_to_cel", post=L._generic_post)
    return p


INT_OPS = {"eq": "==", "equal": "==", "ne": "!=", "not-equal": "!=", "gt": ">", "greater-than": ">", "ge": ">=", "gte": ">=",
           "lt": "<", "less-than": "<", "le": "<=", "lte": "<="}


def rel(op, a, b):
    return {"==": a == b, "!=": a != b, ">": a > b, ">=": a >= b, "<": a < b, "<=": a <= b}[op]


def cases(tier):
    """(id, clause, attribute shape, expected(vars) -> z3 Bool)"""
    out = []
    X = z3.Int("r")
    for op, sym in INT_OPS.items():
        for v in (5, -1):
            out.append((f"int/{op}", {"type": "value", "key": "k", "op": op, "value": v}, ("int",), (lambda V_, sym=sym, v=v: rel(sym, X, v))))
    for op in ("eq", "ne", "equal", "not-equal"):
        out.append((f"string/{op}", {"type": "value", "key": "k", "op": op, "value": "ab"}, ("string", 2),
                    (lambda V_, op=op: (z3.And(z3.Int("r_c0") == 97, z3.Int("r_c1") == 98)) if op in ("eq", "equal")
                     else z3.Not(z3.And(z3.Int("r_c0") == 97, z3.Int("r_c1") == 98)))))
        out.append((f"string/{op}/len", {"type": "value", "key": "k", "op": op, "value": "ab"}, ("string", 1),
                    (lambda V_, op=op: z3.BoolVal(op in ("ne", "not-equal")))))
    for op in ("lt", "ge"):
        out.append((f"string/{op}", {"type": "value", "key": "k", "op": op, "value": "b"}, ("string", 1),
                    (lambda V_, op=op: (z3.Int("r_c0") < 98) if op == "lt" else (z3.Int("r_c0") >= 98))))
    # string literals that look like something else (capitalised booleans, nulls, the keywords of the op-less form, numbers, the
    # empty string): with an op they are ordinary strings and must come back as exactly that string
    for lit in ("True", "TRUE", "False", "FALSE", "None", "null", "present", "absent", "empty", "not-null", "0", "1", "yes", "on", "", "1.0", "[]"):
        eqt = z3.And([z3.Int(f"r_c{i}") == ord(ch) for i, ch in enumerate(lit)]) if lit else z3.BoolVal(True)
        for op in ("eq", "ne", "not-equal"):
            out.append((f"string-lookalike/{op}", {"type": "value", "key": "k", "op": op, "value": lit}, ("string", len(lit)),
                        (lambda V_, op=op, eqt=eqt: eqt if op == "eq" else z3.Not(eqt))))
    for op, neg in (("in", False), ("ni", True), ("not-in", True)):
        out.append((f"int/{op}", {"type": "value", "key": "k", "op": op, "value": [1, 2, 3]}, ("int",),
                    (lambda V_, neg=neg: z3.Not(z3.Or(X == 1, X == 2, X == 3)) if neg else z3.Or(X == 1, X == 2, X == 3))))
        out.append((f"string/{op}", {"type": "value", "key": "k", "op": op, "value": ["a", "bc"]}, ("string", 1),
                    (lambda V_, neg=neg: z3.Not(z3.Int("r_c0") == 97) if neg else (z3.Int("r_c0") == 97))))
    l0, l1 = z3.Int("r_0"), z3.Int("r_1")
    LI = ("list", [("int",), ("int",)])
    out.append(("list/contains", {"type": "value", "key": "k", "op": "contains", "value": 7}, LI, lambda V_: z3.Or(l0 == 7, l1 == 7)))
    out.append(("string/contains", {"type": "value", "key": "k", "op": "contains", "value": "b"}, ("string", 2),
                lambda V_: z3.Or(z3.Int("r_c0") == 98, z3.Int("r_c1") == 98)))
    out.append(("list/intersect", {"type": "value", "key": "k", "op": "intersect", "value": [1, 2]}, LI,
                lambda V_: z3.Or(l0 == 1, l0 == 2, l1 == 1, l1 == 2)))
    out.append(("list/difference", {"type": "value", "key": "k", "op": "difference", "value": [1, 2]}, LI,
                lambda V_: z3.Or(z3.Not(z3.Or(l0 == 1, l0 == 2)), z3.Not(z3.Or(l1 == 1, l1 == 2)))))
    c0, c1 = z3.Int("r_c0"), z3.Int("r_c1")
    out.append(("string/glob-star", {"type": "value", "key": "k", "op": "glob", "value": "a*"}, ("string", 2), lambda V_: c0 == 97))
    out.append(("string/glob-q", {"type": "value", "key": "k", "op": "glob", "value": "?b"}, ("string", 2), lambda V_: c1 == 98))
    out.append(("string/glob-class", {"type": "value", "key": "k", "op": "glob", "value": "[ab]c"}, ("string", 2), lambda V_: z3.And(z3.Or(c0 == 97, c0 == 98), c1 == 99)))
    # booleans
    B = z3.Int("r")
    for op, v, want in (("eq", True, True), ("eq", False, False), ("ne", True, False), ("ne", False, True), ("equal", "true", True), ("not-equal", "false", True)):
        out.append((f"bool/{op}-{v}", {"type": "value", "key": "k", "op": op, "value": v}, ("bool",), (lambda V_, want=want: (B == 1) if want else (B == 0))))
    # value_type transforms with unambiguous meaning
    out.append(("vt/size", {"type": "value", "key": "k", "op": "gt", "value": 1, "value_type": "size"}, LI, lambda V_: z3.BoolVal(True)))
    out.append(("vt/size-eq", {"type": "value", "key": "k", "op": "eq", "value": 3, "value_type": "size"}, LI, lambda V_: z3.BoolVal(False)))
    out.append(("vt/unique_size", {"type": "value", "key": "k", "op": "eq", "value": 1, "value_type": "unique_size"}, LI, lambda V_: l0 == l1))
    # swap exchanges the operands: `value in attribute` (the literal is looked for inside the attribute)
    out.append(("vt/swap", {"type": "value", "key": "k", "op": "in", "value": "a", "value_type": "swap"}, ("string", 2),
                lambda V_: z3.Or(c0 == 97, c1 == 97)))
    out.append(("vt/normalize", {"type": "value", "key": "k", "op": "eq", "value": "a", "value_type": "normalize"}, ("string", 2),
                lambda V_: _norm_eq_a(c0, c1)))
    out.append(("vt/integer", {"type": "value", "key": "k", "op": "lt", "value": 5, "value_type": "integer"}, ("digits", 2),
                lambda V_: ((c0 - 48) * 10 + (c1 - 48)) < 5))
    # key forms
    out.append(("key/dotted", {"type": "value", "key": "a.b", "op": "eq", "value": 5}, ("nested-int",), lambda V_: X == 5))
    out.append(("key/tag", {"type": "value", "key": "tag:Name", "op": "eq", "value": "ab"}, ("tags", 2),
                lambda V_: z3.And(c0 == 97, c1 == 98)))
    out.append(("key/tag-colon", {"type": "value", "key": "tag:aws:asg:Name", "op": "eq", "value": "ab"}, ("tags", 2),
                lambda V_: z3.And(c0 == 97, c1 == 98)))
    out.append(("key/tag-colon-ne", {"type": "value", "key": "tag:team:owner", "op": "ne", "value": "ab"}, ("tags", 2),
                lambda V_: z3.Not(z3.And(c0 == 97, c1 == 98))))
    # translation is a function of the clause: the same clauses again, each translated after a prelude of other clauses that share
    # its key, value or op (other filter types give the key another context; other ops / values for the same key)
    for cid, clause, shape, exp in [c for c in out if c[0] in ("int/eq", "string/ne", "key/dotted", "key/tag", "key/tag-colon", "int/in", "list/contains", "vt/size")][:10]:
        out.append((cid + "/after-prelude", clause, shape, exp, prelude_for(clause)))
    return out


def prelude_for(clause):
    k, v = clause["key"], clause.get("value")
    other = "zz" if isinstance(v, str) else 99
    pre = [("ec2", {"type": "security-group", "key": k, "op": "eq", "value": "sg-1"}),
           ("ec2", {"type": "subnet", "key": k, "op": "eq", "value": "subnet-1"}),
           ("ec2", {"type": "value", "key": k, "op": "ne" if clause.get("op") != "ne" else "eq", "value": other}),
           ("ec2", {"type": "value", "key": "other", "op": clause.get("op"), "value": v}),
           ("ec2", {"type": "value", "key": k, "op": clause.get("op"), "value": v, "value_type": "swap"} if not clause.get("value_type") and clause.get("op") in ("in", "ni") else
            {"type": "value", "key": k, "value": "present"})]
    # the same key with values that compare equal in the host language but are different policy values (30 / 30.0 / True / "30")
    if isinstance(v, int) and not isinstance(v, bool):
        pre = [("ec2", {"type": "value", "key": "z", "op": clause.get("op"), "value": float(v)}), ("ec2", {"type": "value", "key": "z", "op": "eq", "value": str(v)})] + pre
        if v in (0, 1):
            pre.insert(0, ("ec2", {"type": "value", "key": "z", "op": "eq", "value": bool(v)}))
    elif isinstance(v, list) and v and all(isinstance(x, int) for x in v):
        pre = [("ec2", {"type": "value", "key": "z", "op": clause.get("op"), "value": [float(x) for x in v]})] + pre
    elif isinstance(v, str):
        pre = [("ec2", {"type": "value", "key": "z", "op": "eq", "value": v, "value_type": "normalize"})] + pre
    return pre


WS = (9, 10, 11, 12, 13, 28, 29, 30, 31, 32, 0x85, 0xA0, 0x1680, 0x2000, 0x2001, 0x2002, 0x2003, 0x2004, 0x2005, 0x2006, 0x2007, 0x2008, 0x2009, 0x200A, 0x2028, 0x2029, 0x202F, 0x205F, 0x3000)


def _norm_eq_a(c0, c1):
    """normalize(s) == 'a' for a 2-char s: lower-case then strip whitespace -> exactly one 'a'/'A' plus one whitespace char"""
    isa = lambda c: z3.Or(c == 97, c == 65)
    ws = lambda c: z3.Or([c == w for w in WS])
    return z3.Or(z3.And(isa(c0), ws(c1)), z3.And(ws(c0), isa(c1)))


def tasks(tier):
    cs = cases(tier)
    ts = [{"what": "op", "i": i, "tier": tier} for i in range(len(cs))]
    smax = 3 if tier == "quick" else 4
    ts += [{"what": "q", "n": n, "quote": q} for n in range(0, smax + 1) for q in ('"', "'")]
    ts += [{"what": "present"}, {"what": "tables"}]
    ts += [{"what": "duration", "kind": k} for k in ("seconds", "age-days", "age-quarter-days")]
    return ts


def run_task(task, kf):
    out = []
    if task["what"] == "op":
        out.append(explore.explore(_op_harness(*cases(task["tier"])[task["i"]]), kf, profile_root=L.SRC))
    elif task["what"] == "q":
        out.append(explore.explore(_q_harness(task["n"], task["quote"]), kf, profile_root=L.SRC))
    elif task["what"] == "duration":
        out.append(explore.explore(_duration_harness(task["kind"]), kf, profile_root=L.SRC))
    elif task["what"] == "present":
        out += [explore.explore(h, kf, profile_root=L.SRC) for h in _present_harnesses()]
    else:
        out.append(explore.explore(_tables_harness(), kf))
    return out


def _duration_harness(kind):
    """seconds_to_duration / age_to_duration emit a duration literal; evaluated by the real DurationType text grammar it must
    denote the same length of time (symbolic count; the literal's digits become symbolic text)"""
    from ..sym import times as T
    from ..sym.core import SRat
    celpy, ct, ev = common.mods()
    R = rewriter()
    N = z3.Int("n")
    if kind == "seconds":
        pre, want = [N >= 0, N <= 20_000_000], N * T.US
        call = lambda v: R.seconds_to_duration(mk(SInt, N, v))  # noqa: E731
    elif kind == "age-days":
        pre, want = [N >= 0, N <= 4000], N * 86400 * T.US
        call = lambda v: R.age_to_duration(mk(SInt, N, v))  # noqa: E731
    else:
        pre, want = [N >= 0, N <= 4000], N * 21600 * T.US  # quarter days: 0.25, 0.5, 1.75 ... exactly representable
        call = lambda v: R.age_to_duration(SRat(N, 4, v))  # noqa: E731

    def run(vals):
        try:
            lit = call(vals["n"])
        except Exception as ex:  # noqa: BLE001
            return [Ob(f"C19/duration/{kind}/translates", z3.BoolVal(False), note=f"{type(ex).__name__}: {ex}"[:120])]
        raw = str.__str__(lit)
        if len(raw) < 2 or raw[0] != raw[-1] or raw[0] not in "\"'":
            return [Ob(f"C19/duration/{kind}/is-a-string-literal", z3.BoolVal(False), note=raw[:60])]
        body = lit[1:-1]  # the translator's q() quoting of digits and unit letters adds no escapes
        kd, r = common.outcome(lambda: ct.DurationType(ct.StringType(body)))
        if kd != "value":
            return [Ob(f"C19/duration/{kind}/literal-is-a-valid-duration", z3.BoolVal(False), note=f"{raw}: {type(r).__name__}: {r}"[:120])]
        return [Ob(f"C19/duration/{kind}/same-length-of-time", T.td_us(r)[0] == want, note=raw)]

    def witness(vals):
        return {"check": "c19.duration_literal", "args": enc({"kind": kind, "n": vals["n"]})}
    return Harness(id=f"C19/duration/{kind}", vars={"n": N}, pre=pre, run=run, witness=witness, max_paths=250 if kind == "seconds" else 120)


_R = {}


def rewriter():
    if "R" not in _R:
        common.mods()
        from xlate.c7n_to_cel import C7N_Rewriter
        _R["R"] = C7N_Rewriter
    return _R["R"]


def translate(clause, prelude=()):
    with contextlib.redirect_stdout(io.StringIO()):
        for res, c in prelude:
            try:
                rewriter().primitive(res, dict(c))
            except Exception:  # noqa: BLE001 - a prelude clause the translator rejects is simply not part of the history
                pass
        return rewriter().primitive("ec2", clause)


def c7n_program(text):
    celpy, ct, ev = common.mods()
    import celpy.c7nlib as c7n
    celpy.CELParser.CEL_PARSER = common._parsers.get("interp")
    env = celpy.Environment(annotations=dict(c7n.DECLARATIONS))
    common._parsers["interp"] = celpy.CELParser.CEL_PARSER
    return env.program(env.compile(text), functions=dict(c7n.FUNCTIONS))


def attr_value(shape, vals):
    """(resource, vars, pre) for an attribute of the given shape under key k"""
    celpy, ct, ev = common.mods()
    if shape[0] == "digits":
        vs, pre = V.shape_vars(("string", shape[1]), "r")
        pre = pre + [z3.And(v >= 48, v <= 57) for v in vs.values()]
        return ("string", shape[1]), vs, pre
    return shape, None, None


def _op_harness(cid, clause, shape, expected, prelude=()):
    celpy, ct, ev = common.mods()
    base = shape
    extra_pre = []
    if shape[0] == "digits":
        base = ("string", shape[1])
    elif shape[0] == "nested-int":
        base = ("int",)
    elif shape[0] == "tags":
        base = ("string", shape[1])
    vars, pre = V.shape_vars(base, "r")
    if shape[0] == "digits":
        pre = pre + [z3.And(v >= 48, v <= 57) for v in vars.values()]
    try:
        text = translate(clause, prelude)
        terr = None
    except Exception as ex:  # noqa: BLE001
        text, terr = None, ex
    prog, perr = None, None
    if text is not None:
        try:
            prog = c7n_program(text)
        except Exception as ex:  # noqa: BLE001
            perr = ex
    exp = expected(vars)
    opname = clause.get("op", "?")

    def resource(vals):
        v = V.build(base, "r", vals)
        if shape[0] == "nested-int":
            return ct.MapType({ct.StringType("a"): ct.MapType({ct.StringType("b"): v})})
        if shape[0] == "tags":
            tag = lambda k, val: ct.MapType({ct.StringType("Key"): ct.StringType(k), ct.StringType("Value"): val})
            name = clause["key"][4:]  # decoy tags named like fragments of the wanted name precede and follow it
            return ct.MapType({ct.StringType("Tags"): ct.ListType([tag("Other", ct.StringType("zz")), tag(name.rpartition(":")[2] + "x", ct.StringType("ab")), tag(name, v),
                                                                    tag(name, ct.StringType("second"))] + ([tag(name.rpartition(":")[2], ct.StringType("ab")), tag(name.partition(":")[0], ct.StringType("ab"))]
                                                                                                          if ":" in name else []))})
        return ct.MapType({ct.StringType("k"): v})

    def run(vals):
        if terr is not None:
            return [Ob(f"C19/translate/{cid}", z3.BoolVal(False), note=f"{type(terr).__name__}: {terr}"[:200])]
        if perr is not None:
            return [Ob(f"C19/parses/{cid}", z3.BoolVal(False), note=f"`{text}`: {type(perr).__name__}: {perr}"[:300])]
        kd, r = common.outcome(lambda: prog.evaluate({"resource": resource(vals)}))
        if kd != "value" or not isinstance(r, (int, bool)) and not hasattr(r, "_b"):
            return [Ob(f"C19/op/{opname}/evaluates", z3.BoolVal(False), note=f"`{text}`: {kd} {str(r)[:120]}", tags={"case": cid})]
        return [Ob(f"C19/op/{opname}/relation", bool_term(r) == exp, note=f"{clause} -> `{text}`", tags={"case": cid})]

    def witness(vals):
        return {"check": "c19.op_case", "args": enc({"cid": cid, "clause": clause, "shape": list(shape), "vals": vals, "prelude": [list(p) for p in prelude]})}

    return Harness(id=f"C19/{cid}:{clause.get('op')}:{clause.get('value')!r}", vars=vars, pre=pre, run=run, witness=witness, max_paths=200)


def _q_harness(n, quote):
    """decode(q(s)) == s for every string s of n code points; also through key_to_cel and a value clause"""
    celpy, ct, ev = common.mods()
    import lark
    R = rewriter()
    vars, pre = V.shape_vars(("string", n), "s")
    S = [z3.Int(f"s_c{i}") for i in range(n)]
    evaluator = ev.Evaluator(ast=None, activation=ev.Activation())

    def run(vals):
        conc = "".join(chr(vals[f"s_c{i}"]) for i in range(n))
        s = mks(SStr, S, conc)
        try:
            lit = R.q(s, quote)
        except Exception as ex:  # noqa: BLE001
            return [Ob("C19/q/no-error", z3.BoolVal(False), note=f"{type(ex).__name__}: {ex}")]
        obs = []
        # the emitted literal must be one STRING_LIT token for the real lexer ...
        from .c07 import lex_obligation, _tree
        lo = lex_obligation(lit, ("STRING_LIT",), "q-literal")
        obs.append(Ob("C19/q/is-one-string-literal", lo.term, note=lo.note, tags={"quote": quote}))
        if not z3.is_true(z3.simplify(lo.term)) and z3.is_false(z3.simplify(lo.term)):
            return obs
        # ... and decode back to the policy string
        tok = lark.Token("STRING_LIT", lit)
        try:
            r = evaluator.literal(_tree(tok))
        except Exception as ex:  # noqa: BLE001
            return obs + [Ob("C19/q/decodes", z3.BoolVal(False), note=f"{type(ex).__name__}: {ex}"[:160])]
        if isinstance(r, celpy.CELEvalError):
            return obs + [Ob("C19/q/decodes", z3.BoolVal(False), note=f"literal {str(lit)!r:.60} is an error: {r.args[:1]}")]
        got = cterms(r)
        same = z3.And([a == b for a, b in zip(got, S)]) if len(got) == n and n else z3.BoolVal(len(got) == n)
        obs.append(Ob("C19/q/round-trip", same, note="the literal produced by q() evaluates back to exactly the policy string", tags={"quote": quote}))
        return obs

    def witness(vals):
        return {"check": "c19.q_round_trip", "args": {"text": [vals[f"s_c{i}"] for i in range(n)], "quote": quote}}

    return Harness(id=f"C19/q/{n}/{quote}", vars=vars or {"dummy": z3.Int("dummy")}, pre=pre, run=run, witness=witness, max_paths=400)


def _present_harnesses():
    """present / not-null / absent / empty on resources that have the attribute: null, empty, non-empty (enumerated kinds, symbolic data)"""
    celpy, ct, ev = common.mods()
    hs = []
    kinds = {"null": None, "empty-string": ("string", 0), "string": ("string", 1), "int": ("int",), "empty-list": ("list", []), "list": ("list", [("int",)])}
    for value in ("present", "absent"):
        clause = {"type": "value", "key": "k", "value": value}
        text = translate(clause)
        prog = c7n_program(text)
        for kname, shape in kinds.items():
            vars, pre = ({}, []) if shape is None else V.shape_vars(shape, "r")
            want = (kname != "null") if value == "present" else (kname == "null")

            def run(vals, shape=shape, want=want, value=value, kname=kname, prog=prog, text=text):
                v = None if shape is None else V.build(shape, "r", vals)
                kd, r = common.outcome(lambda: prog.evaluate({"resource": ct.MapType({ct.StringType("k"): v})}))
                if kd != "value":
                    return [Ob(f"C19/op/{value}/evaluates", z3.BoolVal(False), note=f"`{text}` on {kname}: {kd} {str(r)[:80]}", tags={"kind": kname})]
                return [Ob(f"C19/op/{value}/relation", bool_term(r) == z3.BoolVal(want),
                           note=f"`{text}` on a resource whose attribute is {kname}: Custodian decides {want}", tags={"kind": kname})]

            def witness(vals, value=value, kname=kname):
                return {"check": "c19.present_case", "args": enc({"value": value, "kind": kname, "vals": vals})}
            hs.append(Harness(id=f"C19/{value}/{kname}", vars=vars or {"dummy": z3.Int("dummy")}, pre=pre, run=run, witness=witness, max_paths=10))
    return hs


def _tables_harness():
    def run(vals):
        return [Ob("C19/tables/enumerated", z3.BoolVal(True), note="table entries are checked by the concrete oracle (finite enumeration, not a solver verdict)")]
    return Harness(id="C19/tables", vars={"dummy": z3.Int("dummy")}, pre=[z3.Int("dummy") == 0], run=run, witness=lambda v: None, max_paths=2)


def extra_validation():
    from ..oracles import c19 as O
    return [{"check": "c19.table_entry", "args": {"rewriter": r, "resource": t}} for r, t in O.table_entries()]
