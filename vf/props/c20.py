"""C20 CLI output and exit status reflect the evaluation result."""
import argparse
import io
import itertools
import json as real_json
import os
import sys

import z3

from .. import explore
from ..explore import Harness, Ob
from ..refsem import MIN64, MAX64
from ..sym import loader as L
from ..sym.core import SInt, mk, tm, bool_term, is_sym
from ..sym.strs import SStr, mks, cterms
from . import common, skel
from ..replay import enc

PROP = "C20"
LEVEL = "model_checking"
FIDELITY_TESTS = ["tests/test_main.py", "tests/test_celtypes.py", "tests/test_adapter.py"]
FIDELITY_TESTS_THOROUGH = ["tests"]
BOUNDS = {
    "quick": {"expressions": "12 expressions of the bool/int/string/list fragment over one typed --arg binding or the document variable",
              "null-input": "all int64 values of the binding, with and without -b", "NDJSON": "streams of 1..3 documents, each either well-formed with a symbolic int64 field or malformed "
                            "(every malformed-position pattern), with and without -b, -p and -d; slurp mode with one document",
              "--arg": "arg_type_value on `name:type=value` with symbolic digits (int, uint) and 0..2 symbolic characters (string)"},
    "thorough": {"NDJSON": "streams of 1..5 documents", "others": "same"},
}
OUTSIDE = ["argparse's own parsing of option syntax (options are handed to main() through a stubbed get_options for symbolic values; concrete argv is replayed)",
           "json text parsing/rendering (stubbed at the C boundary by symbolic documents; checked on the replayed witnesses)", "the interactive REPL", "`python -m celpy` process start-up (replayed on witnesses)"]
ASSUMPTIONS = ["per-document status is whatever the same document gives when it is the only input (self-composition); the stream's status must be the worst of those",
               "stdin lines are placeholders resolved by a json.loads stub to symbolic documents or a JSONDecodeError"]
TRUSTED = ["z3 5.1", "CPython 3.12", "vf.sym shadows", "the stubs listed under assumptions"]
MANIFEST = {
    "text": "Symbolic execution of celpy.__main__.main / process_json_doc / arg_type_value (shadow-loaded; stdin, print and the json C boundary stubbed) with symbolic values inside the "
            "JSON documents and --arg bindings: z3 proves the exit status is the stated function of the symbolic result (-b: 0/1/2), and -- as a 2-safety property -- that the k-th "
            "output of a stream equals the output of document k processed alone and the stream status is the worst single-document status (3 for malformed input), for all values.",
    "note": "Expressions, stream lengths, malformed positions and option combinations are enumerated; data is symbolic. Every witness is replayed through the real main() with real "
            "stdin/stdout and real JSON text.",
    "technique": "symbolic execution of the real CLI byte-code with shadow builtins and C-boundary stubs + z3; self-composition for per-document independence; counterexample replay",
    "design_ref": "DESIGN.md §7 C20",
}


class Printed:
    """what the CLI handed to print(json.dumps(value)) -- kept as the (symbolic) python value"""

    def __init__(self, value):
        self.value = value


class JsonShim:
    """stand-in for the `json` module inside celpy.__main__"""
    decoder = real_json.decoder
    JSONDecodeError = real_json.JSONDecodeError
    docs = {}

    def loads(self, text, cls=None, **k):
        key = text.strip() if isinstance(text, str) else text
        if key in self.docs:
            d = self.docs[key]
            if d is BAD:
                raise real_json.JSONDecodeError("Expecting value", "x", 0)
            import celpy.adapter as ad
            return ad.json_to_cel(d) if cls is not None else d
        return real_json.loads(text, cls=cls, **k)

    def dumps(self, value, cls=None, **k):
        import celpy.adapter as ad
        return Printed(ad.CELJSONEncoder.to_python(value) if cls is not None else value)

    def __getattr__(self, n):
        return getattr(real_json, n)


BAD = object()
OUT = []


def _print(*a, **k):
    if k.get("file") is not None:
        return
    OUT.append(a[0] if len(a) == 1 else a)


def _main_post(module, state):
    L._generic_post(module, state)
    module.json = JSON
    module.print = _print


JSON = JsonShim()


def profile():
    p = L.default_profile()
    p.add("celpy.adapter", post=L._generic_post)
    p.add("celpy.__main__", post=_main_post)
    return p


def fidelity_profile():
    """the same shadow loading without the stdin/print/json stubs (the repository's CLI tests capture real output)"""
    p = L.default_profile()
    p.add("celpy.adapter", post=L._generic_post)
    p.add("celpy.__main__", post=L._generic_post)
    return p


# (source, mode, expected as function of the symbolic int x -> ('bool', term) | ('int', term) | ('error-at', cond, else-spec) ...)
EXPRS = [
    ("x > 5", lambda x: ("bool", x > 5, None)),
    ("x == 0 || x > 100", lambda x: ("bool", z3.Or(x == 0, x > 100), None)),
    ("x + 1", lambda x: ("int", x + 1, x + 1 > MAX64)),
    ("x", lambda x: ("int", x, None)),
    ("10 / x > 1", lambda x: ("bool", z3.And(x >= 1, x <= 5), x == 0)),   # 10/x > 1 for 1..5 (trunc division); error at 0
    ("x > 0 ? 'pos' : 'non'", lambda x: ("str", x > 0, None)),
    ("[x, x + 1]", lambda x: ("list", [x, x + 1], x + 1 > MAX64)),
    ("x % 2 == 0 && x != 4", lambda x: ("bool", z3.And(x % 2 == 0, x != 4), None)),
]


def tasks(tier):
    ts = [{"what": "null", "i": i, "b": b} for i in range(len(EXPRS)) for b in (False, True)]
    kmax = 3 if tier == "quick" else 5
    for k in range(1, kmax + 1):
        pats = list(itertools.product((False, True), repeat=k))
        if k > 3:
            pats = [p for p in pats if sum(p) <= 1] + [tuple([True] * k)]
        for bad in pats:
            for b in (False, True):
                for mode in (("p", "jq"), ("d", "doc")) if k <= 2 else (("p", "jq"),):
                    ts.append({"what": "ndjson", "k": k, "bad": list(bad), "b": b, "mode": list(mode)})
    ts += [{"what": "slurp", "b": b} for b in (False, True)]
    ts += [{"what": "args"}, {"what": "syntax"}]
    return ts


def run_task(task, kf):
    w = task["what"]
    if w == "null":
        hs = [_null_harness(task["i"], task["b"])]
    elif w == "ndjson":
        hs = [_stream_harness(task["k"], task["bad"], task["b"], task["mode"], e) for e in (0, 2, 4)]
        if task["mode"][0] == "d" and task["k"] >= 2:
            hs += [_stream_harness(task["k"], task["bad"], task["b"], task["mode"], e) for e in ((5, 7) if task["b"] else (5, 6))]
    elif w == "slurp":
        hs = [_stream_harness(1, [False], task["b"], ["p", "jq"], e, slurp=True) for e in (0, 4)]
    elif w == "args":
        hs = _arg_harnesses()
    else:
        hs = [_syntax_harness()]
    return [explore.explore(h, kf, profile_root=L.SRC) for h in hs]


def cli():
    common.mods()
    import celpy.__main__ as m
    return m


def run_main(options, stdin_lines=None):
    """main() with get_options stubbed to `options`; returns (status, printed list)"""
    m = cli()
    saved_opts, saved_stdin = m.get_options, sys.stdin
    m.get_options = lambda argv=None: options
    del OUT[:]

    class Stdin:
        def __init__(self, lines):
            self.lines = lines

        def __iter__(self):
            return iter(self.lines)

        def read(self):
            return "".join(self.lines)
    sys.stdin = Stdin(stdin_lines or [])
    try:
        status = m.main([])
    finally:
        m.get_options, sys.stdin = saved_opts, saved_stdin
    return status, list(OUT)


def options(expr, null_input=False, boolean=False, slurp=False, package=None, document=None, arg=None):
    if not package and not document:
        package = "jq"
    return argparse.Namespace(verbose=0, arg=arg, null_input=null_input, slurp=slurp, interactive=False, package=package, document=document,
                              boolean=boolean, format=None, expr=expr)


def _null_harness(i, b):
    celpy, ct, ev = common.mods()
    src, spec = EXPRS[i]
    X = z3.Int("x")
    kind, term, errcond = spec(X)
    F = z3.BoolVal(False)
    errcond = F if errcond is None else errcond

    def run(vals):
        x = ct.IntType(mk(SInt, X, vals["x"]))
        kd, res = common.outcome(lambda: run_main(options(src, null_input=True, boolean=b, arg=[("x", ct.IntType, x)])))
        if kd != "value":
            return [Ob("C20/null-input/no-escape", z3.BoolVal(False), note=f"`{src}`: {type(res).__name__}: {res}"[:160])]
        status, out = res
        obs = []
        if b:
            if kind == "bool":
                want = z3.If(errcond, 2, z3.If(term, 0, 1))
            else:
                want = z3.IntVal(2)
            obs.append(Ob("C20/null-input/-b/status", z3.IntVal(int(status)) == want, note=f"`{src}` -b: status {status}", tags={"status": int(status)}))
        else:
            obs.append(Ob("C20/null-input/status", z3.IntVal(int(status)) == z3.If(errcond, 2, 0), note=f"`{src}`: status {status}"))
            if int(status) == 0:
                ok = len(out) == 1 and isinstance(out[0], Printed)
                if not ok:
                    obs.append(Ob("C20/null-input/prints-one-value", z3.BoolVal(False), note=f"printed {out!r}"[:100]))
                else:
                    v = out[0].value
                    if kind == "bool":
                        same = z3.And(z3.BoolVal(type(v) is bool), z3.BoolVal(bool(v)) == term) if isinstance(v, bool) else z3.BoolVal(False)
                    elif kind == "int":
                        same = (tm(v) == term) if isinstance(v, int) and not isinstance(v, bool) else z3.BoolVal(False)
                    elif kind == "str":
                        same = z3.BoolVal(isinstance(v, str) and (str.__str__(v) == "pos")) == term if isinstance(v, str) else z3.BoolVal(False)
                    else:
                        same = z3.And([tm(a) == t for a, t in zip(v, term)]) if isinstance(v, list) and len(v) == len(term) else z3.BoolVal(False)
                    obs.append(Ob("C20/null-input/prints-the-value", same, note=f"`{src}`: printed {v!r}"[:100]))
        return obs

    def witness(vals):
        return {"check": "c20.null_input", "args": enc({"src": src, "b": b, "x": vals["x"]})}

    return Harness(id=f"C20/null/{src}/{'b' if b else 'plain'}", vars={"x": X}, pre=[X >= MIN64, X <= MAX64], run=run, witness=witness, max_paths=40)


STREAM_EXPRS = ["{v}.a > 5", "{v}.a + 1", "10 / {v}.a > 1", "{v}.a", "{v}.a > 0 ? {v}.b : {v}.a",
                # documents of differing shape (key `c` only in every other document): index >= HETERO
                "has({v}.c) ? {v}.a : 0", "size({v}) + {v}.a % 2", "has({v}.c)"]
HETERO = 5


def _stream_harness(k, bad, b, mode, ei, slurp=False):
    """k documents {"a": a_i, "b": 7}; bad[i] -> line i is malformed.  Self-composition: stream vs each document alone."""
    celpy, ct, ev = common.mods()
    opt, name = mode
    # -d NAME: the document is the variable NAME (`NAME.a`); -p NAME: the document is a package, so `.a` works
    src = STREAM_EXPRS[ei].format(v=name) if opt == "d" else STREAM_EXPRS[ei].format(v="")
    A = [z3.Int(f"a{i}") for i in range(k)]
    vars = {f"a{i}": A[i] for i in range(k)}
    pre = [z3.And(a >= MIN64, a <= MAX64) for a in A]

    def opts():
        return options(src, boolean=b, slurp=slurp, package=name if opt == "p" else None, document=name if opt == "d" else None)

    def register(vals):
        JSON.docs.clear()
        lines = []
        for i in range(k):
            key = f"@DOC{i}"
            doc = {"a": mk(SInt, A[i], vals[f"a{i}"]), "b": 7}
            if ei >= HETERO and i % 2 == 0:
                doc["c"] = 1
            JSON.docs[key] = BAD if bad[i] else doc
            lines.append(key + "\n")
        return lines

    def run(vals):
        lines = register(vals)
        kd, res = common.outcome(lambda: run_main(opts(), lines))
        if kd != "value":
            return [Ob("C20/ndjson/no-escape", z3.BoolVal(False), note=f"`{src}`: {type(res).__name__}: {res}"[:160])]
        status, out = res
        singles = []
        for i in range(k):
            register(vals)
            kd1, r1 = common.outcome(lambda: run_main(opts(), [f"@DOC{i}\n"]))
            if kd1 != "value":
                return [Ob("C20/ndjson/no-escape", z3.BoolVal(False), note=f"single doc {i}: {type(r1).__name__}")]
            singles.append(r1)
        obs = []
        worst = max(int(s) for s, _ in singles)
        obs.append(Ob("C20/ndjson/status-is-worst-per-document", z3.BoolVal(int(status) == worst), note=f"stream status {status}; single statuses {[int(s) for s, _ in singles]}",
                      tags={"status": int(status)}))
        if b and k == 1 and not bad[0] and ei in (0, 2) and isinstance(out[0] if out else None, Printed) and isinstance(out[0].value, bool):
            # -b on a boolean result: 0 iff true, 1 iff false (also per document)
            obs.append(Ob("C20/ndjson/-b/status", z3.BoolVal(int(status) == (0 if out[0].value else 1)), note=f"`{src}` -b: result {out[0].value}, status {status}"))
        if any(bad):
            obs.append(Ob("C20/ndjson/malformed-gives-3", z3.BoolVal(int(status) == 3), note=f"status {status} with a malformed line"))
        flat = [o for _, o1 in singles for o in o1]
        if len(out) != len(flat):
            obs.append(Ob("C20/ndjson/one-output-per-document", z3.BoolVal(False), note=f"{len(out)} outputs, documents alone give {len(flat)}"))
        else:
            for j, (o, o1) in enumerate(zip(out, flat)):
                same = skel.equal_term(o.value, o1.value) if isinstance(o, Printed) and isinstance(o1, Printed) else z3.BoolVal(False)
                obs.append(Ob("C20/ndjson/output-k-depends-only-on-document-k", same, note=f"output {j}: {getattr(o, 'value', o)!r} vs alone {getattr(o1, 'value', o1)!r}"[:140]))
        return obs

    def witness(vals):
        return {"check": "c20.stream", "args": enc({"src": src, "k": k, "bad": bad, "b": b, "mode": mode, "slurp": slurp, "vals": vals, "hetero": ei >= HETERO})}

    return Harness(id=f"C20/{'slurp' if slurp else 'ndjson'}/{k}/{''.join('x' if t else '.' for t in bad)}/{'b' if b else 'plain'}/{opt}:{src}", vars=vars, pre=pre, run=run,
                   witness=witness, max_paths=60)


def _arg_harnesses():
    celpy, ct, ev = common.mods()
    m = cli()
    hs = []
    for typ, n in (("int", 3), ("uint", 2), ("int", 1)):
        D = [z3.Int(f"d{i}") for i in range(n)]
        vars = {f"d{i}": D[i] for i in range(n)}
        pre = [z3.And(d >= 48, d <= 57) for d in D]
        val = z3.IntVal(0)
        for d in D:
            val = val * 10 + (d - 48)

        def run(vals, typ=typ, n=n, D=D, val=val):
            text = mks(SStr, [z3.IntVal(ord(c)) for c in f"name:{typ}="] + D, f"name:{typ}=" + "".join(chr(vals[f"d{i}"]) for i in range(n)))
            kd, r = common.outcome(lambda: m.arg_type_value(text))
            if kd != "value":
                return [Ob("C20/arg/typed-value", z3.BoolVal(False), note=f"{type(r).__name__}: {r}"[:120])]
            name, tdef, value = r
            want = ct.IntType if typ == "int" else ct.UintType
            return [Ob("C20/arg/typed-value", z3.And(z3.BoolVal(str.__str__(name) == "name" and type(value) is want), tm(value) == val),
                       note=f"-a name:{typ}=<digits> binds the typed value")]

        def witness(vals, typ=typ, n=n):
            return {"check": "c20.arg", "args": enc({"typ": typ, "text": "".join(chr(vals[f"d{i}"]) for i in range(n))})}
        hs.append(Harness(id=f"C20/arg/{typ}/{n}", vars=vars, pre=pre, run=run, witness=witness, max_paths=20))
    # string-typed values of length 0..2 (length 0 is the explicit empty value `name:string=`), any printable ASCII character
    for form, envset in (("name:string=", False), ("name=", False), ("name:string=", True), ("name=", True)):
        for n in (0, 1, 2):
            Cs = [z3.Int(f"c{i}") for i in range(n)]
            vars = {f"c{i}": Cs[i] for i in range(n)} or {"dummy": z3.Int("dummy")}
            pre = [z3.And(c >= 32, c <= 126) for c in Cs]

            def run(vals, form=form, n=n, Cs=Cs, envset=envset):
                raw = form + "".join(chr(vals[f"c{i}"]) for i in range(n))
                text = mks(SStr, [z3.IntVal(ord(c)) for c in form] + Cs, raw) if n else form
                # an environment variable named like the CEL variable must not override an explicit value (it is the documented
                # fallback only for the form without `=`)
                os.environ.pop("name", None)
                if envset:
                    os.environ["name"] = "from-the-environment"
                try:
                    kd, r = common.outcome(lambda: m.arg_type_value(text))
                finally:
                    os.environ.pop("name", None)
                if kd != "value":
                    return [Ob("C20/arg/string-value", z3.BoolVal(False), note=f"{type(r).__name__}: {r}"[:120])]
                name, tdef, value = r
                got = cterms(value) if isinstance(value, str) else None
                ok = z3.BoolVal(False) if got is None or len(got) != n or type(value).__name__ != "StringType" or str.__str__(name) != "name" else \
                    (z3.And([g == c for g, c in zip(got, Cs)]) if n else z3.BoolVal(True))
                return [Ob("C20/arg/string-value", ok, note=f"-a {form}<{n} characters> binds exactly that string (got {value!r})"[:160])]

            def witness(vals, form=form, n=n, envset=envset):
                return {"check": "c20.arg_string", "args": enc({"form": form, "text": "".join(chr(vals[f"c{i}"]) for i in range(n)), "envset": envset})}
            hs.append(Harness(id=f"C20/arg/{form}/{n}/{'env' if envset else 'noenv'}", vars=vars, pre=pre, run=run, witness=witness, max_paths=20))
    return hs


SYNTAX = ["1 +", "a ? b", "((", "1 2", "'unterminated", "", "x +* y"]


def _syntax_harness():
    def run(vals):
        return [Ob("C20/syntax-error/enumerated", z3.BoolVal(True), note="syntax errors are checked by the concrete oracle through the real main() (enumeration)")]
    return Harness(id="C20/syntax", vars={"dummy": z3.Int("dummy")}, pre=[z3.Int("dummy") == 0], run=run, witness=lambda v: None, max_paths=2)


def extra_validation():
    ws = [{"check": "c20.syntax_error", "args": {"src": s}} for s in SYNTAX if s]
    ws += [{"check": "c20.process", "args": {"argv": a, "stdin": i, "status": s, "stdout": o}} for a, i, s, o in [
        (["-n", "355.0 / 113.0"], "", 0, ["3.1415929203539825"]), (["-n", "-b", "1 == 1"], "", 0, []), (["-n", "-b", "1 == 2"], "", 1, []),
        (["-n", "-b", "1 + 2"], "", 2, []), (["-n", "-b", "1 / 0 == 1"], "", 2, []), (["-n", "1 +"], "", 1, []),
        ([".a"], '{"a": 1}\n{"a": 2}\n', 0, ["1", "2"]), (["-b", ".a > 1"], '{"a": 1}\n{"a": 2}\n', 1, ["false", "true"]),
        ([".a"], '{"a": 1}\nnot json\n{"a": 3}\n', 3, ["1", "3"]), (["-s", ".a"], '{"a":\n 5}', 0, ["5"]),
        (["-n", "-a", "x:int=41", "x + 1"], "", 0, ["42"]), (["-n", "-a", "s:string=", "s.size()"], "", 0, ["0"]), (["-n", "-b", "-a", "s:string=", 's == ""'], "", 0, []), (["-n", '"s" + "t"'], "", 0, ['"st"']), (["-n", "[1, true, null]"], "", 0, ["[1, true, null]"]),
        (["-n", "[[true]]"], "", 0, ["[[true]]"]), (["-n", "[1, [true, false]]"], "", 0, ["[1, [true, false]]"]), (["-n", "{'k': [[false]], 'n': [1, [2 > 1]]}"], "", 0, ['{"k": [[false]], "n": [1, [true]]}']),
        (["-d", "doc", "doc"], '[[true, false]]\n', 0, ["[[true, false]]"]),
        # numerically equal values of different JSON types in different documents of one stream
        (["-d", "doc", "string(doc.v)"], '{"v": 3}\n{"v": 3.0}\n{"v": 3}\n', 0, ['"3"', '"3.0"', '"3"']), (["-d", "doc", "[doc.v]"], '{"v": 1.0}\n{"v": 1}\n{"v": true}\n', 0, ["[1.0]", "[1]", "[true]"]),
        (["-d", "doc", "doc.v == 0"], '{"v": 0}\n{"v": false}\n', 0, None),
        # maps keyed by bool / int / uint at several depths: JSON object keys are the JSON spelling of the key
        (["-n", '{true: "yes", false: "no"}'], "", 0, ['{"true": "yes", "false": "no"}']), (["-n", '{1: "a", 2u: "b"}'], "", 0, ['{"1": "a", "2": "b"}']),
        (["-n", "[{true: 1}]"], "", 0, ['[{"true": 1}]']), (["-n", '{"a": {false: [true]}}'], "", 0, ['{"a": {"false": [true]}}']),
        (["-d", "doc", "{doc.v: doc.v}"], '{"v": true}\n{"v": 1}\n', 0, ['{"true": true}', '{"1": 1}']),
        # characters that Python's str.splitlines() treats as line breaks but JSON allows unescaped inside strings: one document per \n-terminated line
        ([".a"], '{"a": "x\u2028y"}\n{"a": "z"}\n', 0, ['"x\\u2028y"', '"z"']), ([".a"], '{"a": "x\u0085y"}\n{"a": "u\u2029v"}\n', 0, ['"x\\u0085y"', '"u\\u2029v"']),
        (["-b", ".a == 'p\u2028'"], '{"a": "p\u2028"}\n{"a": "q"}\n', 1, ["true", "false"]), ([".a"], '{"a": 1}\r\n{"a": 2}\r\n', 0, ["1", "2"])]]
    # long streams of failing documents followed by a good one (per-stream state such as depth counters, caches): enumeration
    ws += [{"check": "c20.long_stream", "args": {"argv": a, "bad": b, "good": g, "n": n, "last": l, "status": st}} for a, b, g, n, l, st in [
        (["size({.a: 1, .b: 2})"], '{"a":1,"b":1}', '{"a":1,"b":2}', 520, "2", 0), ([".a.reduce(r, i, 0, r + 10 / i)"], '{"a":[1,0]}', '{"a":[1,2]}', 80, "15", 0),
        (["-b", "10 / .a > 1"], '{"a":0}', '{"a":5}', 120, "true", 0), ([".a.map(x, 1 / x)[0]"], '{"a":[0]}', '{"a":[1]}', 120, "1", 0),
        (["-b", ".a.exists(x, {x: 1, 1: 2}.size() == 2)"], '{"a":[1]}', '{"a":[3]}', 120, "true", 0)]]
    return ws
