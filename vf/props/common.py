"""Helpers shared by property harnesses (run inside worker processes, after the shadow loader is installed)."""
import z3

from ..sym import core, strs
from ..sym.core import SInt, SFloat, SBool, mk, mkf, tm, ft, is_sym, f_is_sym
from ..sym.strs import SStr, SBytes, mks, mkb, cterms, bterms, s_is_sym, b_is_sym
from ..refsem import MIN64, MAX64, MAXU64

_mods = {}
_parsers = {}


def mods():
    """(celpy, celtypes, evaluation) — imported lazily, after loader.install()"""
    if not _mods:
        import sys
        from ..sym import loader
        if loader.SRC not in sys.path:
            sys.path.insert(0, loader.SRC)
        import celpy
        import celpy.celtypes
        import celpy.evaluation
        _mods["celpy"], _mods["ct"], _mods["ev"] = celpy, celpy.celtypes, celpy.evaluation
    return _mods["celpy"], _mods["ct"], _mods["ev"]


RUNNERS = ("interp", "compiled")


def make_program(src, runner, functions=None, annotations=None, package=None):
    """Fresh Environment + program. The parser singleton is reset first: it is specialised to the tree class of the
    first runner kind that created it (a history dependence that C05 checks; every other harness factors it out)."""
    celpy, ct, ev = mods()
    R = celpy.InterpretedRunner if runner == "interp" else celpy.CompiledRunner
    celpy.CELParser.CEL_PARSER = _parsers.get(runner)  # one Lark object per tree class (never the other kind's)
    env = celpy.Environment(package=package, annotations=annotations, runner_class=R)
    _parsers[runner] = celpy.CELParser.CEL_PARSER
    ast = env.compile(src)
    return env.program(ast, functions=functions)


def outcome(thunk):
    """('value', v) | ('error', CELEvalError) | ('escape', other exception)"""
    celpy, ct, ev = mods()
    try:
        return ("value", thunk())
    except celpy.CELEvalError as e:
        return ("error", e)
    except Exception as e:  # noqa: BLE001 - engine control flow is BaseException
        return ("escape", e)


def int_var(name, lo=MIN64, hi=MAX64):
    v = z3.Int(name)
    return v, [v >= lo, v <= hi]


def fp_var(name):
    return z3.FP(name, core.F64)


def sym_cel_int(cls, term, conc):
    return cls(mk(SInt, term, conc))


def sym_cel_double(cls, term, conc):
    return cls(mkf(SFloat, term, conc))


def str_vars(name, n):
    """n code point variables + precondition: valid scalar values"""
    vs = [z3.Int(f"{name}{i}") for i in range(n)]
    pre = []
    for v in vs:
        pre += [v >= 0, v <= 0x10FFFF, z3.Not(z3.And(v >= 0xD800, v <= 0xDFFF))]
    return vs, pre


def conc_str(vals, names):
    return "".join(chr(vals[n]) for n in names)


def sym_cel_str(cls, terms, conc):
    return cls(mks(SStr, terms, conc))


def sym_cel_bytes(cls, terms, conc):
    return cls(mkb(SBytes, terms, conc))


def value_class(v):
    """class name of a result; 'native:<T>' when the real code handed back a plain/shadow builtin"""
    t = type(v)
    n = t.__name__
    if t in (SInt, int):
        return "native:int"
    if t in (SFloat, float):
        return "native:float"
    if t in (SStr, str):
        return "native:str"
    if t in (SBytes, bytes):
        return "native:bytes"
    if t in (SBool, bool):
        return "native:bool"
    if t is list or n == "SList":
        return "native:list"
    if t is dict or n == "SDict":
        return "native:dict"
    if n in ("timedelta", "STimedelta"):
        return "native:timedelta"
    if n in ("datetime", "SDatetime"):
        return "native:datetime"
    return n


def as_int_term(v):
    if isinstance(v, SBool):
        return tm(v)
    return tm(v)


def truth_term(v):
    """z3 Bool of a BoolType/bool/SBool result"""
    return core.bool_term(v)
