"""Conformance corpus: every `When CEL expression ... is evaluated` of $VERIF_REPO/features/*.feature, with its literals
lifted to typed variables (`1 + 2 == 3` -> `v0 + v1 == v2`), so each corpus case is generalised to all literal values."""
import ast
import glob
import os
import re

from ..sym import loader
from . import common, values as V

KIND = {"INT_LIT": "int", "UINT_LIT": "uint", "FLOAT_LIT": "double", "STRING_LIT": "string", "MLSTRING_LIT": "string",
        "BYTES_LIT": "bytes"}
MAX_LIFT = 4
_cache = {}


def expressions():
    out = []
    for f in sorted(glob.glob(os.path.join(loader.REPO, "features", "*.feature"))):
        for line in open(f, encoding="utf-8"):
            m = re.match(r"\s*When CEL expression (.*) is evaluated\s*$", line.rstrip("\n"))
            if not m:
                continue
            try:
                src = ast.literal_eval(m.group(1))
            except Exception:  # noqa: BLE001
                continue
            if isinstance(src, str):
                out.append(src)
    seen, res = set(), []
    for s in out:
        if s not in seen:
            seen.add(s)
            res.append(s)
    return res


def _lift_all():
    if "sk" in _cache:
        return _cache["sk"], _cache["shapes"]
    celpy, ct, ev = common.mods()
    celpy.CELParser.CEL_PARSER = common._parsers.get("interp")
    env = celpy.Environment()
    common._parsers["interp"] = celpy.CELParser.CEL_PARSER
    skels, shapes, seen = [], {}, set()
    for src in expressions():
        if len(src) > 140 or "\n" in src:
            continue
        try:
            tree = env.compile(src)
        except Exception:  # noqa: BLE001
            continue
        lits = []
        for l in tree.find_data("literal"):
            t = l.children[0]
            if t.type in KIND and getattr(l.meta, "start_pos", None) is not None:
                lits.append((l.meta.start_pos, l.meta.end_pos, t))
        lits.sort(key=lambda x: x[0])
        out, pos, vs = [], 0, {}
        for i, (a, b, t) in enumerate(lits):
            if len(vs) >= MAX_LIFT:
                break
            k = KIND[t.type]
            if k in ("string", "bytes"):
                try:
                    dec = ev.celstr(t) if k == "string" else ev.celbytes(t)
                except Exception:  # noqa: BLE001
                    continue
                if len(dec) > 3:
                    continue
                shape = (k, len(dec))
            else:
                shape = (k,)
            name = f"v{len(vs)}"
            out.append(src[pos:a])
            out.append(f" {name} ")
            pos = b
            vs[name] = shape
        out.append(src[pos:])
        sk = "".join(out)
        if not vs or sk in seen:
            continue
        try:
            env.compile(sk)
        except Exception:  # noqa: BLE001
            continue
        seen.add(sk)
        skels.append(sk)
        shapes[sk] = vs
    _cache["sk"], _cache["shapes"] = skels, shapes
    return skels, shapes


def lifted_skeletons():
    return _lift_all()[0]


def shapes_of(sk):
    return _lift_all()[1][sk]


def bindings_for(sk):
    shapes = shapes_of(sk)
    names = sorted(shapes)
    vars, pre = {}, []
    for n in names:
        v, p = V.shape_vars(shapes[n], n)
        vars.update(v)
        pre += p

    def build(vals):
        return {n: V.build(shapes[n], n, vals) for n in names}

    def to_json(vals):
        return {n: V.to_json(shapes[n], n, vals) for n in names}

    return names, vars, pre, build, to_json
