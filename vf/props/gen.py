"""Type-directed generator of CEL program skeletons over a fixed set of typed variables (data symbolic).

Pure Python, no z3/celpy imports: shared by the symbolic harnesses and (for variable shapes) the concrete oracles.
"""
import itertools

SK = lambda s: {"t": "string", "v": s}

# variable name -> shape (vf.props.values shapes)
VARS = {
    "i1": ("int",), "i2": ("int",), "u1": ("uint",), "u2": ("uint",), "d1": ("double",), "d2": ("double",),
    "b1": ("bool",), "b2": ("bool",), "s1": ("string", 1), "s2": ("string", 2), "s0": ("string", 0),
    "y1": ("bytes", 1), "y2": ("bytes", 2),
    "li": ("list", [("int",), ("int",)]), "li3": ("list", [("int",), ("int",), ("int",)]), "le": ("list", []),
    "ls": ("list", [("string", 1), ("string", 1)]),
    "lb": ("list", [("bool",), ("bool",)]), "ld": ("list", [("double",)]),
    "m": ("map", [(SK("a"), ("int",)), (SK("b"), ("int",))]),
    "ms": ("map", [(SK("a"), ("string", 1))]),
    "mi": ("map", [({"t": "int", "v": 1}, ("int",)), ({"t": "int", "v": 2}, ("int",))]),
    "m2": ("map", [(SK("a"), ("int",)), (SK("c"), ("int",))]),
    "n": ("null",),
    # time values are concrete here (the calendar model is C11's subject); 2009-02-13T23:31:30Z and 2021-03-04T05:06:07.5Z
    "t1": ("const", {"t": "timestamp", "us": 1234567890000000}), "t2": ("const", {"t": "timestamp", "us": 1614834367500000}),
    "q1": ("const", {"t": "duration", "us": 3723000000}), "q2": ("const", {"t": "duration", "us": -86400500000}),
}
TYPE_OF = {"i1": "int", "i2": "int", "u1": "uint", "u2": "uint", "d1": "double", "d2": "double", "b1": "bool", "b2": "bool",
           "s1": "string", "s2": "string", "s0": "string", "y1": "bytes", "y2": "bytes", "li": "list", "li3": "list", "le": "list",
           "ls": "list", "lb": "list", "ld": "list", "m": "map", "ms": "map", "mi": "map", "m2": "map", "n": "null_type",
           "t1": "timestamp", "t2": "timestamp", "q1": "duration", "q2": "duration"}

# leaves by CEL type (expression text)
LEAVES = {
    "int": ["i1", "i2"], "uint": ["u1", "u2"], "double": ["d1", "d2"], "bool": ["b1", "b2"],
    "string": ["s1", "s2"], "bytes": ["y1", "y2"], "list<int>": ["li", "li3"], "list<string>": ["ls"],
    "map": ["m"], "null_type": ["n"], "timestamp": ["t1", "t2"], "duration": ["q1", "q2"],
}
BASE = {"list<int>": "list", "list<string>": "list", "list<bool>": "list", "list<double>": "list"}


def base(t):
    return BASE.get(t, t)


# (result type, template, [argument types])   -- {0}, {1}, ... are argument expression texts
FORMS = [
    # arithmetic
    *[("int", f"({{0}} {op} {{1}})", ["int", "int"]) for op in "+-*/%"],
    ("int", "(-{0})", ["int"]),
    *[("uint", f"({{0}} {op} {{1}})", ["uint", "uint"]) for op in "+-*/%"],
    *[("double", f"({{0}} {op} {{1}})", ["double", "double"]) for op in "+-*/"],
    ("double", "(-{0})", ["double"]),
    # concatenation
    ("string", "({0} + {1})", ["string", "string"]),
    ("bytes", "({0} + {1})", ["bytes", "bytes"]),
    ("list<int>", "({0} + {1})", ["list<int>", "list<int>"]),
    # relations
    *[("bool", f"({{0}} {op} {{1}})", [t, t]) for op in ("<", "<=", ">", ">=", "==", "!=")
      for t in ("int", "uint", "double", "string", "bytes", "bool")],
    *[("bool", f"({{0}} {op} {{1}})", [t, t]) for op in ("==", "!=") for t in ("list<int>", "map", "list<string>")],
    ("bool", "({0} == null)", ["null_type"]),
    # null as an element, a map value, a macro item and a bound variable inside macro bodies
    ("bool", "[1, {0}].exists(x, x == null)", ["null_type"]), ("bool", "[null, {0}].all(x, x == null)", ["null_type"]), ("list<int>", "[{0}, null].map(x, 1)", ["int"]),
    ("bool", "[{0}].map(x, x == null)[0]", ["null_type"]), ("bool", "({{'a': {0}}}.a == null)", ["null_type"]), ("bool", "has({{'a': {0}}}.a)", ["null_type"]),
    ("bool", "({{'a': null}}['a'] == {0})", ["null_type"]), ("bool", "[1, 2].exists(x, {0} == null && x == 2)", ["null_type"]), ("int", "size([{0}, null])", ["null_type"]),
    ("bool", "[{0}, 1].filter(x, x == null).size() == 1", ["null_type"]), ("bool", "({0} in [null, 1])", ["null_type"]), ("bool", "[[{0}]].map(x, x[0] == null)[0]", ["null_type"]),
    # logic
    ("bool", "({0} && {1})", ["bool", "bool"]), ("bool", "({0} || {1})", ["bool", "bool"]), ("bool", "(!{0})", ["bool"]),
    *[(t, "({0} ? {1} : {2})", ["bool", t, t]) for t in ("int", "uint", "double", "string", "bool", "list<int>", "bytes")],
    # membership / containers
    ("bool", "({0} in {1})", ["int", "list<int>"]), ("bool", "({0} in {1})", ["string", "list<string>"]),
    ("bool", "({0} in m)", ["string"]), ("bool", "({0} in mi)", ["int"]),
    # heterogeneous containers: a member of another type before / after the candidate match
    ("bool", "({0} in ['a', {1}])", ["int", "int"]), ("bool", "({0} in [{1}, 'a'])", ["int", "int"]),
    ("bool", "({0} in [1, 2u, {1}])", ["string", "string"]), ("bool", "({0} in {{'a': 1, 2: 4}})", ["int"]),
    ("bool", "({0} in [1.5, {1}, b'x'])", ["int", "int"]),
    ("int", "{0}[0]", ["list<int>"]), ("int", "{0}[1]", ["list<int>"]), ("int", "{0}[{1}]", ["list<int>", "int"]),
    ("string", "{0}[0]", ["list<string>"]),
    ("int", "m.a", []), ("int", "m['b']", []), ("int", "m[{0}]", ["string"]), ("int", "mi[{0}]", ["int"]), ("string", "ms.a", []),
    ("bool", "has(m.a)", []), ("bool", "has(m.zz)", []), ("bool", "(!has(m.zz))", []), ("bool", "has(ms.a)", []),
    ("int", "size({0})", ["string"]), ("int", "size({0})", ["list<int>"]), ("int", "size(m)", []), ("int", "size({0})", ["bytes"]),
    ("int", "{0}.size()", ["string"]), ("int", "{0}.size()", ["list<int>"]),
    ("bool", "{0}.contains({1})", ["string", "string"]), ("bool", "{0}.startsWith({1})", ["string", "string"]),
    ("bool", "{0}.endsWith({1})", ["string", "string"]), ("bool", "{0}.matches('^a')", ["string"]),
    ("bool", "matches({0}, 'a$')", ["string"]),
    ("list<int>", "[{0}, {1}]", ["int", "int"]), ("list<int>", "[{0}]", ["int"]), ("list<string>", "[{0}, {1}]", ["string", "string"]),
    ("list<int>", "[]", []),
    ("map", "{{'a': {0}, 'b': {1}}}", ["int", "int"]), ("map", "{{{0}: {1}}}", ["string", "int"]),
    ("map", "{{{0}: 1, {1}: 2}}", ["string", "string"]), ("map", "{{}}", []),
    # macros
    ("list<int>", "{0}.map(x, x + {1})", ["list<int>", "int"]), ("list<int>", "{0}.map(x, x * 2)", ["list<int>"]),
    ("list<int>", "{0}.filter(x, x > {1})", ["list<int>", "int"]), ("list<string>", "{0}.map(x, x + {1})", ["list<string>", "string"]),
    ("bool", "{0}.all(x, x > {1})", ["list<int>", "int"]), ("bool", "{0}.exists(x, x == {1})", ["list<int>", "int"]),
    ("bool", "{0}.exists_one(x, x >= {1})", ["list<int>", "int"]), ("bool", "{0}.all(x, 10 / x > 0)", ["list<int>"]),
    ("bool", "{0}.exists(x, 10 / x > 0)", ["list<int>"]), ("bool", "lb.all(x, x)", []), ("bool", "lb.exists(x, x)", []),
    ("list<int>", "{0}.map(x, [x].map(y, y + x)[0])", ["list<int>"]),
    ("bool", "{0}.exists(x, {0}.all(y, y <= x))", ["list<int>"]),
    # macros over maps iterate the keys
    ("list<string>", "m.filter(k, m[k] > {0})", ["int"]), ("list<string>", "m.filter(k, true)", []), ("list<int>", "m.map(k, m[k] + {0})", ["int"]),
    ("list<string>", "m.map(k, k + {0})", ["string"]), ("bool", "m.all(k, m[k] >= {0})", ["int"]), ("bool", "m.exists(k, k == {0})", ["string"]),
    ("bool", "m.exists_one(k, m[k] == {0})", ["int"]), ("list<int>", "mi.filter(k, k > {0})", ["int"]), ("list<int>", "{0}.filter(x, true)", ["list<int>"]),
    ("list<int>", "{0}.filter(x, false)", ["list<int>"]), ("list<int>", "[].filter(x, true)", []), ("list<int>", "{{}}.filter(x, true)", []),
    # conversions
    ("int", "int({0})", ["uint"]), ("int", "int({0})", ["double"]), ("int", "int({0})", ["int"]),
    ("uint", "uint({0})", ["int"]), ("uint", "uint({0})", ["double"]), ("uint", "uint({0})", ["uint"]),
    ("double", "double({0})", ["double"]),
    ("string", "string({0})", ["int"]), ("string", "string({0})", ["uint"]), ("string", "string({0})", ["string"]),
    ("string", "string({0})", ["bytes"]), ("bytes", "bytes({0})", ["string"]), ("bool", "bool({0})", ["bool"]),
    ("int", "int(string({0}))", ["int"]),
    ("dyn-int", "dyn({0})", ["int"]),
    # type()
    *[("type", "type({0})", [t]) for t in ("int", "uint", "double", "bool", "string", "bytes", "list<int>", "map", "null_type")],
    *[("bool", f"(type({{0}}) == {n})", [t]) for t, n in (("int", "int"), ("uint", "uint"), ("double", "double"), ("bool", "bool"),
                                                           ("string", "string"), ("bytes", "bytes"), ("list<int>", "list"),
                                                           ("map", "map"), ("null_type", "null_type"), ("int", "uint"), ("string", "bytes"))],
    ("bool", "(type(type({0})) == type)", ["int"]),
    # time arithmetic (concrete instants; class and runner agreement only)
    ("timestamp", "({0} + {1})", ["timestamp", "duration"]), ("timestamp", "({1} + {0})", ["timestamp", "duration"]),
    ("timestamp", "({0} - {1})", ["timestamp", "duration"]), ("duration", "({0} - {1})", ["timestamp", "timestamp"]),
    ("duration", "({0} + {1})", ["duration", "duration"]), ("duration", "({0} - {1})", ["duration", "duration"]),
    *[("bool", f"({{0}} {op} {{1}})", [t, t]) for op in ("<", "<=", ">", ">=", "==", "!=") for t in ("timestamp", "duration")],
    *[("int", f"{{0}}.{g}()", ["timestamp"]) for g in ("getFullYear", "getMonth", "getDate", "getDayOfMonth", "getDayOfWeek", "getDayOfYear",
                                                       "getHours", "getMinutes", "getSeconds", "getMilliseconds")],
    ("int", "{0}.getHours('+05:30')", ["timestamp"]), ("int", "{0}.getDate('America/New_York')", ["timestamp"]),
    *[("int", f"{{0}}.{g}()", ["duration"]) for g in ("getHours", "getMinutes", "getSeconds", "getMilliseconds")],
    ("timestamp", "timestamp('2009-02-13T23:31:30Z')", []), ("duration", "duration('1h2m3s')", []),
    ("string", "string({0})", ["timestamp"]), ("string", "string({0})", ["duration"]), ("int", "int({0})", ["timestamp"]),
    ("timestamp", "timestamp(string({0}))", ["timestamp"]), ("duration", "duration(string({0}))", ["duration"]),
    ("bool", "(type({0}) == timestamp)", ["timestamp"]), ("bool", "(type({0}) == duration)", ["duration"]),
    ("type", "type({0})", ["timestamp"]), ("type", "type({0})", ["duration"]),
]
# literal-bearing forms: concrete literals inside otherwise symbolic programs
LITERAL_FORMS = [
    ("int", "({0} + 1)", ["int"]), ("int", "(9223372036854775807 - {0})", ["int"]), ("uint", "({0} + 1u)", ["uint"]),
    ("double", "({0} * 2.5)", ["double"]), ("double", "({0} / 0.0)", ["double"]), ("string", "({0} + 'z')", ["string"]),
    ("bool", "({0} < 0)", ["int"]), ("bool", "({0} == 'a')", ["string"]), ("bytes", "({0} + b'z')", ["bytes"]),
    ("bool", "({0} in [1, 2, 3])", ["int"]), ("bool", "({0} in {{'a': 1}})", ["string"]),
    ("int", "({0} / 2 * 2 + {0} % 2)", ["int"]), ("bool", "({0} >= 0u)", ["uint"]),
    ("bool", "(true || {0})", ["bool"]), ("bool", "(false && {0})", ["bool"]), ("int", "(true ? {0} : 1 / 0)", ["int"]),
    ("bool", "(1 / {0} > 0 || {1})", ["int", "bool"]), ("bool", "({1} && 1 / {0} > 0)", ["int", "bool"]),
    ("list<int>", "[1, 2, 3].map(x, x * {0})", ["int"]), ("bool", "[1, 2, 3].exists(x, x / {0} == 1)", ["int"]),
    ("bool", "[0, 0, 1].exists(x, {0} / x > 0)", ["int"]), ("bool", "[0, 0, 2].all(x, {0} / x == 1)", ["int"]),
    ("int", "[10, 20, 30][{0}]", ["int"]), ("string", "{{1: 'a', 2: 'b'}}[{0}]", ["int"]),
    ("bool", "has({{'a': {0}}}.a)", ["int"]),
    # container literals with an erroring key / value / element: construction is strict, the error is the result (and is absorbed like any other)
    ("map", "{{'a': 1 / {0}}}", ["int"]), ("int", "size({{'a': 1 / {0}}})", ["int"]), ("map", "{{'a': [1 / {0}]}}", ["int"]), ("map", "{{1 / {0}: 2}}", ["int"]),
    ("int", "size([1 / {0}, 2])", ["int"]), ("bool", "(size({{'a': 1 / {0}, 'b': 2}}) == 2 || true)", ["int"]), ("bool", "({{'a': 1 / {0}}} == {{'a': 1}})", ["int"]),
    ("int", "{{'a': 1 / {0}, 'b': 7}}.b", ["int"]), ("bool", "('a' in {{'a': 1 / {0}}})", ["int"]), ("list<int>", "[{{'k': 1 / {0}}}].map(m, 1)", ["int"]),
    # an erroring body element at every position relative to the deciding / counted elements, for every macro
    ("bool", "[{0}, {1}, {2}].exists_one(x, 10 / x > 0)", ["int", "int", "int"]), ("bool", "[1, 1, {0}].exists_one(x, 1 / x > 0)", ["int"]),
    ("bool", "[{0}, 1, 1].exists_one(x, 1 / x > 0)", ["int"]), ("bool", "[{0}, {1}, {2}].all(x, 10 / x > 0)", ["int", "int", "int"]),
    ("bool", "[{0}, {1}, {2}].exists(x, 10 / x > 5)", ["int", "int", "int"]), ("list<int>", "[{0}, {1}, {2}].filter(x, 10 / x > 0)", ["int", "int", "int"]),
    ("list<int>", "[{0}, {1}, {2}].map(x, 10 / x)", ["int", "int", "int"]), ("bool", "[1, 1, {0}].exists_one(x, 1 / x > 0) || true", ["int"]),
    # literal spellings next to variables: suffix case, hex, exponent forms
    ("uint", "({0} + 5U)", ["uint"]), ("uint", "({0} + 0x1FU)", ["uint"]), ("bool", "({0} == 3U || {0} == 4u)", ["uint"]), ("int", "({0} + 0X1f)", ["int"]) if False else ("int", "({0} + 0x1F)", ["int"]),
    ("double", "({0} + 1e400)", ["double"]), ("double", "({0} * 4e-400)", ["double"]), ("bool", "({0} < 1e400)", ["double"]),
    ("double", "({0} + 1E2)", ["double"]), ("double", "({0} + 1e+2 + .5)", ["double"]), ("list<uint>" if False else "bool", "([1u, 2U][0] == {0})", ["uint"]),
]


# errors of every Python exception class that the runners map, placed inside every absorbing context
# ("an error of a particular Python exception class inside a short-circuit operand")
ERROR_EXPRS = [
    ("ZeroDivisionError", "1 / {0} > 0", ["int"]), ("ValueError-overflow", "{0} + 9223372036854775807 > 0", ["int"]),
    ("OverflowError", "int({0}) == 1", ["double"]), ("ValueError-range", "uint({0}) == 1u", ["int"]),
    ("KeyError", "m[{0}] == 1", ["string"]), ("IndexError", "li[{0}] == 1", ["int"]), ("TypeError", "({0} < 'a')", ["int"]),
    ("NameError", "nope == {0}", ["int"]), ("UnicodeDecodeError", "string({0}) == 'a'", ["bytes"]),
    ("ValueError-parse", "int({0}) == 1", ["string"]), ("KeyError-select", "{{'a': {0}}}.b == 1", ["int"]),
    ("macro-body", "[{0}].map(x, 1 / x)[0] == 1", ["int"]), ("duration-parse", "duration({0}) == duration('1s')", ["string"]),
    ("timestamp-parse", "timestamp({0}) == timestamp('2009-02-13T23:31:30Z')", ["string"]), ("re2", "{0}.matches('(')", ["string"]),
]
ABSORBING_CTX = ["({e}) || true", "true || ({e})", "({e}) && false", "false && ({e})", "true ? 7 : (({e}) ? 1 : 2)", "false ? (({e}) ? 1 : 2) : 7",
                 "[1, 2].exists(x, ({e}) || x == 2)", "[1, 2].all(x, ({e}) && x == 7)", "!(({e}) && false)", "({e}) || ({e}) || true",
                 "(({e}) ? true : false) || true", "b1 || ({e})", "({e}) && b1"]


def error_forms():
    for name, tpl, args in ERROR_EXPRS:
        e = tpl.format(*[LEAVES[a][0] for a in args])
        for ctx in ABSORBING_CTX:
            yield ("int" if ctx.startswith(("true ?", "false ?")) else "bool"), ctx.format(e=e), f"absorb[{name}]:{ctx}"


def form_id(tpl, args):
    """semantic name of a form: template with argument types, e.g. `(double + double)`"""
    try:
        return tpl.format(*args).replace("{{", "{").replace("}}", "}")
    except (IndexError, KeyError):
        return tpl


def skeletons(depth, limit_per_form=None):
    """yield (result type, source text) for every form with arguments filled by leaves (depth 1) or by depth-1
    expressions in one argument position at a time (depth 2)."""
    seen = set()
    d1 = {}
    for typ, tpl, args in FORMS + LITERAL_FORMS:
        choices = [LEAVES[a] for a in args]
        # distinct-variable-first: use first leaf for each position, then a second variant with the other leaves
        combos = [tuple(c[0] for c in choices)]
        if args:
            combos.append(tuple(c[min(1, len(c) - 1)] if i % 2 == 0 else c[0] for i, c in enumerate(choices)))
            combos.append(tuple(c[i % len(c)] for i, c in enumerate(choices)))
        for combo in combos:
            src = tpl.format(*combo)
            if src in seen:
                continue
            seen.add(src)
            d1.setdefault(typ, []).append(src)
            yield typ, src, form_id(tpl, args)
    for typ, src, fid in error_forms():
        if src not in seen:
            seen.add(src)
            yield typ, src, fid
    if depth < 2:
        return
    # depth 2: one argument replaced by a depth-1 expression of the same type (first two per type, rotating)
    rot = {t: itertools.cycle(v) for t, v in d1.items()}
    for typ, tpl, args in FORMS:
        for pos, a in enumerate(args):
            if a not in d1:
                continue
            for _ in range(2):
                inner = next(rot[a])
                filled = [LEAVES[x][0] for x in args]
                filled[pos] = inner
                src = tpl.format(*filled)
                if src in seen or len(src) > 90:
                    continue
                seen.add(src)
                yield typ, src, form_id(tpl, args)


def vars_in(src):
    import re
    names = set(re.findall(r"(?<![.'\w])[a-z]+[0-9]?\b(?!\()", src))
    return sorted(n for n in names if n in VARS)


# ----------------------------------------------------------------------------- ill-typed skeletons (C04)
KIND_LEAF = {"map2": "m2", "int": "i1", "uint": "u1", "double": "d1", "bool": "b1", "string": "s1", "bytes": "y1", "list": "li",
             "map": "m", "null": "n", "elist": "le", "estr": "s0", "type": "int"}
UNARY_CTX = ["-{0}", "!{0}", "size({0})", "{0}.size()", "{0}[0]", "{0}[-1]", "{0}.a", "has({0}.a)", "{0}['a']", "{0}[1u]", "{0}[true]",
             "{0}.map(x, x)", "{0}.filter(x, true)", "{0}.all(x, true)", "{0}.exists(x, x)", "{0}.exists_one(x, x == 1)",
             "{0}.map(x, x / 0)", "{0}.all(x, x / 0 > 0)", "{0}.contains('a')", "{0}.startsWith('a')", "{0}.endsWith(1)",
             "{0}.matches('(')", "{0}.matches('a')", "int({0})", "uint({0})", "double({0})", "string({0})", "bytes({0})", "bool({0})",
             "timestamp({0})", "duration({0})", "type({0})", "dyn({0})", "list({0})", "map({0})", "{0}.getHours()",
             "{0}.getDate('x')", "{0} ? 1 : 2", "true ? {0} : 1", "[{0}]", "{{{0}: 1}}", "{{'k': {0}}}", "{0}()", "{0}.nosuch()",
             "nosuch({0})", "{0}.reduce(r, i, 0, r + i)", "{0}.min()", "{0}{{}}", "{0}{{a: 1}}", "-(-{0})", "!(!{0})",
             "[{0}, {0}].map(x, x)[2]", "{0} in {0}", "({0}).{0}" if False else "[{0}].all(x, x > 0)"]
BINARY_OPS = ["+", "-", "*", "/", "%", "<", "<=", ">", ">=", "==", "!=", "in", "&&", "||"]
# constructs whose failure needs a particular *spelling*: an empty literal inside an erroring expression (the error's
# diagnostic rendering walks the source tree), macros and special forms with the wrong number of arguments, a bind
# variable that is not an identifier, identifiers that are words of the host language, selections on message literals
SPELLED_FORMS = [
    "li[d1]", "li[d1 / d2]", "li[-d1]", "li3[d1 * d2]", "m[d1]", "s1[d1]", "li[u1]", "li[b1]", "li[n]", "li[s1]", "li[li]", "[li][d1 / d2]", "li[double(i1) / 0.0]",
    "i1 + []", "[] + i1", "[[]] + i1", "{{}} + i1", "i1 + {{}}", "-[]", "[].a", "[][i1]", "{{}}[i1]", "{{}}.a", "[] < []", "i1 / i2 + [].a", "[[], i1 / i2][1]",
    "has()", "has({0})", "has({0}, {0})", "has({0}.a, {0}.b)", "dyn()", "dyn({0}, {0})", "size()", "size({0}, {0})", "type()", "type({0}, {0})", "int()", "int({0}, {0})",
    "{0}.map()", "{0}.map(x)", "{0}.map(x, x, x)", "{0}.map(x, y, z)", "{0}.all()", "{0}.all(x)", "{0}.all(x, true, true)", "{0}.exists()", "{0}.exists(x)",
    "{0}.exists_one()", "{0}.exists_one(x)", "{0}.filter()", "{0}.filter(x)", "{0}.filter(x, true, x)", "{0}.map(1, x)", "{0}.map(x.y, x)", "{0}.map('x', 1)",
    "{0}.all(1, true)", "{0}.filter([x], true)", "{0}.reduce(r, i)", "{0}.min(x)", "{0}.contains()", "{0}.contains({0}, {0})", "{0}.startsWith()", "{0}.size({0})",
    "{0}.matches()", "{0}.getHours({0}, {0})",
    "class", "lambda", "None", "True", "False", "def", "pass", "nonlocal", "async", "await", "yield", "del", "is", "not", "and", "or", "from", "with", "print", "exec",
    "class + {0}", "{0}.class", "{0}.lambda", "{0}.None", "class({0})", "{0}.lambda()", "lambda({0})", "None({0})", "{0}.map(class, class)", "{0}.map(None, None)",
    "{{'class': {0}}}.class", "has({0}.class)", "__import__", "__builtins__", "activation", "self", "base_activation", "CEL", "result", "{0}.map(activation, activation)",
    "google.protobuf.Struct{{a: {0}}}.b", "google.protobuf.Struct{{a: {0}}}.a", "google.protobuf.Struct{{}}", "google.protobuf.Value{{}}.a", "google.protobuf.Int64Value{{value: {0}}}",
    "google.protobuf.Int64Value{{value: {0}}}.value", "google.protobuf.ListValue{{}}[0]", "google.protobuf.NoSuch{{a: {0}}}", "NoSuch{{a: {0}}}.a", "has(google.protobuf.Struct{{a: {0}}}.b)",
]


def illtyped(tier):
    kinds = list(KIND_LEAF)
    seen = set()
    MAIN = ("int", "double", "string", "list", "map", "null")
    for ki, k in enumerate(kinds):
        for ci, ctx in enumerate(UNARY_CTX):
            if tier == "quick" and k not in MAIN and (ci + ki) % 4:
                continue  # quick: every context on 6 main kinds, a rotating quarter of the contexts on the other kinds
            src = ctx.format(KIND_LEAF[k])
            if src not in seen:
                seen.add(src)
                yield src
    from .gen_spelled import LITERAL_ESCAPES, MISFIT_CALLS, CONSTANT_ARGS, MESSAGE_LITERALS
    for src in LITERAL_ESCAPES + MISFIT_CALLS + CONSTANT_ARGS + MESSAGE_LITERALS:
        if src not in seen:
            seen.add(src)
            yield src
    for fi, form in enumerate(SPELLED_FORMS):
        for ki, k in enumerate(("int", "list", "map", "string", "null")):
            if "{0}" not in form and ki:
                break
            if tier == "quick" and ki and (fi + ki) % 3:
                continue  # quick: every form on the int leaf, a rotating third on the other kinds
            src = form.format(KIND_LEAF[k])
            if src not in seen:
                seen.add(src)
                yield src
    pairs = list(itertools.product(kinds, repeat=2))
    for op in BINARY_OPS:
        for a, b in pairs:
            if tier == "quick" and a != b and (kinds.index(a) * 5 + kinds.index(b) * 3 + BINARY_OPS.index(op)) % 12:
                continue  # quick: all same-kind pairs + a deterministic twelfth of the mixed pairs
            src = f"{KIND_LEAF[a]} {op} {KIND_LEAF[b]}"
            if src not in seen:
                seen.add(src)
                yield src
    # special values reachable only through data
    for src in ["m == m2", "m != m2", "[m] == [m2]", "m in [m2]", "{'k': m} == {'k': m2}", "(m == m2) || true", "mi == m", "m == {'a': 1, 'z': 2}",
                "int(d1 / d2)", "uint(d1 * d2)", "int(d1)", "uint(d1)", "li[i1]", "li3[i1 - i2]", "m[s1]", "mi[i1]", "i1 / i2 % i1",
                "string(i1) + s1", "[i1, i2][i1 % 2]", "{s1: i1, s2: i2}", "{i1: 1, i2: 2}[i1]", "{i1: 1, i2: 2}", "li.map(x, x / i1)",
                "li.exists(x, li[x] > 0)", "li3.filter(x, li3[x] > x)", "duration(string(i1) + 's')", "double(s1)", "int(s2)",
                "bytes(s1)[0]", "string(y1)", "string(y2)", "y1 + bytes(s1)", "b1 ? li[i1] : m[s1]", "[li, li3][i1][i2]",
                "type(i1) == type(u1)", "-i1 - i2", "-(i1 * i2)", "u1 - u2", "int(u1 + u2)", "uint(i1 * i2)", "d1 / d2 > 0.0 ? i1 / i2 : 0"]:
        if src not in seen:
            seen.add(src)
            yield src
