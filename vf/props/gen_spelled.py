"""Further spelled forms for the ill-typed generator (kept in their own file: they are mostly quoting)."""

# literal spellings whose decoding can fail: out-of-range and odd escapes in every quoting style.  Both runners must answer
# with a value or an evaluation error, also where the transpiler decodes the literal while building the program.
LITERAL_ESCAPES = [
    r"'\U00110000'", r"'\U0010FFFF' + s1", r'b"\400"', r'b"\777"', r'b"\377" + y1', r'b"\U0001F600"', r"b'é'", r"b'\U00000041'",
    r"'\ud800' + s1", r"'\udfff'", r'"\xff" + s1', r'b"\xff" + y1', r"'\400'", r"'\777' + s1", r"'''\U00110000'''", r'b"""\400"""',
    r"r'\U00110000' + s1", r"br'\400' + y1", r"'\U00000000'", r"b'\000'", r"size('\U0001F600')", r"size(b'\U0001F600')", r"'\U0001F600' == s1",
    r"b'\U0010FFFF'", r"'\UFFFFFFFF'", r"'\U80000000' + s1", r"'\UFFFFFFFF' == s1 || true", r"b'\UFFFFFFFF'", r"b'￿' + y1", r'"\U00110000" == s1 || true', r'false && b"\400" == y1',
]

# extension macros and accessors applied to operands they do not fit
MISFIT_CALLS = [
    "[i1, s1].min()", "[s1, i1].min()", "[i1, n].min()", "[li, i1].min()", "[d1, i1].min()", "[].min()", "[n].min()", "[i1, s1].reduce(r, i, 0, r + i)",
    "[i1, s1].reduce(r, i, s1, r + i)", "duration('1h').getHours('UTC')", "duration('1h').getMinutes(s1)", "duration('1h').getSeconds(i1)",
    "duration('1h').getMilliseconds(n)", "duration('1h').getHours(s1, s1)", "timestamp('2020-01-01T00:00:00Z').getHours(i1)",
    "timestamp('2020-01-01T00:00:00Z').getDate(n)", "timestamp('2020-01-01T00:00:00Z').getFullYear(s1, s1)", "timestamp('2020-01-01T00:00:00Z').getDayOfWeek(li)",
    "s1.getDate()", "i1.getHours()", "li.getFullYear()", "n.getMinutes()", "s1.getDate() == 1 || true", "duration(s1).getHours()", "timestamp(s1).getHours()",
    "timestamp(i1).getHours('x')", "s1.getDate() == 1 && false", "true ? 1 : s1.getDate()",
]
