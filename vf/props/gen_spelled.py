"""Further spelled forms for the ill-typed generator (kept in their own file: they are mostly quoting)."""

# literal spellings whose decoding can fail: out-of-range and odd escapes in every quoting style.  Both runners must answer
# with a value or an evaluation error, also where the transpiler decodes the literal while building the program.
LITERAL_ESCAPES = [
    r"'\U00110000'", r"'\U0010FFFF' + s1", r'b"\400"', r'b"\777"', r'b"\377" + y1', r'b"\U0001F600"', r"b'é'", r"b'\U00000041'",
    r"'\ud800' + s1", r"'\udfff'", r'"\xff" + s1', r'b"\xff" + y1', r"'\400'", r"'\777' + s1", r"'''\U00110000'''", r'b"""\400"""',
    r"r'\U00110000' + s1", r"br'\400' + y1", r"'\U00000000'", r"b'\000'", r"size('\U0001F600')", r"size(b'\U0001F600')", r"'\U0001F600' == s1",
    r"b'\U0010FFFF'", r"'\UFFFFFFFF'", r"'\U80000000' + s1", r"'\UFFFFFFFF' == s1 || true", r"b'\UFFFFFFFF'", r"b'￿' + y1", r'"\U00110000" == s1 || true', r'false && b"\400" == y1',
]

# extension macros and accessors applied to operands they do not fit
MISFIT_CALLS = [
    "[i1, s1].min()", "[s1, i1].min()", "[i1, n].min()", "[li, i1].min()", "[d1, i1].min()", "[].min()", "[n].min()", "[i1, s1].reduce(r, i, 0, r + i)",
    "[i1, s1].reduce(r, i, s1, r + i)", "duration('1h').getHours('UTC')", "duration('1h').getMinutes(s1)", "duration('1h').getSeconds(i1)",
    "duration('1h').getMilliseconds(n)", "duration('1h').getHours(s1, s1)", "timestamp('2020-01-01T00:00:00Z').getHours(i1)",
    "timestamp('2020-01-01T00:00:00Z').getDate(n)", "timestamp('2020-01-01T00:00:00Z').getFullYear(s1, s1)", "timestamp('2020-01-01T00:00:00Z').getDayOfWeek(li)",
    "s1.getDate()", "i1.getHours()", "li.getFullYear()", "n.getMinutes()", "s1.getDate() == 1 || true", "duration(s1).getHours()", "timestamp(s1).getHours()",
    "timestamp(i1).getHours('x')", "s1.getDate() == 1 && false", "true ? 1 : s1.getDate()",
]

# built-ins given *constant* arguments that a fast path could pre-process while the program is built (regular expressions, zone
# names, conversions of literals), and zone names that are not zones (directories and odd entries of the tz database, empty, paths)
CONSTANT_ARGS = [
    # integer spellings the grammar may or may not accept (a parse error is fine; any other exception is not)
    "0X1F", "-0X10", "0Xffu", "0XFFu + u1", "0x1F + i1", "0xffU", "0x0", "-0x0", "0x7FFFFFFFFFFFFFFF + i1", "0x8000000000000000", "-0x8000000000000000", "0xFFFFFFFFFFFFFFFFu", "0x10000000000000000u",
    "0b101", "0o17", "1_000", "1e3u", "1.5u", "00x1", "0x", "0xg", "1u2",
    r"s1.matches('\ud800')", r"matches(s1, '\ud800')", r"s1.matches('\udfff' + '')", "s1.matches('(')", "s1.matches('[a-')", "matches(s1, '*')", r"s1.matches('\\')",
    r"s1.matches('\x00')", "s1.matches('(?P<n>a)(?P<n>b)')", "s1.matches('a{2,1}')", r"'\ud800'.matches(s1)", r"s1.matches('\ud800') || true", r"false && s1.matches('(')",
    r"s1.contains('\ud800')", r"s1.startsWith('\udc00')", r"s1.endsWith('\ud800')", r"size('\ud800') == i1", r"bytes('\ud800')", r"string(b'\xff')", r"int('\ud800')", r"double('\ud800')",
    "int('1e3')", "int('')", "uint('-0')", "double('')", "double('1_0')", "int('١٢')", "timestamp('')", "duration('')", "duration('s')", "duration('1')", "timestamp('2020-13-01T00:00:00Z')",
    "timestamp('2020-01-01T00:00:00Z').getHours('America')", "timestamp('2020-01-01T00:00:00Z').getHours('')", "timestamp('2020-01-01T00:00:00Z').getHours('posix')",
    "timestamp('2020-01-01T00:00:00Z').getHours('..')", "timestamp('2020-01-01T00:00:00Z').getHours('/etc/passwd')", "timestamp('2020-01-01T00:00:00Z').getDate('Etc')",
    "timestamp('2020-01-01T00:00:00Z').getDate('zone.tab')", "timestamp('2020-01-01T00:00:00Z').getMinutes('+25:00')", "timestamp('2020-01-01T00:00:00Z').getMinutes('-00:60')",
    "timestamp('2020-01-01T00:00:00Z').getDayOfYear('America/')", "timestamp('2020-01-01T00:00:00Z').getFullYear('US')", "timestamp('2020-01-01T00:00:00Z').getSeconds('UTC ')",
    "timestamp('2020-01-01T00:00:00Z').getHours('America') == 1 || true", r"timestamp('2020-01-01T00:00:00Z').getHours('\x00')",
]

# protobuf-style message literals on names that are not messages, with duplicate or odd fields, and conversions applied to them
MESSAGE_LITERALS = [
    "Foo{a: 1, a: 2}", "Foo{a: 1}", "Foo{}", "i1{a: 1}", "s1{}", "google.protobuf.Struct{a: 1, a: 2}", "int(google.protobuf.Struct{a: 1})", "string(google.protobuf.Struct{a: 1})",
    "google.protobuf.Int32Value{value: s1}", "google.protobuf.Int32Value{nope: 1}", "google.protobuf.Int32Value{value: 1, value: 2}", "google.protobuf.StringValue{value: i1}",
    "google.protobuf.BoolValue{value: 1}", "google.protobuf.Duration{seconds: s1}", "google.protobuf.Timestamp{seconds: s1}", "google.protobuf.Value{}", "google.protobuf.ListValue{values: i1}",
    "google.protobuf.Struct{a: 1}.a", "google.protobuf.Struct{a: 1} == google.protobuf.Struct{a: 1}", "size(google.protobuf.Struct{a: 1})", "Foo{a: 1, a: 2} == 1 || true",
    "google.protobuf.Any{}", "dyn(Foo{a: 1})", "type(Foo{a: 1})", "has(Foo{a: 1}.a)", "Foo{a: 1}.a", "[Foo{a: 1}]", "{1: Foo{a: 1}}",
]
