"""Common machinery for skeleton-based properties (C03, C04, C13): symbolic bindings, result summaries."""
import re

import z3

from ..refsem import fp_same
from ..sym.core import SBool, SInt, SFloat, tm, ft, is_sym, f_is_sym, bool_term
from ..sym.strs import cterms, bterms, s_is_sym, b_is_sym
from . import common, values as V, gen


def bindings_for(src, extra_vars=()):
    names = sorted(set(gen.vars_in(src)) | set(extra_vars))
    vars, pre = {}, []
    for n in names:
        v, p = V.shape_vars(gen.VARS[n], n)
        vars.update(v)
        pre += p

    def build(vals):
        return {n: V.build(gen.VARS[n], n, vals) for n in names}

    def to_json(vals):
        return {n: V.to_json(gen.VARS[n], n, vals) for n in names}

    return names, vars, pre, build, to_json


LABELS = ["has", "exists_one", "exists", "all", "map", "filter", "reduce", "min", "matches", "contains", "startsWith", "endsWith",
          "size", "type", "dyn", "timestamp", "duration", "string", "bytes", "double", "uint", "int", "bool", "list"]


def label(src):
    """semantic name of the outermost construct of a generated skeleton"""
    s = src.strip()
    depth = 0
    # strip one pair of enclosing parens
    if s.startswith("(") and s.endswith(")"):
        d, ok = 0, True
        for i, ch in enumerate(s):
            d += ch == "("
            d -= ch == ")"
            if d == 0 and i < len(s) - 1:
                ok = False
                break
        if ok:
            s = s[1:-1].strip()
    # top-level binary / ternary operator
    d = 0
    tops = []
    i = 0
    while i < len(s):
        ch = s[i]
        if ch in "([{":
            d += 1
        elif ch in ")]}":
            d -= 1
        elif d == 0:
            for op in ("&&", "||", "==", "!=", "<=", ">=", " in ", "?", "<", ">", "+", "-", "*", "/", "%"):
                if s.startswith(op, i) and i > 0:
                    tops.append(op.strip())
                    i += len(op) - 1
                    break
        i += 1
    for op in ("?", "||", "&&", "==", "!=", "<=", ">=", "<", ">", "in", "+", "-", "*", "/", "%"):
        if op in tops:
            return {"?": "cond", "||": "or", "&&": "and"}.get(op, f"_{op}_")
    m = re.match(r"^([!-])", s)
    if m:
        return {"!": "not", "-": "neg"}[m.group(1)] + "(" + label(s[1:]) + ")"
    m = re.search(r"\.([A-Za-z_]+)\([^()]*(\([^()]*\)[^()]*)*\)$", s)
    if m:
        return m.group(1)
    m = re.match(r"^([A-Za-z_]+)\(", s)
    if m:
        return m.group(1)
    if s.endswith("]"):
        return "index"
    if s.startswith("["):
        return "list-literal"
    if s.startswith("{"):
        return "map-literal"
    if re.match(r"^[a-z0-9]+\.[a-z]+$", s):
        return "select"
    return "expr"


def equal_term(a, b):
    """z3 Bool: two results denote the same CEL value (None if not comparable structurally -> treated as different)"""
    celpy, ct, ev = common.mods()
    if a is None or b is None:
        return z3.BoolVal(a is None and b is None)
    if isinstance(a, type) or isinstance(b, type):
        return z3.BoolVal(a is b)
    if isinstance(a, SBool) or isinstance(b, SBool) or isinstance(a, bool) or isinstance(b, bool) \
            or isinstance(a, ct.BoolType) or isinstance(b, ct.BoolType):
        if not isinstance(a, (SBool, int)) or not isinstance(b, (SBool, int)):
            return z3.BoolVal(False)
        return bool_term(a) == bool_term(b)
    if isinstance(a, float) or isinstance(b, float):
        if not (isinstance(a, float) and isinstance(b, float)):
            return z3.BoolVal(False)
        return fp_same(ft(a), ft(b))
    if isinstance(a, int) and isinstance(b, int):
        return tm(a) == tm(b)
    if isinstance(a, str) and isinstance(b, str):
        ta, tb = cterms(a), cterms(b)
        if len(ta) != len(tb):
            return z3.BoolVal(False)
        return z3.And([x == y for x, y in zip(ta, tb)]) if ta else z3.BoolVal(True)
    if isinstance(a, bytes) and isinstance(b, bytes):
        ta, tb = bterms(a), bterms(b)
        if len(ta) != len(tb):
            return z3.BoolVal(False)
        return z3.And([x == y for x, y in zip(ta, tb)]) if ta else z3.BoolVal(True)
    if isinstance(a, list) and isinstance(b, list):
        la, lb = list(list.__iter__(a)), list(list.__iter__(b))
        if len(la) != len(lb):
            return z3.BoolVal(False)
        parts = [equal_term(x, y) for x, y in zip(la, lb)]
        return z3.And(parts) if parts else z3.BoolVal(True)
    if isinstance(a, dict) and isinstance(b, dict):
        ia, ib = list(dict.items(a)), list(dict.items(b))
        if len(ia) != len(ib):
            return z3.BoolVal(False)
        # same construction order in both runners is not required: match keys by term equality
        parts = []
        for ka, va in ia:
            alts = [z3.And(equal_term(_unw(ka), _unw(kb)), equal_term(va, vb)) for kb, vb in ib]
            parts.append(z3.Or(alts) if alts else z3.BoolVal(False))
        return z3.And(parts) if parts else z3.BoolVal(True)
    try:
        return z3.BoolVal(bool(a == b))
    except Exception:  # noqa: BLE001
        return z3.BoolVal(False)


def _unw(k):
    return getattr(k, "k", k) if type(k).__name__ == "_NoPin" else k


def render_error(e):
    """str()/repr() of an evaluation error must not raise"""
    try:
        str(e)
        repr(e)
        return None
    except Exception as ex:  # noqa: BLE001
        return f"{type(ex).__name__}: {ex}"
