"""Shaped symbolic CEL values: a *shape* fixes kinds and lengths (enumerated), the data inside is symbolic.

shape := ("int",) | ("uint",) | ("double",) | ("bool",) | ("string", n) | ("bytes", n)
       | ("list", [shape, ...]) | ("map", [(key_json, shape), ...]) | ("null",) | ("const", json_value)
key_json / const use the witness JSON encoding of vf.oracles.values (e.g. {"t": "string", "v": "k"}).
"""
import z3

from ..refsem import MIN64, MAX64, MAXU64
from ..sym import core
from ..sym.core import SInt, SFloat, mk, mkf
from ..sym.strs import SStr, SBytes, mks, mkb
from . import common
from ..replay import enc


def shape_vars(shape, p):
    """(vars: name->z3 var, pre: [z3 Bool]) for a shape with name prefix p"""
    k = shape[0]
    if k == "int":
        v = z3.Int(p)
        return {p: v}, [v >= MIN64, v <= MAX64]
    if k == "uint":
        v = z3.Int(p)
        return {p: v}, [v >= 0, v <= MAXU64]
    if k == "bool":
        v = z3.Int(p)
        return {p: v}, [v >= 0, v <= 1]
    if k == "double":
        v = z3.FP(p, core.F64)
        return {p: v}, []
    if k == "string":
        vs, pre = {}, []
        for i in range(shape[1]):
            v = z3.Int(f"{p}_c{i}")
            vs[f"{p}_c{i}"] = v
            pre += [v >= 0, v <= 0x10FFFF, z3.Not(z3.And(v >= 0xD800, v <= 0xDFFF))]
        return vs, pre
    if k == "bytes":
        vs, pre = {}, []
        for i in range(shape[1]):
            v = z3.Int(f"{p}_b{i}")
            vs[f"{p}_b{i}"] = v
            pre += [v >= 0, v <= 255]
        return vs, pre
    if k == "list":
        vs, pre = {}, []
        for i, s in enumerate(shape[1]):
            a, b = shape_vars(s, f"{p}_{i}")
            vs.update(a)
            pre += b
        return vs, pre
    if k == "map":
        vs, pre = {}, []
        for i, (_, s) in enumerate(shape[1]):
            a, b = shape_vars(s, f"{p}_v{i}")
            vs.update(a)
            pre += b
        return vs, pre
    if k == "timestamp":
        # every UTC instant of 0001..9999 at microsecond resolution, displayed at every whole-minute offset (time model: vf/sym/times.py)
        from ..sym import times as T
        e, o = z3.Int(f"{p}_e"), z3.Int(f"{p}_o")
        return {f"{p}_e": e, f"{p}_o": o}, [e >= T.MIN_L, e <= T.MAX_L, o >= -840, o <= 840, e + o * 60 * T.US >= T.MIN_L, e + o * 60 * T.US <= T.MAX_L]
    if k == "duration":
        from ..sym import times as T
        d = z3.Int(p)
        return {p: d}, [d >= -315576000000 * T.US, d <= 315576000000 * T.US]
    if k in ("null", "const"):
        return {}, []
    raise ValueError(shape)


def _const_value(j):
    celpy, ct, ev = common.mods()
    t = j["t"]
    if t == "int":
        return ct.IntType(j["v"])
    if t == "uint":
        return ct.UintType(j["v"])
    if t == "bool":
        return ct.BoolType(j["v"])
    if t == "string":
        return ct.StringType(j["v"])
    if t == "double":
        from ..replay import dec
        return ct.DoubleType(dec(j["v"]))
    if t == "bytes":
        return ct.BytesType(bytes(j["v"]))
    if t == "null":
        return None
    if t == "list":
        return ct.ListType([_const_value(x) for x in j["v"]])
    if t == "map":
        return ct.MapType({_const_value(k): _const_value(v) for k, v in j["v"]})
    if t == "timestamp":
        import datetime
        tz = datetime.timezone(datetime.timedelta(minutes=j.get("off", 0)))
        dt = (datetime.datetime.fromtimestamp(0, datetime.timezone.utc) + datetime.timedelta(microseconds=j["us"])).astimezone(tz)
        if j.get("text"):
            # built from its RFC 3339 text (the library parses the written offset), not from a datetime object
            return ct.TimestampType(ct.StringType(dt.isoformat()))
        return ct.TimestampType(dt)
    if t == "duration":
        import datetime
        if "text" in j:
            return ct.DurationType(ct.StringType(j["text"]))  # built from its text (units down to ns)
        return ct.DurationType(datetime.timedelta(microseconds=j["us"]))
    raise ValueError(j)


def build(shape, p, vals):
    """symbolic CEL value of the given shape (data = z3 variables named by prefix p, concrete part from vals)"""
    celpy, ct, ev = common.mods()
    k = shape[0]
    if k == "int":
        return ct.IntType(mk(SInt, z3.Int(p), vals[p]))
    if k == "uint":
        return ct.UintType(mk(SInt, z3.Int(p), vals[p]))
    if k == "bool":
        return ct.BoolType(mk(SInt, z3.Int(p), vals[p]))
    if k == "double":
        return ct.DoubleType(mkf(SFloat, z3.FP(p, core.F64), vals[p]))
    if k == "string":
        names = [f"{p}_c{i}" for i in range(shape[1])]
        return ct.StringType(mks(SStr, [z3.Int(n) for n in names], "".join(chr(vals[n]) for n in names)))
    if k == "bytes":
        names = [f"{p}_b{i}" for i in range(shape[1])]
        return ct.BytesType(mkb(SBytes, [z3.Int(n) for n in names], bytes(vals[n] for n in names)))
    if k == "list":
        return ct.ListType([build(s, f"{p}_{i}", vals) for i, s in enumerate(shape[1])])
    if k == "map":
        return ct.MapType({_const_value(kj): build(s, f"{p}_v{i}", vals) for i, (kj, s) in enumerate(shape[1])})
    if k == "timestamp":
        from ..sym import times as T
        return ct.TimestampType(T.make_datetime(mk(SInt, z3.Int(f"{p}_e"), vals[f"{p}_e"]), mk(SInt, z3.Int(f"{p}_o"), vals[f"{p}_o"])))
    if k == "duration":
        from ..sym import times as T
        return ct.DurationType(T.make_timedelta(mk(SInt, z3.Int(p), vals[p])))
    if k == "null":
        return None
    if k == "const":
        return _const_value(shape[1])
    raise ValueError(shape)


def to_json(shape, p, vals):
    """witness encoding (see vf.oracles.values.from_json)"""
    k = shape[0]
    if k in ("int", "uint"):
        return {"t": k, "v": enc(vals[p])}
    if k == "bool":
        return {"t": "bool", "v": bool(vals[p])}
    if k == "double":
        return {"t": "double", "v": enc(float(vals[p]))}
    if k == "string":
        return {"t": "string", "v": [vals[f"{p}_c{i}"] for i in range(shape[1])]}
    if k == "bytes":
        return {"t": "bytes", "v": [vals[f"{p}_b{i}"] for i in range(shape[1])]}
    if k == "list":
        return {"t": "list", "v": [to_json(s, f"{p}_{i}", vals) for i, s in enumerate(shape[1])]}
    if k == "map":
        return {"t": "map", "v": [[kj, to_json(s, f"{p}_v{i}", vals)] for i, (kj, s) in enumerate(shape[1])]}
    if k == "timestamp":
        return {"t": "timestamp", "us": enc(vals[f"{p}_e"]), "off": vals[f"{p}_o"]}
    if k == "duration":
        return {"t": "duration", "us": enc(vals[p])}
    if k == "null":
        return {"t": "null"}
    if k == "const":
        return shape[1]
    raise ValueError(shape)


def cel_type(shape):
    k = shape[0]
    if k == "const":
        return shape[1]["t"]
    return k


# ----------------------------------------------------------------------------- reference relations (z3 terms)
def _terms(shape, p):
    k = shape[0]
    if k == "string":
        return [z3.Int(f"{p}_c{i}") for i in range(shape[1])]
    if k == "bytes":
        return [z3.Int(f"{p}_b{i}") for i in range(shape[1])]
    if k == "const" and shape[1]["t"] == "string":
        v = shape[1]["v"]
        return [z3.IntVal(c if isinstance(c, int) else ord(c)) for c in v]
    raise ValueError(shape)


def _const_scalar_term(j):
    t = j["t"]
    if t in ("int", "uint"):
        from ..replay import dec
        return z3.IntVal(dec(j["v"]))
    if t == "bool":
        return z3.IntVal(1 if j["v"] else 0)
    if t == "double":
        from ..replay import dec
        return core.fp_val(dec(j["v"]))
    raise ValueError(j)


def scalar_term(shape, p):
    k = shape[0]
    if k in ("int", "uint", "bool"):
        return z3.Int(p)
    if k == "double":
        return z3.FP(p, core.F64)
    if k == "const":
        return _const_scalar_term(shape[1])
    raise ValueError(shape)


def _text_duration(shape):
    return shape[0] == "const" and shape[1]["t"] == "duration" and "text" in shape[1]


def _time_term(shape, p):
    """UTC instant / length in microseconds"""
    if shape[0] == "const":
        return z3.IntVal(shape[1]["us"])
    return z3.Int(f"{p}_e") if shape[0] == "timestamp" else z3.Int(p)


def ref_eq(sa, pa, sb, pb):
    """CEL equality of two same-type shaped values as a z3 Bool (None if the shapes are of different CEL types)"""
    ka, kb = cel_type(sa), cel_type(sb)
    if ka != kb:
        return None
    if ka in ("int", "uint", "bool"):
        return scalar_term(sa, pa) == scalar_term(sb, pb)
    if ka == "double":
        return z3.fpEQ(scalar_term(sa, pa), scalar_term(sb, pb))
    if ka in ("string", "bytes"):
        ta, tb = _terms(sa, pa), _terms(sb, pb)
        if len(ta) != len(tb):
            return z3.BoolVal(False)
        return z3.And([x == y for x, y in zip(ta, tb)]) if ta else z3.BoolVal(True)
    if ka == "null":
        return z3.BoolVal(True)
    if ka in ("timestamp", "duration"):
        if _text_duration(sa) or _text_duration(sb):
            return None  # text-built durations below the microsecond: only the laws are asserted, no reference value
        return _time_term(sa, pa) == _time_term(sb, pb)  # same instant whatever the written offset / same length
    if ka == "list":
        if len(sa[1]) != len(sb[1]):
            return z3.BoolVal(False)
        parts = []
        for i, (x, y) in enumerate(zip(sa[1], sb[1])):
            e = ref_eq(x, f"{pa}_{i}", y, f"{pb}_{i}")
            if e is None:
                return None  # heterogeneous element types: not a same-type comparison, nothing asserted
            parts.append(e)
        return z3.And(parts) if parts else z3.BoolVal(True)
    if ka == "map":
        ka_ = [str(k) for k, _ in sa[1]]
        kb_ = [str(k) for k, _ in sb[1]]
        if sorted(ka_) != sorted(kb_):
            return z3.BoolVal(False)
        parts = []
        for i, (kj, s) in enumerate(sa[1]):
            j = kb_.index(str(kj))
            e = ref_eq(s, f"{pa}_v{i}", sb[1][j][1], f"{pb}_v{j}")
            if e is None:
                return None
            parts.append(e)
        return z3.And(parts) if parts else z3.BoolVal(True)
    raise ValueError((sa, sb))


def ref_lt(sa, pa, sb, pb):
    """strict order for the ordered scalar types; None when the type has no order"""
    ka, kb = cel_type(sa), cel_type(sb)
    if ka != kb:
        return None
    if ka in ("int", "uint", "bool"):
        return scalar_term(sa, pa) < scalar_term(sb, pb)
    if ka == "double":
        return z3.fpLT(scalar_term(sa, pa), scalar_term(sb, pb))
    if ka in ("string", "bytes"):
        from ..sym.strs import lt_term
        return lt_term(_terms(sa, pa), _terms(sb, pb), True)
    if ka in ("timestamp", "duration"):
        if _text_duration(sa) or _text_duration(sb):
            return None
        return _time_term(sa, pa) < _time_term(sb, pb)
    return None


def not_nan(shape, p):
    """precondition: no NaN anywhere inside the value"""
    k = shape[0]
    if k == "double":
        return [z3.Not(z3.fpIsNaN(z3.FP(p, core.F64)))]
    if k == "list":
        out = []
        for i, s in enumerate(shape[1]):
            out += not_nan(s, f"{p}_{i}")
        return out
    if k == "map":
        out = []
        for i, (_, s) in enumerate(shape[1]):
            out += not_nan(s, f"{p}_v{i}")
        return out
    return []
