"""Reference semantics as z3 terms, written from the CEL language definition and the property statements
(independent of the repository's code)."""
import z3

from .sym.core import F64, RNE, RTZ, fp_val

MIN64, MAX64, MAXU64 = -(2**63), 2**63 - 1, 2**64 - 1


def zabs(x):
    return z3.If(x < 0, -x, x)


def int_op(op, a, b, lo, hi):
    """(error_condition, exact_value) for CEL integer arithmetic on [lo, hi]"""
    F = z3.BoolVal(False)
    if op == "add":
        v, err = a + b, F
    elif op == "sub":
        v, err = a - b, F
    elif op == "mul":
        v, err = a * b, F
    elif op == "div":  # truncation toward zero
        q = zabs(a) / z3.If(b == 0, z3.IntVal(1), zabs(b))
        v, err = z3.If((a < 0) != (b < 0), -q, q), b == 0
    elif op == "mod":  # sign of the dividend
        r = zabs(a) % z3.If(b == 0, z3.IntVal(1), zabs(b))
        v, err = z3.If(a < 0, -r, r), b == 0
    elif op == "neg":
        v, err = -a, F
    else:
        raise ValueError(op)
    return z3.Or(err, v < lo, v > hi), v


def fp_same(a, b):
    """same IEEE value: both NaN, or identical bits (distinguishes +0/-0)"""
    return z3.Or(z3.And(z3.fpIsNaN(a), z3.fpIsNaN(b)), a == b)


def fp_op(op, a, b=None):
    if op == "add":
        return z3.fpAdd(RNE, a, b)
    if op == "sub":
        return z3.fpSub(RNE, a, b)
    if op == "mul":
        return z3.fpMul(RNE, a, b)
    if op == "div":
        return z3.fpDiv(RNE, a, b)
    if op == "neg":
        return z3.fpNeg(a)
    raise ValueError(op)


def in_range(v, lo, hi):
    return z3.And(v >= lo, v <= hi)
