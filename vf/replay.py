"""Clean-interpreter replay: runs the *real, un-shadowed* repository code on concrete witnesses.

Usage: /venv/bin/python -m vf.replay <witness.json | --batch file.json>
No z3, no shadow loader.  A witness is {"check": "cNN.name", "args": {...}}; the named concrete oracle
returns (ok, detail): ok == False means the property is violated by the real code on this input.
Exit status: 0 property holds on the witness, 1 violated, 3 oracle/harness problem.
"""
import importlib
import json
import logging
import os
import sys

REPO = os.environ.get("VERIF_REPO", "/repo")


def dec(v):
    """decode JSON-safe encodings of floats / big ints / bytes"""
    if isinstance(v, dict):
        if set(v) == {"float"}:
            f = v["float"]
            return float(f) if f in ("nan", "inf", "-inf") else float.fromhex(f)
        if set(v) == {"int"}:
            return int(v["int"])
        if set(v) == {"bytes"}:
            return bytes(v["bytes"])
        return {k: dec(x) for k, x in v.items()}
    if isinstance(v, list):
        return [dec(x) for x in v]
    return v


def enc(v):
    if isinstance(v, bool) or v is None or isinstance(v, str):
        return v
    if isinstance(v, float):
        if v != v:
            return {"float": "nan"}
        if v in (float("inf"), float("-inf")):
            return {"float": "inf" if v > 0 else "-inf"}
        return {"float": v.hex()}
    if isinstance(v, int):
        return int(v) if abs(v) < 2**53 else {"int": str(int(v))}
    if isinstance(v, (bytes, bytearray)):
        return {"bytes": list(v)}
    if isinstance(v, dict):
        return {str(k): enc(x) for k, x in v.items()}
    if isinstance(v, (list, tuple)):
        return [enc(x) for x in v]
    return repr(v)


def run_one(w):
    if w.get("check") == "__sequence__":
        # the steps in one process, in order: the last one must still satisfy its oracle (history independence)
        steps = w["args"]["steps"]
        last = None
        for i, st in enumerate(steps):
            last = run_one(st)
            if last["ok"] is not True and i < len(steps) - 1:
                return {"ok": None, "detail": f"sequence step {i} does not hold on its own: {last['detail'][:300]}"}
        if last["ok"] is False:
            last["detail"] = "after an earlier evaluation in the same process: " + last["detail"]
        return last
    mod, fn = w["check"].split(".", 1)
    m = importlib.import_module(f"vf.oracles.{mod}")
    f = getattr(m, fn)
    try:
        ok, detail = f(**dec(w["args"]))
    except Exception as ex:  # oracle itself failed: a harness problem, never a verdict
        import traceback
        return {"ok": None, "detail": f"oracle error {type(ex).__name__}: {ex}\n{traceback.format_exc()[-800:]}"}
    return {"ok": bool(ok), "detail": str(detail)[:600]}


def main(argv):
    src = os.path.join(REPO, "src")
    if src not in sys.path:
        sys.path.insert(0, src)
    here = os.path.dirname(os.path.dirname(os.path.abspath(__file__)))
    if here not in sys.path:
        sys.path.insert(1, here)
    logging.disable(logging.CRITICAL)
    if argv and argv[0] == "--batch":
        ws = json.load(open(argv[1]))
        out = [run_one(w) for w in ws]
        json.dump(out, open(argv[2], "w"))
        return 0
    w = json.load(open(argv[0]))
    if "witness" in w:
        w = w["witness"]
    r = run_one(w)
    print(json.dumps(r, indent=1))
    if r["ok"] is None:
        return 3
    if r["ok"]:
        print("REPLAY: property holds on this witness")
        return 0
    print("REPLAY: VIOLATION reproduced on the real code")
    return 1


if __name__ == "__main__":
    sys.exit(main(sys.argv[1:]))
