"""E3 sched, step 1: shared-state access events of each thread's workload, read off the real byte-code.

Each workload (vf.oracles.c16.workload: own Environment, own program, k evaluations) runs ALONE, from the scenario's
initial state, with LINE and INSTRUCTION events switched on (sys.monitoring, the 3.12 layer underneath sys.settrace /
f_trace_opcodes; used directly because it can be limited to celpy code objects).  Every line event of $VERIF_REPO/src/celpy/* or of exec-ed
"<string>" code opens a *step* (the unit a forced replay can delay); every executed instruction that reads or writes a
namespace is attributed to the thread's most recent step, so a store that happens after a nested call returns belongs
to the step in which it really executes.  Namespaces are identified by object identity:
  STORE/LOAD/DELETE_GLOBAL, STORE/LOAD/DELETE_NAME   -> frame.f_globals (or the class-body locals)
  STORE/BINARY/DELETE_SUBSCR with a constant key     -> the dict the container expression denotes (e.g. a module __dict__)
  STORE/LOAD/DELETE_ATTR                             -> the module dict / class (owner in the MRO) / instance denoted
where the container / receiver is a chain `name(.attr)*` resolved against the live frame without running any code.
A location is kept only if some thread writes it and another thread touches it, so a private dict (fresh identity per
evaluation) or an object owned by one thread's Environment produces no event at all.

Containers: a method call on a resolved dict / list / set (setdefault, update, pop, append, add, get, ...), `in`, and
subscript loads/stores/deletes are R / W events on (container identity, key) - key = the constant or `name(.attr)*`
first argument / subscript when it can be read, else "*" (which coarsens the whole container to one location).
Objects found, at the end of a solo run, stored at an accessed location at most two hops from a module global or a
class attribute (e.g. the dict cached in a class-level table) are named by that location instead of by identity, so the
objects two solo runs each put there are one namespace, as they would be in a concurrent run.

Process-wide interpreter state behind accessor functions (sys.set/getrecursionlimit, sys.set/getswitchinterval,
decimal.setcontext/getcontext/localcontext, locale.setlocale) is a pseudo location `interpreter::<name>` of the one
namespace oracle.INTERPRETER: loading the accessor (LOAD_ATTR on the resolved module, or a global bound to the very
function) is the W / R event (the call follows on the same line).  The interpreter's own, implicit reads of the recursion
limit (on every call) are not byte-code; they are represented by one synthetic R per stretch between two explicit
accesses of a thread, placed at that stretch's deepest stack point - where the limit binds.
"""
import builtins
import collections
import dis
import hashlib
import os
import sys
import types

from ..oracles import c16 as oracle

MISSING = object()
GLOBAL_OPS = {"STORE_GLOBAL": "W", "DELETE_GLOBAL": "W", "LOAD_GLOBAL": "R"}
NAME_OPS = {"STORE_NAME": "W", "DELETE_NAME": "W", "LOAD_NAME": "R"}
ATTR_OPS = {"STORE_ATTR": "W", "DELETE_ATTR": "W", "LOAD_ATTR": "R"}
SUBSCR_OPS = {"STORE_SUBSCR": "W", "DELETE_SUBSCR": "W", "BINARY_SUBSCR": "R"}
SIMPLE = {"LOAD_FAST", "LOAD_FAST_CHECK", "LOAD_DEREF", "LOAD_GLOBAL", "LOAD_NAME", "LOAD_CONST"}
_tables = {}
_accessors = {}
KEYED = {"get": "R", "setdefault": "RW", "pop": "RW", "__getitem__": "R", "__contains__": "R", "__setitem__": "W", "__delitem__": "W"}
WHOLE = {dict: {"update": "W", "clear": "W", "popitem": "RW", "keys": "R", "values": "R", "items": "R", "copy": "R"},
         list: {m: "W" for m in ("append", "extend", "insert", "remove", "pop", "clear", "sort", "reverse")} | {"index": "R", "count": "R", "copy": "R"},
         set: {m: "W" for m in ("add", "discard", "remove", "pop", "clear", "update", "difference_update", "intersection_update",
                                 "symmetric_difference_update")} | {"copy": "R", "issubset": "R", "issuperset": "R", "union": "R"}}
CONTAINERS = (dict, list, set)
HOPS = 2        # objects up to this many stores away from a module global / class attribute are named by location


def short(name):
    if not isinstance(name, (str, int, float, bool, bytes, type(None))):
        return f"<{type(name).__name__}>"          # never an address: labels must agree across threads and runs
    name = " ".join(str(name).split())
    return name if len(name) <= 32 else f"{name[:20]}..#{hashlib.sha1(name.encode()).hexdigest()[:8]}"


def accessors():
    """accessor function object -> [(kind, pseudo location name)]"""
    if not _accessors:
        import decimal
        import locale
        _accessors.update({
            sys.setrecursionlimit: [("W", "recursionlimit")], sys.getrecursionlimit: [("R", "recursionlimit")],
            sys.setswitchinterval: [("W", "switchinterval")], sys.getswitchinterval: [("R", "switchinterval")],
            decimal.setcontext: [("W", "decimalcontext")], decimal.getcontext: [("R", "decimalcontext")],
            decimal.localcontext: [("R", "decimalcontext"), ("W", "decimalcontext")],
            locale.setlocale: [("R", "locale"), ("W", "locale")]})
    return _accessors


def table(code):
    t = _tables.get(code)
    if t is None:
        ins = list(dis.get_instructions(code))
        t = _tables[code] = (ins, {i.offset: k for k, i in enumerate(ins)})
    return t


def static_attr(obj, name):
    """(namespace object, value) of `obj.name` by plain dictionary lookups; (None, MISSING) when a hook would run"""
    if isinstance(obj, types.ModuleType):
        return obj.__dict__, obj.__dict__.get(name, MISSING)
    if isinstance(obj, type):
        if type(obj).__getattribute__ is not type.__getattribute__:
            return None, MISSING
        for c in obj.__mro__:
            if name in c.__dict__:
                v = c.__dict__[name]
                return c, (MISSING if hasattr(type(v), "__get__") and not isinstance(v, types.FunctionType) else v)
        return None, MISSING
    tp = type(obj)
    if tp.__getattribute__ is not object.__getattribute__:
        return None, MISSING
    owner, cv = next(((c, c.__dict__[name]) for c in tp.__mro__ if name in c.__dict__), (None, MISSING))
    if isinstance(cv, types.MemberDescriptorType):
        return obj, getattr(obj, name, MISSING)
    if cv is not MISSING and hasattr(type(cv), "__set__"):
        return None, MISSING
    d = getattr(obj, "__dict__", None)
    if isinstance(d, dict) and name in d:
        return obj, d[name]
    if cv is not MISSING:
        return owner, (MISSING if hasattr(type(cv), "__get__") else cv)
    return None, MISSING


def ns_id(space):
    return id(space)


class Extractor:
    def __init__(self, keep):
        self.steps, self.cur, self.occ, self.hist = [], None, {}, []
        self.stats = collections.Counter()
        self.last = (None, 0)
        self.keep = keep                       # strong references: identities stay unique across the solo runs
        self.funcs = set()

    # ---- event callbacks
    def line(self, frame, code, lineno):
        key = oracle.gate_key(code, lineno)
        n = self.occ.get(key, 0)
        self.occ[key] = n + 1
        if frame is not self.last[0]:          # stack depth, all frames (traced or not), recomputed on frame changes only
            d, f = 0, frame
            while f is not None:
                d, f = d + 1, f.f_back
            self.last = (frame, d)
        self.cur = {"key": key, "occ": n, "acc": [], "depth": self.last[1]}
        self.steps.append(self.cur)
        self.stats["lines"] += 1

    def instruction(self, frame, code, offset):
        try:
            self.opcode(frame, code, offset)
        except Exception as ex:  # noqa: BLE001  - resolution must never disturb the workload
            self.stats[f"resolver-error:{type(ex).__name__}"] += 1

    # ---- resolution of `name(.attr)*` chains ending at instruction index k, all executed back to back
    def chain(self, frame, ins, k, h, depth):
        """value produced by instruction k if it and its feeders are simple loads executed consecutively"""
        if len(h) <= depth or h[-1 - depth] != (id(frame), k):
            return MISSING
        i = ins[k]
        op, name = i.opname, i.argval
        if op == "LOAD_CONST":
            return name
        if op in ("LOAD_FAST", "LOAD_FAST_CHECK", "LOAD_DEREF"):
            return frame.f_locals.get(name, MISSING)
        if op == "LOAD_GLOBAL":
            return frame.f_globals.get(name, vars(builtins).get(name, MISSING))
        if op == "LOAD_NAME":
            loc = frame.f_locals
            return loc[name] if name in loc else frame.f_globals.get(name, vars(builtins).get(name, MISSING))
        if op == "LOAD_ATTR":
            base = self.chain(frame, ins, k - 1, h, depth + 1)
            return MISSING if base is MISSING else static_attr(base, name)[1]
        return MISSING

    def opcode(self, frame, code, offset):
        ins, index = table(code)
        k = index.get(offset)
        if k is None:
            return
        h = self.hist                          # last executed (frame, instruction) pairs of this thread
        h.append((id(frame), k))
        del h[:-12]
        op = ins[k].opname
        name = ins[k].argval
        if op in GLOBAL_OPS:
            g = frame.f_globals
            if GLOBAL_OPS[op] == "W" or name in g or name not in vars(builtins):
                self.emit(frame, GLOBAL_OPS[op], g, name)
            if GLOBAL_OPS[op] == "R":
                self.accessor(frame, g.get(name, MISSING))
        elif op in NAME_OPS:
            loc, g = frame.f_locals, frame.f_globals
            if NAME_OPS[op] == "W" or name in loc:
                self.emit(frame, NAME_OPS[op], loc, name)
            elif name in g or name not in vars(builtins):
                self.emit(frame, "R", g, name)
            if NAME_OPS[op] == "R":
                self.accessor(frame, loc[name] if name in loc else g.get(name, MISSING))
        elif op in ATTR_OPS:
            obj = self.chain(frame, ins, k - 1, h, 1) if k else MISSING
            if obj is MISSING:
                self.stats["unresolved-attr-receiver"] += 1
                return
            if ATTR_OPS[op] == "R" and isinstance(obj, CONTAINERS):
                return self.method(frame, ins, k, obj, name)
            if ATTR_OPS[op] == "W":
                space = obj.__dict__ if isinstance(obj, types.ModuleType) else obj
            else:
                space, value = static_attr(obj, name)
                if space is None:
                    self.stats["hooked-attr-read"] += 1
                    return
                self.accessor(frame, value)
            self.emit(frame, ATTR_OPS[op], space, name)
        elif op in SUBSCR_OPS or op == "CONTAINS_OP":
            # stack: [.., container, key] (subscripts)   /   [.., item, container] (`in`)
            first, second = self.span(ins, k - 1), None
            if first and k - 1 - first >= 0:
                second = self.span(ins, k - 1 - first)
            if not first and op != "CONTAINS_OP":
                # the key is not a plain name chain (a tuple display, an arithmetic expression ...): find where its straight-line code
                # starts by stack effects; the container chain ends just before it and the access names the whole container
                width = self.expr_width(ins, k - 1)
                if width and k - 1 - width >= 0 and self.span(ins, k - 1 - width) and width + 4 <= 12:
                    cont = self.chain(frame, ins, k - 1 - width, h, 1 + width)
                    if isinstance(cont, CONTAINERS):
                        return self.item(frame, SUBSCR_OPS.get(op, "R"), cont, MISSING)
            if not first or not second:
                self.stats["unresolved-subscript"] += 1
                return
            top = self.chain(frame, ins, k - 1, h, 1)
            below = self.chain(frame, ins, k - 1 - first, h, 1 + first)
            cont, key = (top, below) if op == "CONTAINS_OP" else (below, top)
            if isinstance(cont, CONTAINERS):
                self.item(frame, SUBSCR_OPS.get(op, "R"), cont, key)
            elif cont is MISSING:
                self.stats["unresolved-subscript"] += 1

    def expr_width(self, ins, e):
        """number of instructions of the straight-line code ending at index e that leaves exactly one value on the stack (0: unknown)"""
        net, j = 0, e
        while j >= 0 and e - j < 10:
            i = ins[j]
            if "JUMP" in i.opname or i.opname.startswith(("RETURN", "RAISE", "FOR_ITER", "SEND", "YIELD", "CALL", "STORE")):
                return 0
            try:
                net += dis.stack_effect(i.opcode, i.arg)
            except ValueError:
                return 0
            if net == 1:
                return e - j + 1
            j -= 1
        return 0

    def span(self, ins, e):
        """number of instructions of the `name(.attr)*` chain ending at index e (0: not such a chain)"""
        n = 1
        while e >= 0 and ins[e].opname == "LOAD_ATTR":
            e, n = e - 1, n + 1
        return n if e >= 0 and ins[e].opname in SIMPLE else 0

    def item(self, frame, kinds, cont, key):
        # the key itself names the item, so two keys are one location exactly when the dict treats them as one key
        # (code objects, tuples, frozensets ... compare by value; objects with identity hashing stay thread-private)
        try:
            hash(key)
            name = "*" if key is MISSING else key
        except TypeError:
            name = "*"
        for kind in kinds:
            self.emit(frame, kind, cont, name)

    def method(self, frame, ins, k, cont, name):
        """`cont.name(...)` about to be called, cont a dict / list / set: the call's effect on the container"""
        base = next(t for t in CONTAINERS if isinstance(cont, t))
        if name in WHOLE[base]:
            return self.item(frame, WHOLE[base][name], cont, MISSING)
        if base is not dict or name not in KEYED:
            return
        # first argument: forward from k+1 to the CALL that consumes this method; it ends at the last point of depth 1
        depth, last, j = 0, None, k + 1
        while j < len(ins):
            i = ins[j]
            if i.opname == "CALL" and depth == i.arg:
                break
            if i.opname != "KW_NAMES":
                if "JUMP" in i.opname or i.opname.startswith(("RETURN", "RAISE", "FOR_ITER", "SEND", "YIELD")):
                    last = None
                    break
                depth += dis.stack_effect(i.opcode, i.arg)
                if depth == 1:
                    last = j
            j += 1
        key = MISSING
        if last is not None and self.span(ins, last) == last - k:
            key = self.forward(frame, ins, k + 1, last)
        self.item(frame, KEYED[name], cont, key)

    def forward(self, frame, ins, a, b):
        """value of the not yet executed chain ins[a..b] (base load + LOAD_ATTRs), by plain lookups"""
        i = ins[a]
        op, name = i.opname, i.argval
        if op == "LOAD_CONST":
            v = name
        elif op in ("LOAD_FAST", "LOAD_FAST_CHECK", "LOAD_DEREF"):
            v = frame.f_locals.get(name, MISSING)
        elif op in ("LOAD_GLOBAL", "LOAD_NAME"):
            loc = frame.f_locals if op == "LOAD_NAME" else {}
            v = loc[name] if name in loc else frame.f_globals.get(name, vars(builtins).get(name, MISSING))
        else:
            return MISSING
        for i in ins[a + 1:b + 1]:
            if v is MISSING:
                break
            v = static_attr(v, i.argval)[1]
        return v

    def accessor(self, frame, value):
        try:
            hits = accessors().get(value, ())
        except TypeError:                      # unhashable value
            return
        for kind, name in hits:
            self.emit(frame, kind, oracle.INTERPRETER, name)

    def emit(self, frame, kind, space, name):
        if self.cur is None:
            self.stats["access-before-first-line"] += 1
            return
        self.keep.append(space)
        c = frame.f_code
        fn = os.path.basename(c.co_filename)
        q = c.co_qualname
        site = q if fn != "<string>" else ("<string>" if q == "<module>" else f"<string>.{q}")
        self.cur["acc"].append({"kind": kind, "ns": ns_id(space), "name": name, "site": f"{site}:{short(name)}",
                                "at": f"{fn}:{q}:{frame.f_lineno}", "space": space})
        self.stats["accesses"] += 1
        if fn != "<string>":
            self.funcs.add(f"{fn}:{q}")


def trace(fn, keep):
    ex = Extractor(keep)
    with oracle.Monitor(ex.line, ex.instruction):
        r = fn()
    return r, ex


def current(space, name):
    """what is stored now at location (space, name), by plain lookups"""
    if type(name) is str and name == "*":
        return MISSING
    if isinstance(space, dict):
        return dict.get(space, name, MISSING)          # never a subclass's own get()
    if isinstance(space, list):
        return space[name] if isinstance(name, int) and -len(space) <= name < len(space) else MISSING
    if isinstance(space, set):
        return MISSING
    if isinstance(space, type):
        return static_attr(space, name)[1]
    d = getattr(space, "__dict__", None)
    return d.get(name, MISSING) if isinstance(d, dict) else MISSING


def aliases(steps, roots, keep):
    """identity of a mutable object -> the accessed location, reachable from a module global / class attribute, at which
    the finished solo run left it.  Two runs that each leave their own object there get one namespace."""
    alias, rooted, grew = {}, {r: 0 for r in roots}, True        # namespace -> hops from a module / class namespace
    while grew:
        grew = False
        for s in steps:
            for a in s["acc"]:
                hops = rooted.get(a["ns"])
                if hops is None or hops >= HOPS:
                    continue
                v = current(a["space"], a["name"])
                plain = isinstance(v, CONTAINERS) or (isinstance(getattr(v, "__dict__", None), dict)
                                                      and not isinstance(v, (type, types.ModuleType, types.FunctionType)))
                if plain and id(v) not in rooted:
                    alias[id(v)] = (a["ns"], a["name"])
                    rooted[id(v)] = hops + 1
                    keep.append(v)
                    grew = True
    return alias


def canonical(ns, alias, depth=0):
    if ns in alias and depth < 6:
        base, name = alias[ns]
        return ("via", canonical(base, alias, depth + 1), name)
    return ns


def implicit_limit_reads(per):
    """If any workload touches the recursion limit explicitly, give every thread one synthetic read of it per stretch
    between its explicit accesses (and before the first / after the last), in the stretch's deepest step."""
    loc = (id(oracle.INTERPRETER), "recursionlimit")
    explicit = lambda s: any((a["ns"], a["name"]) == loc for a in s["acc"])
    if not any(explicit(s) for steps in per for s in steps):
        return 0
    n = 0
    for steps in per:
        best = None
        for s in steps + [None]:
            if s is None or explicit(s):
                if best is not None:
                    f, q, line, _ = best["key"]
                    best["acc"].insert(0, {"kind": "R", "ns": loc[0], "name": loc[1], "site": "<interpreter stack check>:recursionlimit",
                                           "at": f"{f}:{q}:{str(line)[:40]} (deepest point of the stretch, depth {best['depth']})"})
                    n += 1
                best = None
            elif best is None or s["depth"] > best["depth"]:
                best = s
    return n


def labels(state):
    out = {ns: lab for ns, (lab, _, _) in state.spaces.items()}
    out[id(oracle.INTERPRETER)] = "interpreter"
    for name, m in list(sys.modules.items()):
        if m is not None and hasattr(m, "__dict__"):
            out.setdefault(id(m.__dict__), name)
    return out


def scenario(runner, programs, bindings, evals=1, warm=False):
    """-> dict(solo, threads=[[step...]], locations, stats, errors, funcs).  A step is
    {"t", "k", "gate": {t, file, func, line, nth, occ}, "acc": [{kind, loc, site, at}]}, relevant accesses only."""
    state = oracle.initial_state(runner, warm)
    errors, keep, per, stats, funcs, coarse = [], [], [], collections.Counter(), set(), []
    try:
        plain = oracle.solo(runner, programs, bindings, evals, state)
        for t, (src, b) in enumerate(zip(programs, bindings)):
            state.restore()
            r, ex = trace(oracle.workload(oracle.runners(runner, len(programs))[t], src, b, evals), keep)
            if r != plain[t]:
                errors.append(f"thread {t}: outcome under tracing {r} differs from the untraced solo outcome {plain[t]}")
            written = {(a["ns"], a["name"]) for s in ex.steps for a in s["acc"] if a["kind"] == "W"}
            for ns, lab, name, how in state.diff():
                if (ns, name) not in written and not (how == "mutated" and any(w[0] == id(state.spaces[ns][1].get(name)) for w in written)):
                    errors.append(f"thread {t}: {lab}.{name} was {how} by the workload but no write event was extracted "
                                  f"(extraction incomplete for this tree)")
            alias = aliases(ex.steps, set(state.spaces), keep)
            whole = {a["ns"] for s in ex.steps for a in s["acc"] if type(a["name"]) is str and a["name"] == "*"}
            for s in ex.steps:
                for a in s["acc"]:
                    a["raw"], a["ns"] = a["ns"], canonical(a["ns"], alias)
            coarse.append({canonical(ns, alias) for ns in whole})
            stats["aliased-objects"] += len(alias)
            per.append(ex.steps)
            stats.update(ex.stats)
            funcs |= ex.funcs
    except BaseException:
        state.close()
        raise
    state.restore()
    stats["implicit-limit-reads"] = implicit_limit_reads(per)
    for ns in set().union(*coarse) if coarse else ():     # a whole-container access makes the container one location
        for steps in per:
            for s in steps:
                for a in s["acc"]:
                    if a["ns"] == ns:
                        a["name"] = "*"
    writers, users = collections.defaultdict(set), collections.defaultdict(set)
    for t, steps in enumerate(per):
        for s in steps:
            for a in s["acc"]:
                users[(a["ns"], a["name"])].add(t)
                if a["kind"] == "W":
                    writers[(a["ns"], a["name"])].add(t)
    shared = {loc for loc, w in writers.items() if len(users[loc] | w) > 1}
    lab = labels(state)
    private = {}

    keys = {}

    def nm(name):
        """label of an item key: equal keys (by value) get the same label, distinct ones distinct labels"""
        if isinstance(name, (str, int, float, bool, bytes, type(None))):
            return short(name if isinstance(name, str) else repr(name))
        return keys.setdefault(name, f"<{type(name).__name__} key#{len(keys)}>")

    def label(ns):
        if isinstance(ns, tuple):
            return f"{label(ns[1])}[{nm(ns[2])}]"
        return lab.get(ns) or private.setdefault(ns, f"object#{len(private)}")
    threads = []
    for t, steps in enumerate(per):
        out = []
        for s in steps:
            acc = [{"kind": a["kind"], "loc": f"{label(a['ns'])}::{nm(a['name'])}", "site": a["site"], "at": a["at"]}
                   for a in s["acc"] if (a["ns"], a["name"]) in shared]
            if acc:
                f, q, line, nth = s["key"]
                out.append({"t": t, "k": len(out), "gate": {"t": t, "file": f, "func": q, "line": line, "nth": nth, "occ": s["occ"]},
                            "acc": acc})
        threads.append(out)
    stats["written-locations"] = len(writers)
    stats["shared-written-locations"] = len(shared)
    stats["relevant-steps"] = sum(len(x) for x in threads)
    stats["relevant-accesses"] = sum(len(s["acc"]) for x in threads for s in x)
    return {"solo": plain, "threads": threads, "locations": sorted(f"{label(ns)}::{nm(n)}" for ns, n in shared),
            "stats": dict(stats), "errors": errors, "funcs": sorted(funcs), "state": state}
