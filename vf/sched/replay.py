"""E3 sched, step 3: every `sat` schedule is replayed on the real code with real threads and line gates.

The gating machinery is the concrete oracle's (vf.oracles.c16, stdlib + celpy only) so that the in-check replay and the
driver's clean-interpreter confirmation run the same code.  Classification of one enumerated deviation:
  violation     the schedule was forced up to and including the deviating read and some thread's outcomes differ from
                its solo outcomes
  benign        forced, and every thread returned its solo outcomes
  inconclusive  the order could not be forced (a gate timed out, or the write/read step did not occur) - never an alarm
"""
from ..oracles import c16 as oracle


def entries(sc, schedule):
    return [dict(sc["threads"][t][k]["gate"]) for t, k in schedule]


def witness(runner, programs, bindings, evals, warm, sched, target):
    return {"check": "c16.forced_schedule",
            "args": {"runner": runner, "programs": programs, "bindings": bindings, "schedule": sched, "evals": evals,
                     "target": target, "warm": warm}}


def replay(sc, runner, programs, bindings, evals, warm, dev):
    sched = entries(sc, dev["schedule"])
    target = {"write": dev["schedule"].index((dev["write"]["t"], dev["write"]["k"])),
              "read": dev["schedule"].index((dev["read"]["t"], dev["read"]["k"]))}
    res, g = oracle.run_forced(runner, programs, bindings, sched, evals, sc["state"])
    if any(r is None for r in res):
        return {"status": "inconclusive", "detail": "a thread did not finish", "witness": None, "skipped": 0}
    differs, forced, text = oracle.verdict(sc["solo"], res, g, target)
    status = "inconclusive" if not forced else ("violation" if differs else "benign")
    return {"status": status, "detail": text, "differs": differs, "results": res,
            "skipped": sum(1 for s in g.status[:target["read"]] if s == "skipped"),
            "witness": witness(runner, programs, bindings, evals, warm, sched, target)}
