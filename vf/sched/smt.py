"""E3 sched, step 2: z3 decides which schedules of the extracted steps change the reads-from relation.

Model.  A step (one traced line event of one thread with its accesses) is atomic.  A schedule with at most P context
switches is a sequence of P+1 segments, each owned by one thread; step (t,k) gets an Int segment S[t][k], monotone in
k (program order), and a segment holds steps of its owner only.  Every access event e gets the Int position
pos(e) = S[step(e)] * M + (index of e in its thread), so positions are pairwise distinct and respect program order.
reads-from(r) = the write w to r's location with pos(w) < pos(r) and no other write to it in between.  In the solo runs
every read is served by a write of its own thread or by the initial state, hence a *deviation* is a pair (r, w) of
different threads with reads-from(r) = w.  `enumerate_deviations` asks for a schedule exhibiting a deviation not yet
enumerated (the goal disjunction shrinks by one blocked pair per answer; the schedule space itself is never cut),
until `unsat`: no schedule within the bound makes any remaining read see another thread's write.
"""
import os
import time

import z3

SEED = int(os.environ.get("VERIF_SEED", "0") or 0)


class Model:
    def __init__(self, threads, switches, timeout_ms=20000):
        self.threads, self.P = threads, switches
        self.ctx = z3.Context()                 # fresh context: the answers do not depend on what the process solved before
        self.solver = z3.Solver(ctx=self.ctx)
        self.solver.set("timeout", timeout_ms)
        self.solver.set("random_seed", SEED)
        self.queries, self.solver_s, self.unknown = 0, 0.0, 0
        T = len(threads)
        self.S = [[z3.Int(f"seg_{t}_{k}", self.ctx) for k in range(len(steps))] for t, steps in enumerate(threads)]
        self.owner = [z3.Int(f"owner_{j}", self.ctx) for j in range(switches + 1)]
        add = self.solver.add
        for j, o in enumerate(self.owner):
            add(o >= 0, o < T)
        for t, col in enumerate(self.S):
            for k, s in enumerate(col):
                add(s >= 0, s <= switches)
                if k:
                    add(col[k - 1] <= s)
                add(z3.Or([z3.And(s == j, self.owner[j] == t) for j in range(switches + 1)]))
        # access events with their positions
        self.events = []
        M = 1 + max([sum(len(s["acc"]) for s in steps) for steps in threads] + [1])
        for t, steps in enumerate(threads):
            n = 0
            for k, s in enumerate(steps):
                for a in s["acc"]:
                    self.events.append({"id": len(self.events), "t": t, "k": k, "i": n, "kind": a["kind"], "loc": a["loc"], "site": a["site"],
                                        "at": a["at"], "pos": self.S[t][k] * M + n})
                    n += 1
        by_loc = {}
        for e in self.events:
            if e["kind"] == "W":
                by_loc.setdefault(e["loc"], []).append(e)
        # deviation candidates: (read, write of another thread to the same location)
        self.dev = {}
        for r in self.events:
            if r["kind"] != "R":
                continue
            ws = by_loc.get(r["loc"], [])
            for w in ws:
                if w["t"] == r["t"]:
                    continue
                between = [z3.And(w["pos"] < o["pos"], o["pos"] < r["pos"]) for o in ws if o is not w]
                self.dev[(r["id"], w["id"])] = z3.And(w["pos"] < r["pos"], z3.Not(z3.Or(between)) if between else True)

    def check(self, *extra):
        t0 = time.time()
        r = str(self.solver.check(*extra))
        self.solver_s += time.time() - t0
        self.queries += 1
        if r == "unknown":
            self.unknown += 1
        return r

    def schedule(self, m):
        """steps in model order: [(t, k)]"""
        val = lambda t, k: m.eval(self.S[t][k], model_completion=True).as_long()
        return sorted(((t, k) for t, col in enumerate(self.S) for k in range(len(col))), key=lambda tk: (val(*tk), tk[0], tk[1]))

    def holds(self, m, pair):
        return z3.is_true(m.eval(self.dev[pair], model_completion=True))

    def enumerate_deviations(self, cap=10_000):
        """yields dicts(pair, read, write, schedule, first, isolated, other_locations); ends after the final `unsat` (self.closed = True)
        or on unknown / cap (self.closed = False)."""
        self.closed = False
        unseen = sorted(self.dev)
        while unseen and cap > 0:
            r = self.check(z3.Or([self.dev[p] for p in unseen]))
            if r != "sat":
                self.closed = r == "unsat"
                return
            m = self.solver.model()
            first = min((p for p in unseen if self.holds(m, p)),
                        key=lambda p: m.eval(self.events[p[0]]["pos"], model_completion=True).as_long())
            rd, loc = self.events[first[0]], self.events[first[0]]["loc"]
            # preferences: (a) `first` is the first deviation of the schedule - every earlier read sees its solo write, so
            # all threads provably follow their solo control flow up to the deviating read and the order can be forced;
            # (b) all deviations of the schedule are on this pair's location, so a changed result is attributable to it.
            fst = [z3.Or(e["pos"] > rd["pos"], z3.And([z3.Not(f) for p, f in self.dev.items() if p[0] == e["id"]]))
                   for e in self.events if e["kind"] == "R" and e["id"] != rd["id"] and any(p[0] == e["id"] for p in self.dev)]
            iso = [z3.Not(f) for p, f in self.dev.items() if self.events[p[0]]["loc"] != loc]
            for tag, extra in (("first+isolated", fst + iso), ("first", fst), ("isolated", iso), ("any", [])):
                if self.check(self.dev[first], *extra) == "sat":
                    m = self.solver.model()
                    break
            others = sorted({self.events[p[0]]["loc"] for p in self.dev if p != first and self.holds(m, p)} - {loc})
            unseen.remove(first)
            cap -= 1
            yield {"pair": first, "read": rd, "write": self.events[first[1]], "schedule": self.schedule(m),
                   "first": tag.startswith("first"), "isolated": tag.endswith("isolated"), "other_locations": others}
        self.closed = not unseen

    def sanity(self):
        """the schedule space is non-empty (vacuity guard): some complete schedule exists within the bound"""
        return self.check() == "sat"
