"""Shadowed container bases: exact case splits for symbolic index / key (no hashing)."""
import z3

from .core import CTX, SBool, branch, is_sym, f_is_sym, pin, tm, iv, _pin_int
from .strs import s_is_sym, b_is_sym, sraw, eq_term, pin_str, pin_bytes


def any_sym(k):
    return is_sym(k) or s_is_sym(k) or b_is_sym(k) or f_is_sym(k) or isinstance(k, SBool)


class SList(list):
    def __getitem__(self, i):
        if isinstance(i, SBool):
            i = int(bool(i))
        if is_sym(i):
            n, c, t = len(self), int.__index__(i), i._t
            if branch(t < -n, c < -n) or branch(t >= n, c >= n):
                raise IndexError("list index out of range")
            pin(t == c, "list index (in range: finitely many)")
            return list.__getitem__(self, c)
        return list.__getitem__(self, i)

    def copy(self):
        return type(self)(list.__iter__(self)) if type(self) is SList else SList(list.__iter__(self))

    def __contains__(self, item):
        for x in list.__iter__(self):
            if x is item:
                return True
            r = x == item
            if r is NotImplemented:
                continue
            if r:
                return True
        return False

    def index(self, item, *a):
        for n, x in enumerate(list.__iter__(self)):
            if x is item or x == item:
                return n
        raise ValueError("not in list")

    def count(self, item):
        return sum(1 for x in list.__iter__(self) if x is item or x == item)


def _same_key_kind(a, b):
    """Python dict semantics: keys match if hash-equal and ==.  Distinguish by broad kind to avoid cross-type hits."""
    if isinstance(a, str) or isinstance(b, str):
        return isinstance(a, str) and isinstance(b, str)
    if isinstance(a, bytes) or isinstance(b, bytes):
        return isinstance(a, bytes) and isinstance(b, bytes)
    return True


def _key_eq(k, key):
    """k (symbolic) against stored key: returns python bool with a recorded branch, bypassing CEL-level __eq__ typing."""
    if not _same_key_kind(k, key):
        return False
    if isinstance(k, str):
        if len(k) != len(key):
            return False
        return branch(eq_term(k, key), sraw(k) == sraw(key))
    if isinstance(k, bytes):
        from .strs import SBytes
        r = SBytes.__eq__(k, key)
        return bool(r)
    if isinstance(k, SBool) or isinstance(key, SBool):
        return branch(tm(k) == tm(key), iv(k) == iv(key))
    if isinstance(k, float) or isinstance(key, float):
        # float keys: pin (not a CEL key type)
        if f_is_sym(k):
            k._pin("dict key float")
        if f_is_sym(key):
            key._pin("dict key float")
        if is_sym(k):
            _pin_int(k, "dict key float")
        if is_sym(key):
            _pin_int(key, "dict key float")
        return float(k) == float(key)
    if isinstance(k, int) and isinstance(key, int):
        return branch(tm(k) == tm(key), int.__index__(k) == int.__index__(key))
    return False


class SDict(dict):
    """dict whose lookups with a symbolic key split on equality with each key present (else absent).
    Stored keys may themselves be symbolic (then lookups with any key compare by term)."""

    def _has_sym_keys(self):
        return self.__dict__.get("_symkeys", False) if hasattr(self, "__dict__") else False

    def _find(self, k):
        for key in list(dict.keys(self)):
            if key is k:
                return key
            try:
                if _key_eq(k, key):
                    return key
            except TypeError:
                continue
        return _MISSING

    def _needs_scan(self, k):
        return any_sym(k) or self._has_sym_keys()

    def __getitem__(self, k):
        if self._needs_scan(k):
            key = self._find(k)
            if key is _MISSING:
                raise KeyError(k)
            return dict.__getitem__(self, key)
        return dict.__getitem__(self, k)

    def __contains__(self, k):
        if self._needs_scan(k):
            return self._find(k) is not _MISSING
        return dict.__contains__(self, k)

    def get(self, k, default=None):
        if self._needs_scan(k):
            key = self._find(k)
            return default if key is _MISSING else dict.__getitem__(self, key)
        return dict.get(self, k, default)

    def __setitem__(self, k, v):
        if self._needs_scan(k):
            key = self._find(k)
            if key is not _MISSING:
                dict.__setitem__(self, key, v)
                return
            if any_sym(k):
                try:
                    self._symkeys = True
                except AttributeError:
                    pass
                # store under an identity-hashed wrapper-free key: object hash by id is not available for
                # str/int subclasses, so store via the raw value *without* pinning: collisions are handled
                # by _find (scan by term), the raw hash is only a storage slot.
                dict.__setitem__(self, _NoPin(k), v)
                return
        dict.__setitem__(self, k, v)

    def setdefault(self, k, default=None):
        if self._needs_scan(k):
            key = self._find(k)
            if key is not _MISSING:
                return dict.__getitem__(self, key)
            self[k] = default
            return default
        return dict.setdefault(self, k, default)

    def keys(self):
        if self._has_sym_keys():
            return _KeysView([_unwrap(k) for k in dict.keys(self)])
        return dict.keys(self)

    def items(self):
        if self._has_sym_keys():
            return [(_unwrap(k), v) for k, v in dict.items(self)]
        return dict.items(self)

    def __iter__(self):
        if self._has_sym_keys():
            return iter([_unwrap(k) for k in dict.keys(self)])
        return dict.__iter__(self)


class _Missing:
    pass


_MISSING = _Missing()


class _NoPin:
    """Storage wrapper for a symbolic key: hash by identity, equality by identity (lookups go through _find)."""

    __slots__ = ("k",)

    def __init__(self, k):
        self.k = k

    def __hash__(self):
        return id(self)

    def __eq__(self, o):
        return self is o


def _unwrap(k):
    return k.k if isinstance(k, _NoPin) else k


class _KeysView(list):
    """keys() of a map with symbolic keys: set-like equality by pairwise term comparison."""

    def __eq__(self, other):
        other = list(other)
        if len(self) != len(other):
            return False
        for a in self:
            if not any((a is b) or _k_eq_any(a, b) for b in other):
                return False
        return True

    def __ne__(self, other):
        return not self.__eq__(other)


def _k_eq_any(a, b):
    try:
        if any_sym(a):
            return _key_eq(a, b)
        if any_sym(b):
            return _key_eq(b, a)
        return a == b
    except TypeError:
        return False


# patch _find/_key_eq to look through wrappers
_orig_find = SDict._find


def _find(self, k):
    for key in list(dict.keys(self)):
        real = _unwrap(key)
        if real is k:
            return key
        try:
            if any_sym(k):
                if _key_eq(k, real):
                    return key
            elif any_sym(real):
                if _key_eq(real, k):
                    return key
            else:
                if type(real) is type(k) or _same_key_kind(real, k):
                    if real == k and hash(real) == hash(k):
                        return key
        except TypeError:
            continue
    return _MISSING


SDict._find = _find


# ----------------------------------------------------------------------------- set shadow (seeded as `set` where the
# repository code builds sets of possibly-symbolic elements): membership by equality scan, no hashing
class SSet:
    """Minimal set: unique elements by pairwise equality (each comparison is a recorded branch)."""

    def __init__(self, items=()):
        self._items = []
        for x in items:
            self.add(x)

    @staticmethod
    def _eq(a, b):
        if any_sym(a) or any_sym(b):
            try:
                if any_sym(a):
                    return bool(_key_eq(a, b)) if _same_key_kind(a, b) else False
                return bool(_key_eq(b, a)) if _same_key_kind(a, b) else False
            except TypeError:
                return False
        try:
            return hash(a) == hash(b) and bool(a == b)
        except TypeError:
            return False

    def add(self, x):
        if not any_sym(x):
            hash(x)  # unhashable elements raise TypeError like the builtin
        if not any(self._eq(x, y) for y in self._items):
            self._items.append(x)

    def __contains__(self, x):
        return any(self._eq(x, y) for y in self._items)

    def __iter__(self):
        return iter(list(self._items))

    def __len__(self):
        return len(self._items)

    def __bool__(self):
        return bool(self._items)

    def __sub__(self, o):
        o = o if isinstance(o, SSet) else SSet(o)
        return SSet([x for x in self._items if x not in o])

    def __and__(self, o):
        o = o if isinstance(o, SSet) else SSet(o)
        return SSet([x for x in self._items if x in o])

    def __or__(self, o):
        return SSet(list(self._items) + list(o))

    def __xor__(self, o):
        o = o if isinstance(o, SSet) else SSet(o)
        return (self - o) | (o - self)

    def __eq__(self, o):
        if not isinstance(o, (SSet, set, frozenset)):
            return NotImplemented
        o = o if isinstance(o, SSet) else SSet(o)
        return len(self) == len(o) and all(x in o for x in self._items)

    def __le__(self, o):
        o = o if isinstance(o, SSet) else SSet(o)
        return all(x in o for x in self._items)

    def issubset(self, o):
        return self.__le__(o)

    def union(self, *os):
        r = SSet(self._items)
        for o in os:
            for x in o:
                r.add(x)
        return r

    def intersection(self, o):
        return self & o

    def difference(self, o):
        return self - o

    def __repr__(self):
        return "SSet(" + repr(self._items) + ")"

    __hash__ = None
