"""E1 core: path recording, symbolic bool/int/float shadows.

Instances of the shadow classes are *real* int/float objects whose raw value is the value under the
current solver model (concolic) and which additionally carry a z3 term (`_t` / `_ft`).  C code that
reads the raw buffer computes something true for the current model; every decision that Python code
makes through a dunder is recorded as a branch on the term.
"""
import collections
import math
import struct

import z3


class EngineAbort(BaseException):
    """Engine control flow (never caught by `except Exception` in code under test)."""


class Ctx:
    def __init__(self):
        self.reset()

    def reset(self):
        self.path = []  # list of (term, taken, kind) kind in {'br','pin'}
        self.decided = {}  # term ast id -> taken (dedup of repeated identical tests)
        self.pins = collections.Counter()
        self.display = 0  # repr/format of symbolic values (display only, unconstrained)
        self.notes = []
        self.fresh = 0
        self.extra_vars = {}  # fresh variables introduced during a run (name -> term)


CTX = Ctx()


def fresh_int(prefix="k"):
    CTX.fresh += 1
    v = z3.Int(f"__{prefix}{CTX.fresh}")
    CTX.extra_vars[str(v)] = v
    return v


def branch(term, concrete, kind="br"):
    """Record that the code under test observed the truth value of `term`; return it."""
    concrete = bool(concrete)
    if isinstance(term, bool):
        assert term == concrete, "concrete/symbolic disagreement"
        return concrete
    term = z3.simplify(term)
    if z3.is_true(term):
        if not concrete:
            raise EngineAbort(f"shadow inconsistency: term simplifies to true, concrete False")
        return True
    if z3.is_false(term):
        if concrete:
            raise EngineAbort(f"shadow inconsistency: term simplifies to false, concrete True")
        return False
    key = term.get_id()
    prev = CTX.decided.get(key)
    if prev is not None:
        if prev != concrete:
            raise EngineAbort("shadow inconsistency: same term decided both ways on one path")
        return concrete
    CTX.decided[key] = concrete
    CTX.path.append((term, concrete, kind))
    return concrete


def define(term):
    """Definitional extension: a constraint over *fresh* variables that is satisfiable for every value of the old ones
    (e.g. the decimal digits of an integer).  Part of the path condition, never flipped by the explorer."""
    CTX.path.append((term, True, "def"))


def pin(eq_term, op):
    """Concretise: constrain the path to the current model value of something; counted per operation."""
    CTX.pins[op] += 1
    # finite-domain pins (hash of a string / key lookups / list positions) enumerate exhaustively; numeric
    # concretisations with an unbounded remainder are sampled (explorer caps the chain)
    finite = op.startswith(("hash(", "list index", "dict key", "operand-kind"))
    kind = "pin-finite" if finite else ("pin-bytes" if ("bytes" in op and "str" not in op) else ("pin-str" if ("str" in op or "re." in op) else "pin"))
    branch(eq_term, True, kind=kind)


class _Meta(type):
    """isinstance(5, SInt) must be True: repository modules also use `int` etc. as *types*."""

    def __instancecheck__(cls, obj):
        so = cls.__dict__.get("_shadow_of")
        if so is not None:
            return isinstance(obj, so)
        return type.__instancecheck__(cls, obj)

    def __subclasscheck__(cls, sub):
        so = cls.__dict__.get("_shadow_of")
        if so is not None:
            return issubclass(sub, so)
        return type.__subclasscheck__(cls, sub)


class _TMeta(type):
    def __instancecheck__(cls, obj):
        if cls is TypeShim:
            return isinstance(obj, type)
        return type.__instancecheck__(cls, obj)

    def __subclasscheck__(cls, sub):
        if cls is TypeShim:
            return issubclass(sub, type)
        return type.__subclasscheck__(cls, sub)


class TypeShim(type, metaclass=_TMeta):
    """Seeded as `type`: hides the shadow metaclass, so `type(IntType) is type` stays true in the code under test."""

    def __new__(mcs, *a, **k):
        if mcs is TypeShim and len(a) == 1 and not k:
            t = type(a[0])
            return TypeShim if (t is _Meta or t is type) else t
        return type.__new__(mcs, *a, **k)


# ----------------------------------------------------------------------------- SBool
class SBool:
    """Symbolic result of a comparison; forks when its truth value is demanded."""

    __slots__ = ("_b", "_c")

    def __init__(self, t, c):
        self._b, self._c = t, bool(c)

    def __bool__(self):
        return branch(self._b, self._c)

    def __index__(self):
        return int(bool(self))

    def __int__(self):
        return int(bool(self))

    def __eq__(self, other):
        if other is NotImplemented:
            return False
        if isinstance(other, SBool):
            return SBool(self._b == other._b, self._c == other._c)
        if isinstance(other, bool):
            return SBool(self._b if other else z3.Not(self._b), self._c == other)
        if isinstance(other, int) and not is_sym(other):
            v = int.__index__(other)
            if v == 1:
                return SBool(self._b, self._c)
            if v == 0:
                return SBool(z3.Not(self._b), not self._c)
            return False
        return NotImplemented

    def __ne__(self, other):
        r = self.__eq__(other)
        if r is NotImplemented:
            return True
        if isinstance(r, SBool):
            return SBool(z3.Not(r._b), not r._c)
        return not r

    def __repr__(self):
        CTX.display += 1
        return repr(self._c)

    __hash__ = None


def bool_term(x):
    """z3 Bool for a Python truth-like value produced by the shadows."""
    if isinstance(x, SBool):
        return x._b
    if is_sym(x):
        return x._t != 0
    return z3.BoolVal(bool(x))


# ----------------------------------------------------------------------------- SInt
def _attr(x, base, name):
    """attribute of a shadow instance without triggering foreign __getattr__ implementations"""
    if type.__instancecheck__(base, x):
        d = getattr(x, "__dict__", None)
        if d is not None:
            return d.get(name)
    return None


def is_sym(x):
    return _attr(x, int, "_t") is not None


def tm(x):
    """z3 Int term of an int-like."""
    t = _attr(x, int, "_t")
    if t is not None:
        return t
    if isinstance(x, SBool):
        return z3.If(x._b, z3.IntVal(1), z3.IntVal(0))
    return z3.IntVal(int.__index__(x))


def iv(x):
    """raw concrete int of an int-like (no dunder dispatch)."""
    if isinstance(x, SBool):
        return int(x._c)
    return int.__index__(x)


def mk(cls, term, conc, bv=None):
    o = int.__new__(cls, conc)
    o._t = term
    if bv is not None:
        o._bv = bv
    return o


def py_floordiv(a, b):
    # Python floor semantics from z3's Euclidean div; caller guarantees b != 0
    return z3.If(b > 0, a / b, (-a) / (-b))


def py_mod(a, b):
    # NOT a - b*q (z3 answers unknown); direct mod form
    return z3.If(b > 0, a % b, -((-a) % (-b)))


def _runs(m):
    runs, i = [], 0
    while m >> i:
        if (m >> i) & 1:
            j = i
            while (m >> j) & 1:
                j += 1
            runs.append((i, j - i))
            i = j
        else:
            i += 1
    return runs


def _and_const(t, m):
    """t & m for non-negative t and constant mask m >= 0, as div/mod by powers of two."""
    if m == 0:
        return z3.IntVal(0)
    return z3.Sum([((t / (2**lo)) % (2**ln)) * (2**lo) for lo, ln in _runs(m)])


class SInt(int, metaclass=_Meta):
    _shadow_of = int

    def __new__(cls, value=0, *a, **k):
        if not a and not k:
            if isinstance(value, SBool):
                return mk(cls if cls is not SInt else SInt, tm(value), iv(value))
            if is_sym(value) and isinstance(value, int):
                return mk(cls, value._t, int.__index__(value), _attr(value, int, "_bv"))
        if cls is SInt:
            # called as the builtin `int(...)`
            if not a and not k:
                ty = type(value)
                if not isinstance(value, (int, str, bytes, bytearray, float)):
                    if hasattr(ty, "__int__"):
                        return ty.__int__(value)
                    if hasattr(ty, "__index__"):
                        return ty.__index__(value)
                    if hasattr(ty, "__trunc__"):
                        return ty.__trunc__(value)
                if isinstance(value, float) and f_is_sym(value):
                    return value.__trunc__()
            from . import strs

            if strs.s_is_sym(value):
                return strs.sym_int_parse(value, *a, **k)
            return int(value, *a, **k)
        if isinstance(value, float) and f_is_sym(value) and not a:
            r = value.__trunc__()
            return mk(cls, tm(r), iv(r), _attr(r, int, "_bv"))
        from . import strs

        if strs.s_is_sym(value):
            r = strs.sym_int_parse(value, *a, **k)
            return mk(cls, tm(r), iv(r))
        return int.__new__(cls, value, *a, **k)

    # -- arithmetic
    def _bin(self, other, f, zf, refl=False):
        if isinstance(other, SBool):
            other = mk(SInt, tm(other), iv(other))
        if not isinstance(other, int):
            return NotImplemented
        a, b = (other, self) if refl else (self, other)
        if not is_sym(a) and not is_sym(b):
            return f(int.__index__(a), int.__index__(b))
        return mk(SInt, zf(tm(a), tm(b)), f(int.__index__(a), int.__index__(b)))

    def __add__(s, o):
        return s._bin(o, lambda a, b: a + b, lambda a, b: a + b)

    def __radd__(s, o):
        return s._bin(o, lambda a, b: a + b, lambda a, b: a + b, True)

    def __sub__(s, o):
        return s._bin(o, lambda a, b: a - b, lambda a, b: a - b)

    def __rsub__(s, o):
        return s._bin(o, lambda a, b: a - b, lambda a, b: a - b, True)

    def __mul__(s, o):
        return s._bin(o, lambda a, b: a * b, lambda a, b: a * b)

    def __rmul__(s, o):
        return s._bin(o, lambda a, b: a * b, lambda a, b: a * b, True)

    def _divlike(self, other, refl, mod):
        if not isinstance(other, int):
            return NotImplemented
        a, b = (other, self) if refl else (self, other)
        ca, cb = int.__index__(a), int.__index__(b)
        if not is_sym(a) and not is_sym(b):
            return (ca % cb) if mod else (ca // cb)
        if branch(tm(b) == 0, cb == 0):
            raise ZeroDivisionError("integer division or modulo by zero")
        if mod:
            return mk(SInt, py_mod(tm(a), tm(b)), ca % cb)
        return mk(SInt, py_floordiv(tm(a), tm(b)), ca // cb)

    def __floordiv__(s, o):
        return s._divlike(o, False, False)

    def __rfloordiv__(s, o):
        return s._divlike(o, True, False)

    def __mod__(s, o):
        return s._divlike(o, False, True)

    def __rmod__(s, o):
        return s._divlike(o, True, True)

    def __divmod__(s, o):
        return (s // o, s % o)

    def __truediv__(s, o):
        if not isinstance(o, int):
            return NotImplemented
        if is_sym(s) or is_sym(o):
            _pin_int(s, "int.__truediv__")
            _pin_int(o, "int.__truediv__")
        return int.__index__(s) / int.__index__(o)

    def __rtruediv__(s, o):
        if not isinstance(o, int):
            return NotImplemented
        if is_sym(s) or is_sym(o):
            _pin_int(s, "int.__truediv__")
            _pin_int(o, "int.__truediv__")
        return int.__index__(o) / int.__index__(s)

    def __pow__(s, o, m=None):
        if is_sym(s) or is_sym(o):
            _pin_int(s, "int.__pow__")
            _pin_int(o, "int.__pow__")
        return pow(int.__index__(s), int.__index__(o) if isinstance(o, int) else o, m)

    def __rpow__(s, o, m=None):
        _pin_int(s, "int.__pow__")
        _pin_int(o, "int.__pow__")
        return pow(int.__index__(o) if isinstance(o, int) else o, int.__index__(s), m)

    def __neg__(s):
        return mk(SInt, -s._t, -int.__index__(s)) if is_sym(s) else -int.__index__(s)

    def __pos__(s):
        return mk(SInt, s._t, int.__index__(s)) if is_sym(s) else int.__index__(s)

    def __abs__(s):
        if not is_sym(s):
            return abs(int.__index__(s))
        if branch(s._t < 0, int.__index__(s) < 0):
            return mk(SInt, -s._t, -int.__index__(s))
        return mk(SInt, s._t, int.__index__(s))

    def __invert__(s):
        return mk(SInt, -s._t - 1, ~int.__index__(s)) if is_sym(s) else ~int.__index__(s)

    # -- bit operations (symbolic against constants; bit-runs as div/mod by powers of two)
    def _bitop(s, o, name, f):
        if not isinstance(o, int):
            return NotImplemented
        cs, co = int.__index__(s), int.__index__(o)
        if not is_sym(s) and not is_sym(o):
            return f(cs, co)
        if is_sym(s) and is_sym(o):
            _pin_int(o, f"int.{name}(sym,sym)")
        sym, con = (s, o) if is_sym(s) else (o, s)
        c = int.__index__(con)
        if c < 0 or int.__index__(sym) < 0:
            if branch(sym._t < 0, int.__index__(sym) < 0) or c < 0:
                _pin_int(sym, f"int.{name}(negative)")
                return f(cs, co)
        else:
            branch(sym._t < 0, False)
        if name == "and":
            return mk(SInt, _and_const(sym._t, c), cs & co)
        if name == "or":
            return mk(SInt, sym._t + c - _and_const(sym._t, c), cs | co)
        if name == "xor":
            return mk(SInt, sym._t + c - 2 * _and_const(sym._t, c), cs ^ co)
        raise AssertionError(name)

    def __and__(s, o):
        return s._bitop(o, "and", lambda a, b: a & b)

    __rand__ = __and__

    def __or__(s, o):
        return s._bitop(o, "or", lambda a, b: a | b)

    __ror__ = __or__

    def __xor__(s, o):
        return s._bitop(o, "xor", lambda a, b: a ^ b)

    __rxor__ = __xor__

    def __rshift__(s, o):
        if not isinstance(o, int):
            return NotImplemented
        if not is_sym(s) and not is_sym(o):
            return int.__index__(s) >> int.__index__(o)
        _pin_int(o, "int.__rshift__(amount)")
        k = int.__index__(o)
        return mk(SInt, s._t / (2**k), int.__index__(s) >> k) if is_sym(s) else int.__index__(s) >> k

    def __rrshift__(s, o):
        _pin_int(s, "int.__rshift__(amount)")
        return o >> int.__index__(s)

    def __lshift__(s, o):
        if not isinstance(o, int):
            return NotImplemented
        if not is_sym(s) and not is_sym(o):
            return int.__index__(s) << int.__index__(o)
        _pin_int(o, "int.__lshift__(amount)")
        k = int.__index__(o)
        return mk(SInt, s._t * (2**k), int.__index__(s) << k) if is_sym(s) else int.__index__(s) << k

    def __rlshift__(s, o):
        _pin_int(s, "int.__lshift__(amount)")
        return o << int.__index__(s)

    # -- comparisons
    def _cmp(self, other, f, zf, bvf=None):
        if isinstance(other, SBool):
            other = mk(SInt, tm(other), iv(other))
        if isinstance(other, float) and not isinstance(other, int):
            if is_sym(self) or f_is_sym(other):
                _pin_int(self, "int<->float compare")
                if f_is_sym(other):
                    other._pin("int<->float compare")
            return f(int.__index__(self), float.__float__(other))
        if not isinstance(other, int):
            return NotImplemented
        if not is_sym(self) and not is_sym(other):
            return f(int.__index__(self), int.__index__(other))
        bv = _attr(self, int, "_bv")
        if bv is not None and not is_sym(other) and bvf is not None:
            # truncated double: compare inside the bit-vector domain (Int<->BV mixes go `unknown`)
            w = bv.size()
            c = int.__index__(other)
            lo, hi = -(2 ** (w - 1)), 2 ** (w - 1) - 1
            if c < lo or c > hi:
                cc = f(0, c)  # any in-range value compares like 0 against an out-of-range constant
                return SBool(z3.BoolVal(cc), f(int.__index__(self), c))
            return SBool(bvf(bv, z3.BitVecVal(c, w)), f(int.__index__(self), c))
        return SBool(zf(tm(self), tm(other)), f(int.__index__(self), int.__index__(other)))

    def __lt__(s, o):
        return s._cmp(o, lambda a, b: a < b, lambda a, b: a < b, lambda a, b: a < b)

    def __le__(s, o):
        return s._cmp(o, lambda a, b: a <= b, lambda a, b: a <= b, lambda a, b: a <= b)

    def __gt__(s, o):
        return s._cmp(o, lambda a, b: a > b, lambda a, b: a > b, lambda a, b: a > b)

    def __ge__(s, o):
        return s._cmp(o, lambda a, b: a >= b, lambda a, b: a >= b, lambda a, b: a >= b)

    def __eq__(s, o):
        return s._cmp(o, lambda a, b: a == b, lambda a, b: a == b, lambda a, b: a == b)

    def __ne__(s, o):
        return s._cmp(o, lambda a, b: a != b, lambda a, b: a != b, lambda a, b: a != b)

    def __bool__(s):
        if not is_sym(s):
            return int.__index__(s) != 0
        return branch(s._t != 0, int.__index__(s) != 0)

    # -- conversions
    def __int__(s):
        if is_sym(s):
            return mk(SInt, s._t, int.__index__(s), _attr(s, int, "_bv"))
        return int.__index__(s)

    def __trunc__(s):
        return s.__int__()

    def __float__(s):
        if is_sym(s):
            _pin_int(s, "float(int)")
        return float(int.__index__(s))

    def _pin(s, op="pin"):
        _pin_int(s, op)
        return int.__index__(s)

    def __hash__(s):
        if is_sym(s):
            _pin_int(s, "hash(int)")
        return hash(int.__index__(s))

    def __repr__(s):
        if is_sym(s):
            CTX.display += 1
        return int.__repr__(int.__index__(s))

    def __str__(s):
        if is_sym(s):
            from . import strs

            return strs.sym_int_render(s)
        return int.__repr__(int.__index__(s))

    def __format__(s, spec):
        if is_sym(s):
            from . import strs

            if strs.s_is_sym(spec):
                spec = strs.pin_str(spec, "format spec")
            r = strs.sym_int_format(s, str(spec)) if spec else s.__str__()
            if r is not None:
                return r
            # a rendering the shadows cannot follow symbolically: concretise (sound), never drop the dependency
            pin(s._t == int.__index__(s), "format(int, spec)")
        return int.__format__(int.__index__(s), spec)

    def __reduce__(s):
        return (int, (int.__index__(s),))

    def bit_length(s):
        _pin_int(s, "int.bit_length")
        return int.bit_length(int.__index__(s))

    def to_bytes(s, *a, **k):
        _pin_int(s, "int.to_bytes")
        return int.to_bytes(int.__index__(s), *a, **k)


def _pin_int(x, op):
    if is_sym(x):
        pin(x._t == int.__index__(x), op)


def sym_index(x, op="__index__"):
    """Use of a (possibly symbolic) int where C code needs a concrete one."""
    if is_sym(x):
        _pin_int(x, op)
    return int.__index__(x)


# ----------------------------------------------------------------------------- SFloat
F64 = z3.Float64()
RNE = z3.RNE()
RTZ = z3.RTZ()
TRUNC_BITS = 70


TIME_MODEL = bool(__import__("os").environ.get("VERIF_TIME_SHADOW"))


def f_is_sym(x):
    return _attr(x, float, "_ft") is not None or _attr(x, float, "_q") is not None


def fraw(x):
    return float.__float__(x)


def ft(x):
    t = _attr(x, float, "_ft")
    if t is not None:
        return t
    if _attr(x, float, "_q") is not None:
        return x._ft  # exact rational: concretised when binary floating point semantics are demanded
    return fp_val(float.__float__(x) if isinstance(x, float) else float(int.__index__(x)))


def fp_val(c):
    if c != c:
        return z3.fpNaN(F64)
    bits = struct.unpack("<Q", struct.pack("<d", c))[0]
    return z3.fpBVToFP(z3.BitVecVal(bits, 64), F64)


def mkf(cls, term, conc):
    o = float.__new__(cls, conc)
    o._ft = term
    return o


def _fdiv(a, b):
    return a / b


class SFloat(float, metaclass=_Meta):
    _shadow_of = float

    def __new__(cls, value=0.0, *a):
        if cls is SFloat and _attr(value, float, "_q") is not None:
            return value  # float(<exact rational>) is that rational
        if f_is_sym(value):
            return mkf(cls, value._ft, float.__float__(value))
        if is_sym(value):
            if TIME_MODEL and cls is SFloat and isinstance(value, int) and not isinstance(value, SBool):
                c = int.__index__(value)
                if branch(z3.And(value._t >= -(2**53), value._t <= 2**53), abs(c) <= 2**53):
                    return SRat(value._t, 1, c)  # exactly representable: float(int) loses nothing
            _pin_int(value, "float(int)")
            value = int.__index__(value)
        from . import strs

        if strs.s_is_sym(value):
            if TIME_MODEL and cls is SFloat:
                r = strs.sym_decimal_parse(value)
                if r is not None:
                    return r
            strs.pin_str(value, "float(str)")
            value = str.__str__(value)
        if cls is SFloat:
            return float(value)
        return float.__new__(cls, value)

    def _pin(s, op="pin"):
        if f_is_sym(s):
            c = float.__float__(s)
            if c != c:
                pin(z3.fpIsNaN(s._ft), op)
            else:
                pin(s._ft == fp_val(c), op)  # structural (bit) equality distinguishes +-0
        return float.__float__(s)

    def _coerce(s, o):
        if isinstance(o, SBool):
            return None
        if isinstance(o, int) and not isinstance(o, float):
            if is_sym(o):
                _pin_int(o, "float(int) mixed arithmetic")
            try:
                return float(int.__index__(o))
            except OverflowError:
                return None
        if isinstance(o, float):
            return o
        return None

    def _bin(s, o, f, zf, refl=False):
        o = s._coerce(o)
        if o is None:
            return NotImplemented
        a, b = (o, s) if refl else (s, o)
        ca, cb = float.__float__(a), float.__float__(b)
        if not f_is_sym(a) and not f_is_sym(b):
            return f(ca, cb)
        if f is _fdiv:
            if branch(z3.fpIsZero(ft(b)), cb == 0.0):
                raise ZeroDivisionError("float division by zero")
        return mkf(SFloat, zf(ft(a), ft(b)), f(ca, cb))

    def __add__(s, o):
        return s._bin(o, lambda a, b: a + b, lambda a, b: z3.fpAdd(RNE, a, b))

    def __radd__(s, o):
        return s._bin(o, lambda a, b: a + b, lambda a, b: z3.fpAdd(RNE, a, b), True)

    def __sub__(s, o):
        return s._bin(o, lambda a, b: a - b, lambda a, b: z3.fpSub(RNE, a, b))

    def __rsub__(s, o):
        return s._bin(o, lambda a, b: a - b, lambda a, b: z3.fpSub(RNE, a, b), True)

    def __mul__(s, o):
        return s._bin(o, lambda a, b: a * b, lambda a, b: z3.fpMul(RNE, a, b))

    def __rmul__(s, o):
        return s._bin(o, lambda a, b: a * b, lambda a, b: z3.fpMul(RNE, a, b), True)

    def __truediv__(s, o):
        return s._bin(o, _fdiv, lambda a, b: z3.fpDiv(RNE, a, b))

    def __rtruediv__(s, o):
        return s._bin(o, _fdiv, lambda a, b: z3.fpDiv(RNE, a, b), True)

    def _pinned_bin(s, o, f, op, refl=False):
        if f_is_sym(s):
            s._pin(op)
        if f_is_sym(o):
            o._pin(op)
        elif is_sym(o):
            _pin_int(o, op)
        a = float.__float__(s)
        b = float.__float__(o) if isinstance(o, float) else o
        return f(b, a) if refl else f(a, b)

    def __mod__(s, o):
        return s._pinned_bin(o, lambda a, b: a % b, "float.__mod__")

    def __rmod__(s, o):
        return s._pinned_bin(o, lambda a, b: a % b, "float.__mod__", True)

    def __floordiv__(s, o):
        return s._pinned_bin(o, lambda a, b: a // b, "float.__floordiv__")

    def __rfloordiv__(s, o):
        return s._pinned_bin(o, lambda a, b: a // b, "float.__floordiv__", True)

    def __pow__(s, o, m=None):
        return s._pinned_bin(o, lambda a, b: a**b, "float.__pow__")

    def __rpow__(s, o, m=None):
        return s._pinned_bin(o, lambda a, b: a**b, "float.__pow__", True)

    def __neg__(s):
        return mkf(SFloat, z3.fpNeg(s._ft), -float.__float__(s)) if f_is_sym(s) else -float.__float__(s)

    def __pos__(s):
        return mkf(SFloat, s._ft, float.__float__(s)) if f_is_sym(s) else float.__float__(s)

    def __abs__(s):
        return mkf(SFloat, z3.fpAbs(s._ft), abs(float.__float__(s))) if f_is_sym(s) else abs(float.__float__(s))

    def _cmp(s, o, f, zf):
        if isinstance(o, SBool):
            return NotImplemented
        if isinstance(o, int) and not isinstance(o, float):
            if f_is_sym(s) or is_sym(o):
                s._pin("int<->float compare")
                _pin_int(o, "int<->float compare")
            return f(float.__float__(s), int.__index__(o))
        if not isinstance(o, float):
            return NotImplemented
        if not f_is_sym(s) and not f_is_sym(o):
            return f(float.__float__(s), float.__float__(o))
        return SBool(zf(ft(s), ft(o)), f(float.__float__(s), float.__float__(o)))

    def __eq__(s, o):
        return s._cmp(o, lambda a, b: a == b, z3.fpEQ)

    def __ne__(s, o):
        return s._cmp(o, lambda a, b: a != b, lambda a, b: z3.Not(z3.fpEQ(a, b)))

    def __lt__(s, o):
        return s._cmp(o, lambda a, b: a < b, z3.fpLT)

    def __le__(s, o):
        return s._cmp(o, lambda a, b: a <= b, z3.fpLEQ)

    def __gt__(s, o):
        return s._cmp(o, lambda a, b: a > b, z3.fpGT)

    def __ge__(s, o):
        return s._cmp(o, lambda a, b: a >= b, z3.fpGEQ)

    def __bool__(s):
        if not f_is_sym(s):
            return float.__float__(s) != 0.0
        return branch(z3.Not(z3.fpIsZero(s._ft)), float.__float__(s) != 0.0)

    def __float__(s):
        if f_is_sym(s):
            return mkf(SFloat, s._ft, float.__float__(s))
        return float.__float__(s)

    def __trunc__(s):
        c = float.__float__(s)
        if not f_is_sym(s):
            return math.trunc(c)
        t = s._ft
        if branch(z3.fpIsNaN(t), c != c):
            raise ValueError("cannot convert float NaN to integer")
        if branch(z3.fpIsInf(t), c in (math.inf, -math.inf)):
            raise OverflowError("cannot convert float infinity to integer")
        lim = float(2 ** (TRUNC_BITS - 1))
        big = z3.Or(z3.fpGEQ(t, fp_val(lim)), z3.fpLEQ(t, fp_val(-lim)))
        if branch(big, abs(c) >= lim):
            # magnitude known, exact value abstracted by a fresh integer (sound over-approximation)
            k = fresh_int("trunc")
            pos = branch(z3.fpGT(t, fp_val(0.0)), c > 0)
            branch((k >= 2 ** (TRUNC_BITS - 1)) if pos else (k <= -(2 ** (TRUNC_BITS - 1))), True, kind="pin")
            return mk(SInt, k, math.trunc(c))
        bv = z3.fpToSBV(RTZ, t, z3.BitVecSort(TRUNC_BITS))
        return mk(SInt, z3.BV2Int(bv, True), math.trunc(c), bv=bv)

    __int__ = __trunc__

    def __hash__(s):
        if f_is_sym(s):
            s._pin("hash(float)")
        return hash(float.__float__(s))

    def __repr__(s):
        if f_is_sym(s):
            CTX.display += 1
        return float.__repr__(float.__float__(s))

    def __str__(s):
        if f_is_sym(s):
            s._pin("str(float)")
        return float.__repr__(float.__float__(s))

    def __format__(s, spec):
        if f_is_sym(s):
            CTX.display += 1
        return float.__format__(float.__float__(s), spec)

    def __reduce__(s):
        return (float, (float.__float__(s),))

    def is_integer(s):
        s._pin("float.is_integer")
        return float.is_integer(float.__float__(s))


# ----------------------------------------------------------------------------- exact rationals (time arithmetic)
def _q_float(cn, den):
    import fractions

    return float(fractions.Fraction(cn, den))


class SRat(SFloat):
    """A float whose value is the exact rational num/den (num a z3 Int, den a positive Python int).

    Produced by the time model for `timedelta.total_seconds()` / `datetime.timestamp()`: those values are integer
    microsecond counts divided by 10**6, and the code under test only scales them by constants, compares them with
    integer bounds and truncates them.  Arithmetic stays exact (binary rounding of the intermediate doubles is
    abstracted; see ASSUMPTIONS of C11); anything else concretises through `_ft`.
    """

    def __new__(cls, num, den, cnum):
        o = float.__new__(cls, _q_float(cnum, den))
        o._q = (num, den, cnum)
        return o

    @property
    def _ft(s):
        num, den, cn = s._q
        pin(num == cn, "float(exact rational)")
        return fp_val(float.__float__(s))

    def _pin(s, op="pin"):
        num, den, cn = s._q
        pin(num == cn, op)
        return float.__float__(s)

    @staticmethod
    def _other(o):
        import fractions

        if isinstance(o, SBool):
            return None
        q = _attr(o, float, "_q")
        if q is not None:
            return q
        if isinstance(o, int) and not isinstance(o, float):
            return (tm(o), 1, iv(o))
        if isinstance(o, float) and not f_is_sym(o):
            c = float.__float__(o)
            if c != c or c in (math.inf, -math.inf):
                return None
            fr = fractions.Fraction(repr(c))  # decimal reading of the constant (1e-9 is 10**-9)
            return (z3.IntVal(fr.numerator), fr.denominator, fr.numerator)
        return None

    @staticmethod
    def _norm(num, den, cn):
        g = math.gcd(den, cn) if z3.is_int_value(num) else 1
        if g > 1:
            return SRat(z3.IntVal(cn // g), den // g, cn // g)
        return SRat(z3.simplify(num), den, cn)

    def _fallback(s, o, name, refl):
        s._pin("float arithmetic on exact rational")
        f = getattr(float, name)
        return f(float.__float__(s), o)

    def _arith(s, o, name, refl=False):
        q = SRat._other(o)
        if q is None:
            if isinstance(o, (int, float)) and not isinstance(o, SBool):
                return s._fallback(o, f"__r{name}__" if refl else f"__{name}__", refl)
            return NotImplemented
        a, b = (q, s._q) if refl else (s._q, q)
        (n1, d1, c1), (n2, d2, c2) = a, b
        if name in ("add", "sub"):
            sg = 1 if name == "add" else -1
            return SRat._norm(n1 * d2 + sg * n2 * d1, d1 * d2, c1 * d2 + sg * c2 * d1)
        if name == "mul":
            if not z3.is_int_value(n1) and not z3.is_int_value(n2):
                pin(n2 == c2, "float product of two symbolic rationals")
                n2 = z3.IntVal(c2)
            return SRat._norm(n1 * n2, d1 * d2, c1 * c2)
        if name == "truediv":
            if not z3.is_int_value(n2):
                if branch(n2 == 0, c2 == 0):
                    raise ZeroDivisionError("float division by zero")
                pin(n2 == c2, "float division by a symbolic rational")
            if c2 == 0:
                raise ZeroDivisionError("float division by zero")
            sg = 1 if c2 > 0 else -1
            return SRat._norm(n1 * (d2 * sg), d1 * abs(c2), c1 * d2 * sg)
        raise AssertionError(name)

    def __add__(s, o):
        return s._arith(o, "add")

    def __radd__(s, o):
        return s._arith(o, "add", True)

    def __sub__(s, o):
        return s._arith(o, "sub")

    def __rsub__(s, o):
        return s._arith(o, "sub", True)

    def __mul__(s, o):
        return s._arith(o, "mul")

    def __rmul__(s, o):
        return s._arith(o, "mul", True)

    def __truediv__(s, o):
        return s._arith(o, "truediv")

    def __rtruediv__(s, o):
        return s._arith(o, "truediv", True)

    def __neg__(s):
        n, d, c = s._q
        return SRat(-n, d, -c)

    def __pos__(s):
        return s

    def __abs__(s):
        n, d, c = s._q
        return SRat(z3.If(n >= 0, n, -n), d, abs(c))

    def _cmp(s, o, f, zf):
        q = SRat._other(o)
        if q is None:
            if isinstance(o, float) and not isinstance(o, SBool):
                c = float.__float__(o)
                if not f_is_sym(o) and (c != c or c in (math.inf, -math.inf)):
                    return f(float.__float__(s), c)
                s._pin("compare exact rational with binary float")
                return f(float.__float__(s), o)
            return NotImplemented
        (n1, d1, c1), (n2, d2, c2) = s._q, q
        return SBool(f(n1 * d2, n2 * d1), f(c1 * d2, c2 * d1))

    def __eq__(s, o):
        return s._cmp(o, lambda a, b: a == b, z3.fpEQ)

    def __ne__(s, o):
        return s._cmp(o, lambda a, b: a != b, None)

    def __lt__(s, o):
        return s._cmp(o, lambda a, b: a < b, z3.fpLT)

    def __le__(s, o):
        return s._cmp(o, lambda a, b: a <= b, z3.fpLEQ)

    def __gt__(s, o):
        return s._cmp(o, lambda a, b: a > b, z3.fpGT)

    def __ge__(s, o):
        return s._cmp(o, lambda a, b: a >= b, z3.fpGEQ)

    def __bool__(s):
        n, d, c = s._q
        return branch(n != 0, c != 0)

    def __float__(s):
        return s

    def __trunc__(s):
        n, d, c = s._q
        q = abs(c) // d
        return mk(SInt, z3.If(n >= 0, n / d, -((-n) / d)), q if c >= 0 else -q)

    __int__ = __trunc__

    def __round__(s, nd=None):
        if nd is not None:
            return s._fallback(nd, "__round__", False)
        n, d, c = s._q
        t, cv = q_round_half_even(n, d, c)
        return mk(SInt, t, cv)

    def __hash__(s):
        s._pin("hash(float)")
        return hash(float.__float__(s))

    def __str__(s):
        s._pin("str(float)")
        return float.__repr__(float.__float__(s))

    def is_integer(s):
        n, d, c = s._q
        return branch(n % d == 0, c % d == 0)


def q_round_half_even(n, d, c):
    """round(n/d) to the nearest integer, ties to even: (term, concrete)"""
    q, r = n / d, n % d
    t = z3.If(2 * r < d, q, z3.If(2 * r > d, q + 1, z3.If(q % 2 == 0, q, q + 1)))
    cq, cr = c // d, c % d
    cv = cq if 2 * cr < d else (cq + 1 if 2 * cr > d else (cq if cq % 2 == 0 else cq + 1))
    return t, cv


def fval_from_model(m, v):
    """Concrete Python float for FP term v under model m (NaN tested first: to_ieee_bv is unspecified for NaN)."""
    if z3.is_true(m.eval(z3.fpIsNaN(v), model_completion=True)):
        return float("nan")
    bits = m.eval(z3.fpToIEEEBV(v), model_completion=True).as_long()
    return struct.unpack("<d", struct.pack("<Q", bits))[0]


# ----------------------------------------------------------------------------- C-function shims (math.*)
def _m_isnan(x):
    if f_is_sym(x):
        return branch(z3.fpIsNaN(x._ft), float.__float__(x) != float.__float__(x))
    return math.isnan(x)


def _m_isinf(x):
    if f_is_sym(x):
        return branch(z3.fpIsInf(x._ft), math.isinf(float.__float__(x)))
    return math.isinf(x)


def _m_isfinite(x):
    if f_is_sym(x):
        return branch(z3.Not(z3.Or(z3.fpIsInf(x._ft), z3.fpIsNaN(x._ft))), math.isfinite(float.__float__(x)))
    return math.isfinite(x)


def _m_copysign(x, y):
    if f_is_sym(x) or f_is_sym(y):
        cy = float.__float__(y) if isinstance(y, float) else float(y)
        cx = float.__float__(x) if isinstance(x, float) else float(x)
        if f_is_sym(y) and branch(z3.fpIsNaN(y._ft), cy != cy):
            y._pin("copysign(nan sign)")
            if f_is_sym(x):
                x._pin("copysign(nan sign)")
            return math.copysign(cx, cy)
        tx, ty = ft(x), ft(y)
        return mkf(SFloat, z3.If(z3.fpIsNegative(ty), z3.fpNeg(z3.fpAbs(tx)), z3.fpAbs(tx)), math.copysign(cx, cy))
    return math.copysign(x, y)


def _m_fabs(x):
    if f_is_sym(x):
        return mkf(SFloat, z3.fpAbs(x._ft), abs(float.__float__(x)))
    return math.fabs(x)


def _pinning_cfunc(fn):
    def shim(*a, **k):
        args = []
        for x in a:
            if f_is_sym(x):
                args.append(x._pin(f"math.{fn.__name__}"))
            elif is_sym(x):
                _pin_int(x, f"math.{fn.__name__}")
                args.append(int.__index__(x))
            elif isinstance(x, (list, tuple)) or hasattr(x, "__next__") or type(x).__name__ in ("map", "generator", "filter"):
                items = []
                for e in x:
                    if f_is_sym(e):
                        items.append(e._pin(f"math.{fn.__name__}"))
                    elif is_sym(e):
                        _pin_int(e, f"math.{fn.__name__}")
                        items.append(int.__index__(e))
                    else:
                        items.append(e)
                args.append(items)
            else:
                args.append(x)
        return fn(*args, **k)
    shim.__name__ = fn.__name__
    return shim


def _m_fsum(xs):
    items = list(xs)
    if any(_attr(e, float, "_q") is not None for e in items) and all(SRat._other(e) is not None for e in items):
        acc = SRat(z3.IntVal(0), 1, 0)
        for e in items:
            acc = acc + e
        return acc
    return _pinning_cfunc(math.fsum)(items)


CFUNC_SHIMS = {math.fsum: _m_fsum, math.isnan: _m_isnan, math.isinf: _m_isinf, math.isfinite: _m_isfinite,
               math.copysign: _m_copysign, math.fabs: _m_fabs}
for _fn in (math.floor, math.ceil, math.fmod, math.sqrt, math.pow, math.modf, math.frexp, math.ldexp,
            math.log, math.log2, math.log10, math.exp, math.gcd, math.isqrt, math.remainder, math.isclose, math.prod):
    CFUNC_SHIMS[_fn] = _pinning_cfunc(_fn)


class MathShim:
    """stand-in for the `math` module object inside shadow-loaded modules"""

    def __getattr__(self, n):
        v = getattr(math, n)
        try:
            return CFUNC_SHIMS.get(v, v)
        except TypeError:
            return v
