"""Stand-in for the `fnmatch` module inside shadow-loaded modules: the pattern is translated by the real
fnmatch.translate and matched through the symbolic regex shim when the subject is symbolic."""
import fnmatch as _fn
import os
import re

from .regex import SymPattern
from .strs import s_is_sym, pin_str, sraw

_cache = {}


def _pat(pattern):
    if s_is_sym(pattern):
        pattern = pin_str(pattern, "fnmatch(pattern)")
    if pattern not in _cache:
        real = re.compile(_fn.translate(pattern))
        try:
            _cache[pattern] = SymPattern(real)
        except Exception:  # noqa: BLE001
            _cache[pattern] = real
    return _cache[pattern]


def fnmatchcase(name, pat):
    p = _pat(sraw(pat) if isinstance(pat, str) else pat)
    if s_is_sym(name) and not isinstance(p, SymPattern):
        name = pin_str(name, "fnmatch(name)")
    return p.match(name) is not None


def fnmatch(name, pat):
    # os.path.normcase is the identity on POSIX
    if os.path is not __import__("posixpath"):
        name, pat = os.path.normcase(name), os.path.normcase(pat)
    return fnmatchcase(name, pat)


translate = _fn.translate
filter = _fn.filter
