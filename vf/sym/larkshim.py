"""Symbolic lexing for the repository's Lark parser.

Lark is pure Python except for the `re` calls of its scanners.  Every BasicLexer of the live contextual lexer (one per LALR
state, plus the root lexer) matches with a list of compiled alternations (`Scanner._mres`); wrapping each of them in
vf.sym.regex.SymPattern makes `Lark.parse(<symbolic text>)` run the real lexer loop, the real line counter, the real token
callbacks and the real LALR driver with the character tests recorded as path conditions.  On concrete text the wrapper
delegates to `re`, so the parser keeps working for every other caller in the process.
"""
from . import regex


def _wrap(scanner, seen):
    if id(scanner) in seen:
        return
    seen[id(scanner)] = True
    scanner._mres = [m if isinstance(m, regex.SymPattern) else regex.SymPattern(m) for m in scanner._mres]


def install(lark_obj):
    """wrap every scanner of the Lark object (idempotent); returns the number of scanners wrapped"""
    lx = lark_obj.parser.lexer
    seen = {}
    for bl in lx.lexers.values():
        _wrap(bl.scanner, seen)
    _wrap(lx.root_lexer.scanner, seen)
    return len(seen)


def parser_of(celparser_instance, celparser_module):
    return getattr(celparser_instance, "parser", None) or celparser_module.CELParser.CEL_PARSER
