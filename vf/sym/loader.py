"""Shadow loading: execute the *unmodified source text* of repository modules (from $VERIF_REPO/src, read on
every run) in module namespaces pre-seeded with symbolic-capable builtins."""
import ast
import importlib.abc
import importlib.machinery
import os
import sys
import types
import typing

from . import core, strs, cont, regex

REPO = os.environ.get("VERIF_REPO", "/repo")
SRC = os.path.join(REPO, "src")


class Rewrite(ast.NodeTransformer):
    """Only operations whose receiver is an immutable builtin that cannot be shadowed by subclassing."""

    def __init__(self):
        self.count = 0

    def visit_Call(self, node):
        self.generic_visit(node)
        f = node.func
        if isinstance(f, ast.Attribute) and not any(isinstance(a, ast.Starred) for a in node.args) \
                and not any(k.arg is None for k in node.keywords):
            if f.attr == "join" and len(node.args) == 1 and not node.keywords:
                self.count += 1
                return ast.copy_location(ast.Call(func=ast.Name(id="__sym_join__", ctx=ast.Load()),
                                                  args=[f.value, node.args[0]], keywords=[]), node)
            if f.attr == "format":
                self.count += 1
                return ast.copy_location(ast.Call(
                    func=ast.Name(id="__sym_format__", ctx=ast.Load()),
                    args=[f.value, ast.Tuple(elts=list(node.args), ctx=ast.Load()),
                          ast.Dict(keys=[ast.Constant(k.arg) for k in node.keywords],
                                   values=[k.value for k in node.keywords])],
                    keywords=[]), node)
        return node

    def visit_JoinedStr(self, node):
        self.generic_visit(node)
        parts = []
        for v in node.values:
            if isinstance(v, ast.Constant):
                parts.append(v)
            else:
                spec = v.format_spec if v.format_spec is not None else ast.Constant("")
                conv = ast.Constant(-1 if v.conversion == -1 else chr(v.conversion))
                parts.append(ast.Call(func=ast.Name(id="__sym_fmtval__", ctx=ast.Load()),
                                      args=[v.value, conv, spec], keywords=[]))
        self.count += 1
        return ast.copy_location(ast.Call(func=ast.Name(id="__sym_fstring__", ctx=ast.Load()),
                                          args=[ast.List(elts=parts, ctx=ast.Load())], keywords=[]), node)

    def visit_Compare(self, node):
        self.generic_visit(node)
        if len(node.ops) == 1 and isinstance(node.ops[0], (ast.In, ast.NotIn)):
            c = node.comparators[0]
            if isinstance(c, (ast.Set, ast.Tuple, ast.List)) and c.elts and all(isinstance(e, ast.Constant) for e in c.elts):
                self.count += 1
                call = ast.Call(func=ast.Name(id="__sym_in__", ctx=ast.Load()),
                                args=[node.left, ast.Tuple(elts=c.elts, ctx=ast.Load())], keywords=[])
                if isinstance(node.ops[0], ast.NotIn):
                    call = ast.UnaryOp(op=ast.Not(), operand=call)
                return ast.copy_location(call, node)
        return node


def _fmtval(value, conv, spec):
    return strs.sym_fmt_value(value, conv, spec)


DISPATCH = {
    "__sym_join__": strs.sym_join,
    "__sym_format__": strs.sym_format,
    "__sym_fstring__": strs.sym_fstring,
    "__sym_fmtval__": _fmtval,
    "__sym_in__": strs.sym_in,
}

BASIC = {"int": core.SInt, "float": core.SFloat, "str": strs.SStr, "bytes": strs.SBytes,
         "chr": strs.sym_chr, "ord": strs.sym_ord, "type": core.TypeShim}


# Modules whose functions either call back into the operands' dunders (so nothing is read behind the shadows' back) or
# never receive data values, or have a dedicated shim.  Built-in functions of any OTHER module that a repository module
# imports (unicodedata, binascii, zlib, time ...) read the raw buffers of their arguments: they are wrapped so that
# symbolic arguments are concretised with a recorded pin first (sound, never a silently dropped dependency).
_SAFE_MODULES = {"operator", "_operator", "functools", "_functools", "itertools", "typing", "collections", "abc", "sys", "os", "logging", "re", "math",
                 "datetime", "json", "lark", "celpy", "xlate", "pendulum", "re2", "types", "enum", "dataclasses", "textwrap", "string", "argparse",
                 "ast", "cmd", "pathlib", "pprint", "warnings", "contextlib", "inspect", "importlib", "builtins", "base64", "csv", "io", "fnmatch",
                 "ipaddress", "urllib", "zlib", "jmespath", "tomllib", "tomli", "yaml", "packaging", "google", "stat", "keyword", "copy", "vf", "z3"}


def _pin_arg(x, op):
    if strs.s_is_sym(x):
        return strs.pin_str(x, op)
    if strs.b_is_sym(x):
        return strs.pin_bytes(x, op)
    if isinstance(x, float) and core.f_is_sym(x):
        return x._pin(op)
    if isinstance(x, int) and core.is_sym(x):
        core._pin_int(x, op)
        return int.__index__(x)
    return x


def _pinning_builtin(fn, label):
    def call(*a, **k):
        op = f"str C function {label}" if any(strs.s_is_sym(x) for x in a) else f"C function {label}"
        return fn(*[_pin_arg(x, op) for x in a], **{n: _pin_arg(v, op) for n, v in k.items()})
    call.__name__ = getattr(fn, "__name__", "call")
    call.__wrapped__ = fn
    return call


class PinningModule:
    """stand-in for a foreign C module inside a shadow-loaded module"""

    def __init__(self, real):
        self.__dict__["_real"] = real

    def __getattr__(self, n):
        v = getattr(self._real, n)
        if isinstance(v, types.BuiltinFunctionType):
            return _pinning_builtin(v, f"{self._real.__name__}.{n}")
        return v


def _wrap_foreign(ns):
    for k, v in list(ns.items()):
        if k.startswith("__"):
            continue
        if isinstance(v, types.ModuleType):
            if v.__name__.split(".")[0] not in _SAFE_MODULES and not hasattr(v, "__path__") and not (getattr(v, "__file__", None) or "").endswith(".py"):
                ns[k] = PinningModule(v)
        elif isinstance(v, types.BuiltinFunctionType) and getattr(v, "__module__", None) and \
                v.__module__.split(".")[0] not in _SAFE_MODULES | {"builtins", "_struct", "time"} and core.CFUNC_SHIMS.get(v) is None:
            ns[k] = _pinning_builtin(v, f"{v.__module__}.{k}")


def _wrap_cfuncs(ns):
    import math
    _wrap_foreign(ns)
    for k, v in list(ns.items()):
        if v is math:
            ns[k] = core.MathShim()
            continue
        try:
            shim = core.CFUNC_SHIMS.get(v)
        except TypeError:
            continue
        if shim is not None:
            ns[k] = shim


def _wrap_patterns(ns):
    _wrap_cfuncs(ns)
    """compiled patterns created while the module body ran -> shims generated from the same pattern text"""
    import re

    def shim(v):
        try:
            return regex.SymPattern(v)
        except Exception:
            return v

    def conv(v):
        """a pattern, or a list / tuple / dict holding patterns (one level) -> the same with shims; None when nothing changed"""
        if isinstance(v, re.Pattern):
            return shim(v)
        if type(v) in (list, tuple) and any(isinstance(x, re.Pattern) for x in v):
            return type(v)(shim(x) if isinstance(x, re.Pattern) else x for x in v)
        if type(v) is dict and any(isinstance(x, re.Pattern) for x in v.values()):
            return {k: (shim(x) if isinstance(x, re.Pattern) else x) for k, x in v.items()}
        return None

    modname = ns.get("__name__")
    for k, v in list(ns.items()):
        n = conv(v)
        if n is not None:
            ns[k] = n
        elif isinstance(v, type) and getattr(v, "__module__", None) == modname:
            # patterns hoisted to class attributes (compiled once while the class body ran)
            for ck, cv in list(vars(v).items()):
                cn = conv(cv)
                if cn is not None:
                    try:
                        setattr(v, ck, cn)
                    except Exception:
                        pass


class Profile:
    """Which modules are shadow-loaded and how."""

    def __init__(self):
        self.mods = {}
        self.rewrites = {}

    def add(self, name, seeds=None, pre=None, post=None, rewrite=True):
        self.mods[name] = dict(seeds=dict(seeds or BASIC), pre=pre, post=post, rewrite=rewrite)
        return self


def _celtypes_pre(module):
    oldL, oldD = typing.List, typing.Dict
    typing.List = typing._alias(cont.SList, 1, inst=False, name="List")
    typing.Dict = typing._alias(cont.SDict, 2, inst=False, name="Dict")
    state = {"L": oldL, "D": oldD}
    tm = os.environ.get("VERIF_TIME_SHADOW")
    if tm:
        from . import times
        state["dt"] = times.install_fake_datetime()
    return state


def _celtypes_post(module, state):
    typing.List, typing.Dict = state["L"], state["D"]
    if "dt" in state:
        from . import times
        times.uninstall_fake_datetime(state["dt"])
        module.timezone = times.wrap_pendulum_timezone(module.timezone)
        # an (empty) alias table probed with a symbolic zone name must not hash -- and thereby concretise -- the name
        module.TimestampType.TZ_ALIASES = cont.SDict(module.TimestampType.TZ_ALIASES)
    module.re = regex.ReModuleShim()
    _wrap_patterns(module.__dict__)
    if "pendulum" in module.__dict__ and isinstance(module.__dict__["pendulum"], types.ModuleType):
        module.pendulum = _PinningCallables(module.__dict__["pendulum"], {"parse", "from_format", "timezone", "duration"})


class _PinningCallables:
    """a foreign pure-Python package whose functions end in C code (pendulum.parse -> re): symbolic arguments are pinned"""

    def __init__(self, real, names):
        self.__dict__["_real"], self.__dict__["_names"] = real, names

    def __getattr__(self, n):
        v = getattr(self._real, n)
        if n in self._names and callable(v):
            return _pinning_builtin(v, f"{self._real.__name__}.{n}")
        return v


def _evaluation_post(module, state):
    module.re = regex.ReModuleShim()
    _wrap_patterns(module.__dict__)
    nc = module.NameContainer
    # class-level patterns are applied to concrete names only; leave them real.


def _generic_post(module, state):
    if "re" in module.__dict__:
        import re as _re
        if module.__dict__["re"] is _re:
            module.re = regex.ReModuleShim()
    _wrap_patterns(module.__dict__)


def default_profile():
    p = Profile()
    p.add("celpy.celtypes", pre=_celtypes_pre, post=_celtypes_post)
    p.add("celpy.evaluation", post=_evaluation_post)
    return p


_CODE_CACHE = {}


class Finder(importlib.abc.MetaPathFinder):
    def __init__(self, profile):
        self.profile = profile
        self.loaded = {}

    def find_spec(self, name, path, target=None):
        cfg = self.profile.mods.get(name)
        if cfg is None:
            return None
        spec = importlib.machinery.PathFinder.find_spec(name, path)
        if spec is None or not spec.origin or not spec.origin.endswith(".py"):
            return None
        origin = spec.origin
        finder = self

        class L(importlib.abc.Loader):
            def create_module(self, spec):
                return None

            def exec_module(self, module):
                module.__dict__.update(cfg["seeds"])
                module.__dict__.update(DISPATCH)
                state = cfg["pre"](module) if cfg["pre"] else None
                try:
                    code = _CODE_CACHE.get(origin)
                    if code is None:
                        with open(origin, encoding="utf-8") as fh:
                            source = fh.read()
                        tree = ast.parse(source, origin)
                        if cfg["rewrite"]:
                            rw = Rewrite()
                            tree = rw.visit(tree)
                            ast.fix_missing_locations(tree)
                            finder.profile.rewrites[name] = rw.count
                        code = compile(tree, origin, "exec")
                        _CODE_CACHE[origin] = code  # per process: the source is read once per run of a check
                    exec(code, module.__dict__)
                finally:
                    if cfg["post"]:
                        cfg["post"](module, state)
                # seeds survive because builtins are never imported; names that the module *imports* overwrite
                # seeds, so re-seed those that were explicitly requested and clobbered by imports of the same name
                finder.loaded[name] = origin

        spec.loader = L()
        return spec


_INSTALLED = None


def install(profile=None):
    """Install the finder (idempotent) and make $VERIF_REPO/src importable. Must run before `import celpy`."""
    global _INSTALLED
    if _INSTALLED is not None:
        return _INSTALLED
    if any(m == "celpy" or m.startswith("celpy.") or m.startswith("xlate") for m in sys.modules):
        raise RuntimeError("celpy already imported: shadow loader must be installed first")
    if SRC not in sys.path:
        sys.path.insert(0, SRC)
    f = Finder(profile or default_profile())
    sys.meta_path.insert(0, f)
    _INSTALLED = f
    return f


def purge():
    """Forget every repository module (fresh reload for history-independence checks)."""
    for m in [m for m in sys.modules if m == "celpy" or m.startswith("celpy.") or m == "xlate" or m.startswith("xlate.")]:
        del sys.modules[m]
