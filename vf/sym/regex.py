"""Symbolic regex shim generated from the *real* compiled pattern (re._parser.parse of its text and flags).

A backtracking matcher over symbolic code points that enumerates candidate matches in `re`'s priority
order; each candidate carries the conjunction of character conditions it needs.  The first candidate
whose condition is true under the current model is the match `re` would return; the rejected earlier
candidates contribute their negated conditions to the path.  Every result is asserted equal to the
real `re` result on the concrete model (continuous validation of the translation).
"""
import re
import re._constants as C
import re._parser as sre_parse

import z3

from .core import CTX, EngineAbort, branch
from .strs import SStr, cterms, mks, pin_str, s_is_sym, sraw

MAXREPEAT = C.MAXREPEAT


class Unsupported(Exception):
    pass


def _cat_term(cat, t):
    if cat == C.CATEGORY_DIGIT:
        # ASCII digits; other Unicode Nd code points are excluded by the caller's precondition or handled by
        # validation against `re` (a mismatch aborts the path as a harness error, never a verdict)
        return z3.And(t >= 48, t <= 57)
    if cat == C.CATEGORY_NOT_DIGIT:
        return z3.Not(z3.And(t >= 48, t <= 57))
    if cat == C.CATEGORY_SPACE:
        return z3.Or([t == c for c in (9, 10, 11, 12, 13, 32, 28, 29, 30, 31, 0x85, 0xA0)])
    if cat == C.CATEGORY_NOT_SPACE:
        return z3.Not(_cat_term(C.CATEGORY_SPACE, t))
    if cat == C.CATEGORY_WORD:
        return z3.Or(z3.And(t >= 48, t <= 57), z3.And(t >= 65, t <= 90), z3.And(t >= 97, t <= 122), t == 95)
    if cat == C.CATEGORY_NOT_WORD:
        return z3.Not(_cat_term(C.CATEGORY_WORD, t))
    raise Unsupported(f"category {cat}")


def _in_term(items, t, flags):
    neg, alts = False, []
    for op, av in items:
        if op == C.NEGATE:
            neg = True
        elif op == C.LITERAL:
            alts.append(_lit(t, av, flags))
        elif op == C.RANGE:
            alts.append(z3.And(t >= av[0], t <= av[1]))
        elif op == C.CATEGORY:
            alts.append(_cat_term(av, t))
        else:
            raise Unsupported(f"class item {op}")
    r = z3.Or(alts) if alts else z3.BoolVal(False)
    return z3.Not(r) if neg else r


def _lit(t, av, flags):
    if flags & re.I:
        ch = chr(av)
        lo, up = ord(ch.lower()) if len(ch.lower()) == 1 else av, ord(ch.upper()) if len(ch.upper()) == 1 else av
        return z3.Or(t == av, t == lo, t == up)
    return t == av


def _c_lit(o, av, flags):
    if flags & re.I:
        ch = chr(av)
        lo = ord(ch.lower()) if len(ch.lower()) == 1 else av
        up = ord(ch.upper()) if len(ch.upper()) == 1 else av
        return o in (av, lo, up)
    return o == av


def _c_cat(cat, o):
    if cat == C.CATEGORY_DIGIT:
        return 48 <= o <= 57
    if cat == C.CATEGORY_NOT_DIGIT:
        return not (48 <= o <= 57)
    if cat == C.CATEGORY_SPACE:
        return o in (9, 10, 11, 12, 13, 32, 28, 29, 30, 31, 0x85, 0xA0)
    if cat == C.CATEGORY_NOT_SPACE:
        return not _c_cat(C.CATEGORY_SPACE, o)
    if cat == C.CATEGORY_WORD:
        return 48 <= o <= 57 or 65 <= o <= 90 or 97 <= o <= 122 or o == 95
    if cat == C.CATEGORY_NOT_WORD:
        return not _c_cat(C.CATEGORY_WORD, o)
    raise Unsupported(f"category {cat}")


def _c_in(items, o, flags):
    """concrete twin of _in_term (same ASCII-restricted categories: a disagreement with `re` on exotic code points is
    caught by the per-match validation and aborts the path as a harness error)"""
    neg, hit = False, False
    for op, av in items:
        if op == C.NEGATE:
            neg = True
        elif op == C.LITERAL:
            hit = hit or _c_lit(o, av, flags)
        elif op == C.RANGE:
            hit = hit or av[0] <= o <= av[1]
        elif op == C.CATEGORY:
            hit = hit or _c_cat(av, o)
    return (not hit) if neg else hit


class _Matcher:
    """Concolic backtracking matcher: mirrors `re`'s search order on the concrete string and records every
    character test it performs as a branch (so the path condition is exactly the set of tests the engine made)."""

    def __init__(self, tree, flags, terms, conc):
        self.tree, self.flags, self.terms, self.conc = tree, flags, terms, conc
        self.n = len(terms)
        self.sub = [(t, z3.IntVal(ord(ch))) for t, ch in zip(terms, conc) if not z3.is_int_value(t)]

    def test(self, cond, concrete):
        """record the character test; `concrete` is its truth on the concrete string (computed in Python, not via z3)"""
        cond = z3.simplify(cond)
        if z3.is_true(cond) or z3.is_false(cond):
            return z3.is_true(cond)
        return branch(cond, concrete)

    def seq(self, nodes, pos, groups):
        """yield (endpos, groups) for matching the node sequence at pos, in backtracking priority order"""
        if not nodes:
            yield pos, groups
            return
        (op, av), rest = nodes[0], nodes[1:]
        if op == C.BRANCH:
            for alt in av[1]:
                yield from self.seq(list(alt) + rest, pos, groups)
            return
        if op == C.SUBPATTERN:
            gid, add_flags, del_flags, sub = av
            if add_flags or del_flags:
                raise Unsupported("inline flags")
            if gid is None:
                yield from self.seq(list(sub) + rest, pos, groups)
                return
            for e, g in self.seq(list(sub), pos, groups):
                g2 = dict(g)
                g2[gid] = (pos, e)
                yield from self.seq(rest, e, g2)
            return
        if op in (C.MAX_REPEAT, C.MIN_REPEAT):
            lo, hi, sub = av
            yield from self.repeat(list(sub), lo, hi, op == C.MAX_REPEAT, rest, pos, groups, 0)
            return
        if op == C.AT:
            ok = None
            if av in (C.AT_BEGINNING, C.AT_BEGINNING_STRING):
                if pos == 0:
                    ok = True
                elif av == C.AT_BEGINNING and (self.flags & re.M):
                    ok = self.test(self.terms[pos - 1] == 10, self.conc[pos - 1] == "\n")
            elif av == C.AT_END:
                if pos == self.n:
                    ok = True
                elif self.flags & re.M:
                    ok = self.test(self.terms[pos] == 10, self.conc[pos] == "\n")
                elif pos == self.n - 1:
                    ok = self.test(self.terms[pos] == 10, self.conc[pos] == "\n")
            elif av == C.AT_END_STRING:
                ok = pos == self.n
            else:
                raise Unsupported(f"at {av}")
            if ok:
                yield from self.seq(rest, pos, groups)
            return
        # single-character consumers
        if pos >= self.n:
            return
        t = self.terms[pos]
        o = ord(self.conc[pos])
        if op == C.LITERAL:
            c, cc = _lit(t, av, self.flags), _c_lit(o, av, self.flags)
        elif op == C.NOT_LITERAL:
            c, cc = z3.Not(_lit(t, av, self.flags)), not _c_lit(o, av, self.flags)
        elif op == C.IN:
            c, cc = _in_term(av, t, self.flags), _c_in(av, o, self.flags)
        elif op == C.ANY:
            c, cc = (z3.BoolVal(True), True) if self.flags & re.S else ((t != 10), o != 10)
        else:
            raise Unsupported(f"op {op}")
        if self.test(c, cc):
            yield from self.seq(rest, pos + 1, groups)

    def repeat(self, sub, lo, hi, greedy, rest, pos, groups, count):
        can_stop = count >= lo
        can_more = (hi == MAXREPEAT or count < hi)

        def more():
            if not can_more:
                return
            for e, g in self.seq(sub, pos, groups):
                if e == pos and count >= lo:
                    continue  # empty iteration: re stops the loop
                yield from self.repeat(sub, lo, hi, greedy, rest, e, g, count + 1)

        def stop():
            if can_stop:
                yield from self.seq(rest, pos, groups)

        if greedy:
            yield from more()
            yield from stop()
        else:
            yield from stop()
            yield from more()


def _ceval(c, sub):
    return z3.is_true(z3.simplify(z3.substitute(c, *sub))) if sub else z3.is_true(z3.simplify(c))


_OK_OPS = {C.LITERAL, C.NOT_LITERAL, C.IN, C.ANY, C.BRANCH, C.SUBPATTERN, C.MAX_REPEAT, C.MIN_REPEAT, C.AT}


def _validate(nodes):
    for op, av in nodes:
        if op not in _OK_OPS:
            raise Unsupported(f"op {op}")
        if op == C.BRANCH:
            for alt in av[1]:
                _validate(list(alt))
        elif op == C.SUBPATTERN:
            if av[1] or av[2]:
                raise Unsupported("inline flags")
            _validate(list(av[3]))
        elif op in (C.MAX_REPEAT, C.MIN_REPEAT):
            _validate(list(av[2]))
        elif op == C.IN:
            for o, a in av:
                if o not in (C.NEGATE, C.LITERAL, C.RANGE, C.CATEGORY):
                    raise Unsupported(f"class item {o}")


class SymMatch:
    def __init__(self, s, start, end, groups, ngroups, names, lastgroup_name=None):
        self.string, self.st, self.en = s, start, end
        self._g, self._n, self._names = groups, ngroups, names
        self.lastgroup = lastgroup_name

    def _one(self, g):
        if isinstance(g, str):
            g = self._names[g]
        if g == 0:
            return self.string[self.st:self.en]
        if g not in self._g:
            return None
        a, b = self._g[g]
        return self.string[a:b]

    def group(self, *a):
        if not a:
            return self._one(0)
        if len(a) == 1:
            return self._one(a[0])
        return tuple(self._one(g) for g in a)

    def groups(self, default=None):
        return tuple(self._one(i) if i in self._g else default for i in range(1, self._n + 1))

    def __getitem__(self, g):
        return self._one(g)

    def start(self, g=0):
        return self.st if g == 0 else self._g[g][0]

    def end(self, g=0):
        return self.en if g == 0 else self._g[g][1]

    def span(self, g=0):
        return (self.start(g), self.end(g))


class SymPattern:
    """Drop-in for a compiled `re.Pattern` that understands SStr subjects."""

    def __init__(self, real):
        self.real = real
        self.flags = real.flags
        self.pattern = real.pattern
        parsed = sre_parse.parse(real.pattern, real.flags)
        self.tree = list(parsed)
        if self.tree and self.tree[0][0] == C.SUBPATTERN and self.tree[0][1][0] is None and self.tree[0][1][1] and not self.tree[0][1][2] \
                and all(op == C.AT for op, _ in self.tree[1:]):
            # `(?flags:...)` spanning the whole pattern: fold the flags into the pattern flags
            self.flags |= self.tree[0][1][1]
            self.tree = list(self.tree[0][1][3]) + self.tree[1:]
        _validate(self.tree)
        self.ngroups = real.groups
        self.names = dict(real.groupindex)
        self.stats = {"matches": 0, "candidates": 0}

    def __getattr__(self, n):
        return getattr(self.real, n)

    def _match_at(self, s, pos, full=False):
        terms, conc = cterms(s), sraw(s)
        real_m = self.real.fullmatch(conc, pos) if full else self.real.match(conc, pos)
        m = _Matcher(self.tree, self.flags, terms, conc)
        taken = None
        nodes = self.tree + ([(C.AT, C.AT_END_STRING)] if full else [])
        for e, g in m.seq(nodes, pos, {}):
            taken = (e, g)
            break
        self.stats["matches"] += 1
        if (taken is None) != (real_m is None) or (taken is not None and taken[0] != real_m.end()):
            raise EngineAbort(f"regex shim disagrees with re for {self.pattern[:60]!r} on {conc!r} at {pos}")
        if taken is None:
            return None
        e, g = taken
        for gid, (a, b) in g.items():
            if real_m.span(gid) != (a, b):
                raise EngineAbort(f"regex shim group {gid} disagrees with re for {self.pattern[:60]!r} on {conc!r}")
        return SymMatch(s, pos, e, g, self.ngroups, self.names, real_m.lastgroup)

    def match(self, s, pos=0, *a):
        if s_is_sym(s) and len(a) == 1 and isinstance(a[0], int) and a[0] >= len(s):
            a = ()  # endpos at (or past) the end of the text: same as no endpos (Lark's Scanner passes text.end)
        if not s_is_sym(s) or a:
            return self.real.match(pin_str(s, "re.match(args)") if s_is_sym(s) else s, pos, *a)
        return self._match_at(s, pos)

    def fullmatch(self, s, pos=0, *a):
        if not s_is_sym(s) or a:
            return self.real.fullmatch(pin_str(s, "re.fullmatch(args)") if s_is_sym(s) else s, pos, *a)
        return self._match_at(s, pos, full=True)

    def search(self, s, pos=0, *a):
        if not s_is_sym(s) or a:
            return self.real.search(pin_str(s, "re.search(args)") if s_is_sym(s) else s, pos, *a)
        for p in range(pos, len(s) + 1):
            m = self._match_at(s, p)
            if m is not None:
                return m
        return None

    def finditer(self, s, *a):
        if not s_is_sym(s) or a:
            return self.real.finditer(pin_str(s, "re.finditer(args)") if s_is_sym(s) else s, *a)
        return self._finditer(s)

    def _finditer(self, s):
        pos, n = 0, len(s)
        while pos <= n:
            m = self._match_at(s, pos)
            if m is None:
                pos += 1
                continue
            yield m
            pos = m.en if m.en > m.st else m.en + 1

    def findall(self, s, *a):
        if not s_is_sym(s) or a:
            return self.real.findall(pin_str(s, "re.findall(args)") if s_is_sym(s) else s, *a)
        out = []
        for m in self._finditer(s):
            if self.ngroups == 0:
                out.append(m.group())
            elif self.ngroups == 1:
                out.append(m.group(1) if m.group(1) is not None else "")
            else:
                out.append(tuple(x if x is not None else "" for x in m.groups()))
        return out

    def sub(self, repl, s, count=0):
        if not s_is_sym(s) and not s_is_sym(repl):
            return self.real.sub(repl, s, count)
        if callable(repl) or "\\" in sraw(repl):
            return self.real.sub(repl, pin_str(s, "re.sub(callable/backref)"), count)
        out, last, k = [], 0, 0
        for m in self._finditer(s):
            out.append(s[last:m.st])
            out.append(repl)
            last = m.en
            k += 1
            if count and k >= count:
                break
        out.append(s[last:])
        from .strs import sym_join
        return sym_join("", out)

    def split(self, s, maxsplit=0):
        return self.real.split(pin_str(s, "re.split") if s_is_sym(s) else s, maxsplit)


class ReModuleShim:
    """Stand-in for the `re` module inside a shadow-loaded module: compile() returns SymPattern when possible."""

    def __init__(self):
        self._cache = {}

    def __getattr__(self, n):
        return getattr(re, n)

    def compile(self, pattern, flags=0):
        if s_is_sym(pattern):
            pattern = pin_str(pattern, "re.compile(pattern)")
        real = re.compile(pattern, flags)
        key = (real.pattern, real.flags)
        if key not in self._cache:
            try:
                self._cache[key] = SymPattern(real)
            except Exception:
                self._cache[key] = real
        return self._cache[key]

    def match(self, pattern, s, flags=0):
        return self.compile(pattern, flags).match(s)

    def fullmatch(self, pattern, s, flags=0):
        return self.compile(pattern, flags).fullmatch(s)

    def search(self, pattern, s, flags=0):
        return self.compile(pattern, flags).search(s)

    def finditer(self, pattern, s, flags=0):
        return self.compile(pattern, flags).finditer(s)

    def findall(self, pattern, s, flags=0):
        return self.compile(pattern, flags).findall(s)

    def sub(self, pattern, repl, s, count=0, flags=0):
        return self.compile(pattern, flags).sub(repl, s, count)

    def escape(self, s):
        return re.escape(pin_str(s, "re.escape") if s_is_sym(s) else s)
