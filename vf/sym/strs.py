"""Symbolic strings / bytes: concrete length, one z3 Int term per code point / octet."""
import string as _string

import z3

from .core import CTX, SBool, SInt, _Meta, _attr, branch, f_is_sym, is_sym, iv, mk, pin, tm, sym_index


# ----------------------------------------------------------------------------- helpers
def s_is_sym(x):
    return _attr(x, str, "_cs") is not None


def sraw(x):
    return str.__str__(x)


def cterms(x):
    cs = _attr(x, str, "_cs")
    if cs is not None:
        return cs
    return [z3.IntVal(ord(c)) for c in str.__str__(x)]


def mks(cls, terms, conc):
    terms = list(terms)
    assert len(terms) == len(conc), (len(terms), conc)
    if all(z3.is_int_value(t) for t in terms):
        # fully concrete: plain string of the class (keeps C fast paths exact)
        if cls is SStr:
            return conc
        return str.__new__(cls, conc)
    o = str.__new__(cls, conc)
    o._cs = terms
    return o


def pin_str(x, op):
    if s_is_sym(x):
        conc = str.__str__(x)
        eqs = [t == ord(c) for t, c in zip(x._cs, conc) if not z3.is_int_value(t)]
        if eqs:
            pin(z3.And(eqs) if len(eqs) > 1 else eqs[0], op)
    return str.__str__(x)


def eq_term(a, b):
    ta, tb = cterms(a), cterms(b)
    if len(ta) != len(tb):
        return z3.BoolVal(False)
    if not ta:
        return z3.BoolVal(True)
    return z3.And([x == y for x, y in zip(ta, tb)])


def lt_term(ta, tb, strict=True):
    """lexicographic comparison of two code point term lists"""
    if not ta:
        return z3.BoolVal(bool(tb)) if strict else z3.BoolVal(True)
    if not tb:
        return z3.BoolVal(False)
    return z3.Or(ta[0] < tb[0], z3.And(ta[0] == tb[0], lt_term(ta[1:], tb[1:], strict)))


def contains_term(hay, needle):
    n, m = len(hay), len(needle)
    if m == 0:
        return z3.BoolVal(True)
    if m > n:
        return z3.BoolVal(False)
    alts = []
    for i in range(n - m + 1):
        alts.append(z3.And([hay[i + j] == needle[j] for j in range(m)]))
    return z3.Or(alts)


ASCII_WS = (9, 10, 11, 12, 13, 28, 29, 30, 31, 32)
# str.isspace()/strip() whitespace beyond ASCII:
UNI_WS = (0x85, 0xA0, 0x1680, 0x2000, 0x2001, 0x2002, 0x2003, 0x2004, 0x2005, 0x2006, 0x2007, 0x2008,
          0x2009, 0x200A, 0x2028, 0x2029, 0x202F, 0x205F, 0x3000)


def is_ws_term(t):
    return z3.Or([t == c for c in ASCII_WS + UNI_WS])


# ----------------------------------------------------------------------------- SStr
class SStr(str, metaclass=_Meta):
    _shadow_of = str

    def __new__(cls, value="", *a, **k):
        if not a and not k:
            if s_is_sym(value):
                return mks(cls, value._cs, str.__str__(value))
            if not isinstance(value, str):
                if is_sym(value) and isinstance(value, int):
                    r = type(value).__str__(value)
                    return mks(cls, cterms(r), str.__str__(r)) if s_is_sym(r) else (
                        str(r) if cls is SStr else str.__new__(cls, r))
                ty = type(value)
                if f_is_sym(value) or b_is_sym(value):
                    r = ty.__str__(value)
                    if s_is_sym(r):
                        return mks(cls, r._cs, str.__str__(r))
                    return str(r) if cls is SStr else str.__new__(cls, r)
        elif b_is_sym(value):
            r = value.decode(*a, **k)
            return mks(cls, cterms(r), str.__str__(r))
        if cls is SStr:
            return str(value, *a, **k)
        return str.__new__(cls, value, *a, **k)

    def _raw(s):
        return str.__str__(s)

    def __len__(s):
        return str.__len__(s)

    def __getitem__(s, i):
        if not s_is_sym(s):
            return str.__getitem__(s, sym_index(i) if not isinstance(i, slice) else i)
        if isinstance(i, slice):
            i = slice(*(None if x is None else sym_index(x) for x in (i.start, i.stop, i.step)))
            return mks(SStr, s._cs[i], s._raw()[i])
        i = sym_index(i, "str index")
        return mks(SStr, [s._cs[i]], s._raw()[i])

    def __iter__(s):
        if not s_is_sym(s):
            return str.__iter__(s)
        return iter([mks(SStr, [t], c) for t, c in zip(s._cs, s._raw())])

    def __eq__(s, o):
        if not isinstance(o, str):
            return NotImplemented
        if not s_is_sym(s) and not s_is_sym(o):
            return str.__eq__(s, o)
        return SBool(eq_term(s, o), sraw(s) == sraw(o))

    def __ne__(s, o):
        if not isinstance(o, str):
            return NotImplemented
        if not s_is_sym(s) and not s_is_sym(o):
            return str.__ne__(s, o)
        return SBool(z3.Not(eq_term(s, o)), sraw(s) != sraw(o))

    def _ord(s, o, f, zf):
        if not isinstance(o, str):
            return NotImplemented
        if not s_is_sym(s) and not s_is_sym(o):
            return f(sraw(s), sraw(o))
        return SBool(zf(cterms(s), cterms(o)), f(sraw(s), sraw(o)))

    def __lt__(s, o):
        return s._ord(o, lambda a, b: a < b, lambda a, b: lt_term(a, b, True))

    def __le__(s, o):
        return s._ord(o, lambda a, b: a <= b, lambda a, b: lt_term(a, b, False))

    def __gt__(s, o):
        return s._ord(o, lambda a, b: a > b, lambda a, b: lt_term(b, a, True))

    def __ge__(s, o):
        return s._ord(o, lambda a, b: a >= b, lambda a, b: lt_term(b, a, False))

    def __hash__(s):
        pin_str(s, "hash(str)")
        return str.__hash__(s)

    def __bool__(s):
        return str.__len__(s) > 0

    def __add__(s, o):
        if not isinstance(o, str):
            return NotImplemented
        if not s_is_sym(s) and not s_is_sym(o):
            return str.__add__(s, o)
        return mks(SStr, cterms(s) + cterms(o), sraw(s) + sraw(o))

    def __radd__(s, o):
        if not isinstance(o, str):
            return NotImplemented
        return mks(SStr, cterms(o) + cterms(s), sraw(o) + sraw(s))

    def __mul__(s, n):
        # CPython tries the right operand's nb_multiply (a user-defined __rmul__ on an int subclass) before the
        # string's sequence repeat; a Python-level __mul__ here would otherwise pre-empt it
        for k in type(n).__mro__:
            if "_shadow_of" in k.__dict__ or k in (int, object):
                break
            if "__rmul__" in k.__dict__:
                r = k.__dict__["__rmul__"](n, s)
                if r is not NotImplemented:
                    return r
                break
        n = sym_index(n)
        if n > 10_000_000:
            raise MemoryError()
        return mks(SStr, cterms(s) * n, sraw(s) * n)

    __rmul__ = __mul__

    def __mod__(s, args):
        pin_str(s, "str %")
        return str.__mod__(sraw(s), args)

    def __contains__(s, o):
        if not isinstance(o, str):
            raise TypeError(f"'in <string>' requires string as left operand, not {type(o).__name__}")
        if not s_is_sym(s) and not s_is_sym(o):
            return str.__contains__(s, o)
        return branch(contains_term(cterms(s), cterms(o)), sraw(o) in sraw(s))

    def startswith(s, prefix, *a):
        if a or not isinstance(prefix, (str, tuple)):
            pin_str(s, "str.startswith(args)")
            return str.startswith(sraw(s), prefix, *a)
        if isinstance(prefix, tuple):
            return any(s.startswith(p) for p in prefix)
        if not s_is_sym(s) and not s_is_sym(prefix):
            return str.startswith(s, prefix)
        n = len(prefix)
        if n > len(s):
            return False
        return branch(eq_term(s[:n], prefix), sraw(s).startswith(sraw(prefix)))

    def endswith(s, suffix, *a):
        if a or not isinstance(suffix, (str, tuple)):
            pin_str(s, "str.endswith(args)")
            return str.endswith(sraw(s), suffix, *a)
        if isinstance(suffix, tuple):
            return any(s.endswith(p) for p in suffix)
        if not s_is_sym(s) and not s_is_sym(suffix):
            return str.endswith(s, suffix)
        n = len(suffix)
        if n > len(s):
            return False
        if n == 0:
            return True
        return branch(eq_term(s[len(s) - n:], suffix), sraw(s).endswith(sraw(suffix)))

    def lower(s):
        if not s_is_sym(s):
            return str.lower(s)
        out = []
        conc = sraw(s)
        for t, c in zip(s._cs, conc):
            if z3.is_int_value(t):
                lc = c.lower()
                if len(lc) != 1:
                    pin_str(s, "str.lower(non-1:1)")
                    return str.lower(conc)
                out.append(z3.IntVal(ord(lc)))
                continue
            if branch(t < 128, ord(c) < 128):
                out.append(z3.If(z3.And(t >= 65, t <= 90), t + 32, t))
            else:
                pin(t == ord(c), "str.lower(non-ascii)")
                lc = c.lower()
                if len(lc) != 1:
                    pin_str(s, "str.lower(non-1:1)")
                    return str.lower(conc)
                out.append(z3.IntVal(ord(lc)))
        return mks(SStr, out, conc.lower())

    def upper(s):
        if not s_is_sym(s):
            return str.upper(s)
        out = []
        conc = sraw(s)
        for t, c in zip(s._cs, conc):
            if not z3.is_int_value(t) and branch(t < 128, ord(c) < 128):
                out.append(z3.If(z3.And(t >= 97, t <= 122), t - 32, t))
            else:
                if not z3.is_int_value(t):
                    pin(t == ord(c), "str.upper(non-ascii)")
                uc = c.upper()
                if len(uc) != 1:
                    pin_str(s, "str.upper(non-1:1)")
                    return str.upper(conc)
                out.append(z3.IntVal(ord(uc)))
        return mks(SStr, out, conc.upper())

    def _strip(s, chars, left, right, name):
        if not s_is_sym(s) and not s_is_sym(chars):
            return getattr(str, name)(s, chars)
        conc = sraw(s)
        cs = cterms(s)
        if chars is None:
            test = lambda t: is_ws_term(t)
            ctest = lambda c: c.isspace()
        else:
            chs = cterms(chars)
            craw = sraw(chars)
            test = lambda t: z3.Or([t == x for x in chs]) if chs else z3.BoolVal(False)
            ctest = lambda c: c in craw
        i, j = 0, len(cs)
        if left:
            while i < j and branch(test(cs[i]), ctest(conc[i])):
                i += 1
        if right:
            while j > i and branch(test(cs[j - 1]), ctest(conc[j - 1])):
                j -= 1
        return mks(SStr, cs[i:j], conc[i:j])

    def strip(s, chars=None):
        return s._strip(chars, True, True, "strip")

    def lstrip(s, chars=None):
        return s._strip(chars, True, False, "lstrip")

    def rstrip(s, chars=None):
        return s._strip(chars, False, True, "rstrip")

    def _find_all(s, sep):
        """positions where sep occurs (non-overlapping, left to right), branching per candidate position"""
        cs, conc = cterms(s), sraw(s)
        sp, sraw_ = cterms(sep), sraw(sep)
        m = len(sp)
        pos, i = [], 0
        while i + m <= len(cs):
            cond = z3.And([cs[i + k] == sp[k] for k in range(m)]) if m > 1 else cs[i] == sp[0]
            if branch(cond, conc[i:i + m] == sraw_):
                pos.append(i)
                i += m
            else:
                i += 1
        return pos

    def split(s, sep=None, maxsplit=-1):
        if not s_is_sym(s) and not s_is_sym(sep):
            return str.split(s, sep, sym_index(maxsplit))
        if sep is None or len(sep) == 0:
            pin_str(s, "str.split(whitespace)")
            return str.split(sraw(s), sep, maxsplit)
        maxsplit = sym_index(maxsplit)
        pos = s._find_all(sep)
        if maxsplit >= 0:
            pos = pos[:maxsplit]
        out, start, m = [], 0, len(sep)
        for p in pos:
            out.append(s[start:p])
            start = p + m
        out.append(s[start:])
        return out

    def splitlines(s, keepends=False):
        """line boundaries as str.splitlines defines them, decided per character on the terms"""
        if not s_is_sym(s):
            return str.splitlines(s, keepends)
        if keepends:
            pin_str(s, "str.splitlines(keepends)")
            return str.splitlines(sraw(s), True)
        BOUNDS = (10, 11, 12, 13, 28, 29, 30, 0x85, 0x2028, 0x2029)
        cs, raw = s._cs, sraw(s)
        out, start, i, n = [], 0, 0, len(raw)
        while i < n:
            if branch(z3.Or([cs[i] == b for b in BOUNDS]), ord(raw[i]) in BOUNDS):
                out.append(s[start:i])
                if i + 1 < n and branch(z3.And(cs[i] == 13, cs[i + 1] == 10), raw[i] == "\r" and raw[i + 1] == "\n"):
                    i += 1
                start = i + 1
            i += 1
        if start < n:
            out.append(s[start:])
        expect = str.splitlines(raw)
        assert [sraw(x) if isinstance(x, str) else x for x in out] == expect, (out, expect)
        return out

    def rsplit(s, sep=None, maxsplit=-1):
        if not s_is_sym(s) and not s_is_sym(sep):
            return str.rsplit(s, sep, sym_index(maxsplit))
        maxsplit = sym_index(maxsplit)
        if sep is None or len(sep) != 1:
            pin_str(s, "str.rsplit(general)")
            return str.rsplit(sraw(s), sep, maxsplit)
        pos = s._find_all(sep)  # 1-char separators: occurrences are position-independent
        if maxsplit >= 0:
            pos = pos[len(pos) - maxsplit:] if maxsplit else []
        out, start = [], 0
        for p in pos:
            out.append(s[start:p])
            start = p + 1
        out.append(s[start:])
        return out

    def partition(s, sep):
        if not s_is_sym(s) and not s_is_sym(sep):
            return str.partition(s, sep)
        pos = s._find_all(sep)
        if not pos:
            return (s, "", "")
        p = pos[0]
        return (s[:p], sep, s[p + len(sep):])

    def rpartition(s, sep):
        if not s_is_sym(s) and not s_is_sym(sep):
            return str.rpartition(s, sep)
        if len(sep) != 1:
            pin_str(s, "str.rpartition(general)")
            return str.rpartition(sraw(s), sep)
        pos = s._find_all(sep)
        if not pos:
            return ("", "", s)
        p = pos[-1]
        return (s[:p], sep, s[p + 1:])

    def find(s, sub, *a):
        if (not s_is_sym(s) and not s_is_sym(sub)):
            return str.find(s, sub, *a)
        if a or len(sub) == 0:
            pin_str(s, "str.find(args)")
            pin_str(sub, "str.find(args)")
            return str.find(sraw(s), sraw(sub), *a)
        cs, conc, sp, sr = cterms(s), sraw(s), cterms(sub), sraw(sub)
        m = len(sp)
        for i in range(0, len(cs) - m + 1):
            cond = z3.And([cs[i + k] == sp[k] for k in range(m)])
            if branch(cond, conc[i:i + m] == sr):
                return i
        return -1

    def index(s, sub, *a):
        r = s.find(sub, *a)
        if r < 0:
            raise ValueError("substring not found")
        return r

    def rfind(s, sub, *a):
        if (not s_is_sym(s) and not s_is_sym(sub)):
            return str.rfind(s, sub, *a)
        if a or len(sub) == 0:
            pin_str(s, "str.rfind(args)")
            pin_str(sub, "str.rfind(args)")
            return str.rfind(sraw(s), sraw(sub), *a)
        cs, conc, sp, sr = cterms(s), sraw(s), cterms(sub), sraw(sub)
        m = len(sp)
        for i in range(len(cs) - m, -1, -1):
            cond = z3.And([cs[i + k] == sp[k] for k in range(m)])
            if branch(cond, conc[i:i + m] == sr):
                return i
        return -1

    def rindex(s, sub, *a):
        r = s.rfind(sub, *a)
        if r < 0:
            raise ValueError("substring not found")
        return r

    def count(s, sub, *a):
        if (not s_is_sym(s) and not s_is_sym(sub)) or a:
            pin_str(s, "str.count(args)")
            return str.count(sraw(s), sub, *a)
        return len(s._find_all(sub))

    def replace(s, old, new, count=-1):
        if not s_is_sym(s) and not s_is_sym(old) and not s_is_sym(new):
            return str.replace(s, old, new, sym_index(count))
        count = sym_index(count)
        if len(old) == 0:
            pin_str(s, "str.replace(empty)")
            return str.replace(sraw(s), old, new, count)
        pos = s._find_all(old)
        if count >= 0:
            pos = pos[:count]
        terms, conc, start = [], "", 0
        cs, raw = cterms(s), sraw(s)
        for p in pos:
            terms += cs[start:p] + cterms(new)
            conc += raw[start:p] + sraw(new)
            start = p + len(old)
        terms += cs[start:]
        conc += raw[start:]
        return mks(SStr, terms, conc)

    def join(s, items):
        return sym_join(s, items)

    def format(s, *a, **k):
        return sym_format(s, a, k)

    def encode(s, encoding="utf-8", errors="strict"):
        if not s_is_sym(s):
            return str.encode(s, encoding, errors)
        enc = encoding.lower().replace("_", "-")
        if enc in ("utf-8", "utf8", "utf"):
            return utf8_encode(s, errors)
        if enc in ("latin-1", "latin1", "iso-8859-1", "ascii") and errors == "strict":
            lim = 128 if enc == "ascii" else 256
            conc = sraw(s)
            for t, c in zip(s._cs, conc):
                if not branch(t < lim, ord(c) < lim):
                    return str.encode(conc, encoding, errors)  # raises UnicodeEncodeError
            return mkb(SBytes, s._cs, conc.encode(encoding))
        pin_str(s, f"str.encode({encoding})")
        return str.encode(sraw(s), encoding, errors)

    def isdigit(s):
        if not s_is_sym(s):
            return str.isdigit(s)
        conc = sraw(s)
        if not conc:
            return False
        for t, c in zip(s._cs, conc):
            if z3.is_int_value(t):
                if not c.isdigit():
                    return False
                continue
            if branch(t < 128, ord(c) < 128):
                if not branch(z3.And(t >= 48, t <= 57), c.isdigit()):
                    return False
            else:
                pin(t == ord(c), "str.isdigit(non-ascii)")
                if not c.isdigit():
                    return False
        return True

    def __repr__(s):
        pin_str(s, "repr(str)")
        return str.__repr__(sraw(s))

    def __str__(s):
        if s_is_sym(s):
            return mks(SStr, s._cs, sraw(s))
        return sraw(s)

    def __format__(s, spec):
        if spec:
            pin_str(s, "format(str, spec)")
            return str.__format__(sraw(s), spec)
        return s.__str__()

    def __reduce__(s):
        return (str, (sraw(s),))


def _pinning(name):
    real = getattr(str, name)

    def method(s, *a, **k):
        pin_str(s, f"str.{name}")
        a = tuple(pin_str(x, f"str.{name}") if isinstance(x, str) else x for x in a)
        return real(sraw(s), *a, **k)

    method.__name__ = name
    return method


for _n in ("capitalize", "casefold", "center", "expandtabs", "format_map", "isalnum", "isalpha", "isascii",
           "isdecimal", "isidentifier", "islower", "isnumeric", "isprintable", "isspace", "istitle", "isupper",
           "ljust", "rjust", "rfind", "rindex", "swapcase", "title", "translate", "zfill",
           "removeprefix", "removesuffix"):
    if _n not in SStr.__dict__:
        setattr(SStr, _n, _pinning(_n))


# ----------------------------------------------------------------------------- dispatchers used by the AST rewrite
def sym_join(sep, items):
    items = list(items)
    if not isinstance(sep, str):
        return sep.join(items)
    if not s_is_sym(sep) and not any(s_is_sym(i) for i in items):
        return str.join(sep, items)
    terms, conc = [], ""
    for n, it in enumerate(items):
        if not isinstance(it, str):
            raise TypeError(f"sequence item {n}: expected str instance, {type(it).__name__} found")
        if n:
            terms += cterms(sep)
            conc += sraw(sep)
        terms += cterms(it)
        conc += sraw(it)
    return mks(SStr, terms, conc)


def sym_fmt_value(value, conv, spec):
    """One f-string replacement field. conv: -1, 's', 'r', 'a' ; spec: str"""
    if conv == "r":
        return repr(value)
    if conv == "a":
        return ascii(value)
    if conv == "s":
        value = _to_str(value)
    if isinstance(value, str) and s_is_sym(value) and not spec:
        return value
    if is_sym(value) and isinstance(value, int) and not spec:
        return _to_str(value)
    if s_is_sym(spec):
        pin_str(spec, "format spec")
        spec = sraw(spec)
    if is_sym(value) and isinstance(value, int) and not isinstance(value, SBool):
        import re as _re
        m = _re.fullmatch(r"0(\d+)d", spec)
        if m:
            r = sym_int_render_padded(value, int(m.group(1)))
            if r is not None:
                return r
    return format(value, spec)


def _to_str(value):
    if isinstance(value, str):
        return value if s_is_sym(value) else value
    return SStr(value)


def sym_fstring(parts):
    return sym_join("", [p if isinstance(p, str) else _to_str(p) for p in parts])


def sym_format(fmt, args, kwargs):
    if not isinstance(fmt, str):
        return fmt.format(*args, **kwargs)
    symbolic = s_is_sym(fmt) or any(s_is_sym(a) or is_sym(a) for a in list(args) + list(kwargs.values()))
    if not symbolic:
        return str.format(fmt, *args, **kwargs)
    if s_is_sym(fmt):
        pin_str(fmt, "str.format(template)")
    raw = sraw(fmt)
    out, auto = [], 0
    fm = _string.Formatter()
    for lit, field, spec, conv in fm.parse(raw):
        if lit:
            out.append(lit)
        if field is None:
            continue
        if field == "":
            field = str(auto)
            auto += 1
        obj, _ = fm.get_field(field, args, kwargs)
        out.append(sym_fmt_value(obj, conv if conv else -1, spec or ""))
    return sym_join("", out)


def sym_in(item, consts):
    """`item in {c1, c2, ...}` for a set/tuple display of constants: equality, no hashing."""
    if not (s_is_sym(item) or is_sym(item) or b_is_sym(item)):
        return item in consts
    for c in consts:
        r = item == c
        if r is NotImplemented:
            continue
        if r:
            return True
    return False


def sym_ord(c):
    if s_is_sym(c) and len(c) == 1:
        return mk(SInt, c._cs[0], ord(sraw(c)))
    if b_is_sym(c) and len(c) == 1:
        return mk(SInt, c._bs[0], bytes.__getitem__(c, 0))
    return ord(c)


def sym_chr(i):
    if is_sym(i):
        c = int.__index__(i)
        ok = z3.And(i._t >= 0, i._t <= 0x10FFFF)
        if not branch(ok, 0 <= c <= 0x10FFFF):
            # CPython: beyond the C int range the conversion itself fails first
            if branch(z3.Or(i._t > 2**31 - 1, i._t < -(2**31)), not -(2**31) <= c <= 2**31 - 1):
                raise OverflowError("Python int too large to convert to C int")
            raise ValueError("chr() arg not in range(0x110000)")
        return mks(SStr, [i._t], chr(c))
    return chr(i)


def _digit_val(t):
    return z3.If(t <= 57, t - 48, z3.If(t <= 90, t - 55, t - 87))


def _is_digit_base(t, base):
    if base <= 10:
        return z3.And(t >= 48, t < 48 + base)
    return z3.Or(z3.And(t >= 48, t <= 57), z3.And(t >= 65, t < 65 + base - 10), z3.And(t >= 97, t < 97 + base - 10))


def sym_int_parse(x, base=10):
    """int(<symbolic str>, base): ASCII digits, optional sign, no whitespace/underscore support (those -> pin)."""
    base = sym_index(base)
    conc = sraw(x)
    cs = list(x._cs)
    try:
        cval = int(conc, base)
        okc = True
    except ValueError:
        cval, okc = None, False
    if base not in range(2, 37) or base == 0:
        pin_str(x, "int(str, base)")
        return int(conc, base)
    # sign
    neg = False
    body, braw = cs, conc
    if cs:
        t0 = cs[0]
        if z3.is_int_value(t0):
            if conc[0] in "+-":
                neg = conc[0] == "-"
                body, braw = cs[1:], conc[1:]
        else:
            if branch(t0 == 45, conc[0] == "-"):
                neg = True
                body, braw = cs[1:], conc[1:]
            elif branch(t0 == 43, conc[0] == "+"):
                body, braw = cs[1:], conc[1:]
    if not body:
        raise ValueError(f"invalid literal for int() with base {base}: {conc!r}")
    plain = all(ch in "0123456789abcdefghijklmnopqrstuvwxyzABCDEFGHIJKLMNOPQRSTUVWXYZ" for ch in braw)
    ok = z3.And([_is_digit_base(t, base) for t in body])
    cok = plain and all(int(ch, 36) < base for ch in braw)
    if not branch(ok, cok):
        # not a plain digit string: whitespace, underscores, non-ASCII digits, prefixes ... -> concrete
        pin_str(x, "int(str): not plain digits")
        return int(conc, base)
    term = z3.IntVal(0)
    for t in body:
        term = term * base + _digit_val(t)
    if neg:
        term = -term
    assert okc, conc
    return mk(SInt, term, cval)


def sym_decimal_parse(x):
    """float(<symbolic str>) for plain decimals `digits[.digits]` (ASCII, no sign/exponent): an exact rational (SRat).
    Returns None when the current string is not of that shape (caller concretises)."""
    import re as _re
    from .core import SRat

    conc = sraw(x)
    if not _re.fullmatch(r"[0-9]+(\.[0-9]*)?|\.[0-9]+", conc) or len(conc) > 12:
        return None
    cs = list(x._cs)
    num, frac, seen_dot = z3.IntVal(0), 0, False
    for t, ch in zip(cs, conc):
        if ch == ".":
            if not branch(t == 46, True):
                return None
            seen_dot = True
            continue
        if not branch(z3.And(t >= 48, t <= 57), True):
            return None
        num = num * 10 + (t - 48)
        frac += 1 if seen_dot else 0
    cn = int(conc.replace(".", ""))
    return SRat(z3.simplify(num), 10 ** frac, cn)


def sym_int_render(i):
    """str(<symbolic int>): decimal digits, branching on sign and digit count.  The digits are fresh variables defined by
    |i| == sum(d_k * 10^k) (a total, unique decomposition), which keeps later reasoning linear."""
    from .core import define, fresh_int
    c = int.__index__(i)
    t = i._t
    neg = branch(t < 0, c < 0)
    a = -t if neg else t
    ca = -c if neg else c
    text = str(ca)
    nd = len(text)
    lo = 0 if nd == 1 else 10 ** (nd - 1)
    branch(z3.And(a >= lo, a < 10**nd), True, kind="case")
    ds = [fresh_int("dig") for _ in range(nd)]  # most significant first
    cons = [z3.And(d >= 0, d <= 9) for d in ds]
    cons.append(a == z3.Sum([d * (10 ** (nd - 1 - k)) for k, d in enumerate(ds)]))
    define(z3.And(cons))
    terms = ([z3.IntVal(45)] if neg else []) + [d + 48 for d in ds]
    return mks(SStr, terms, str(c))


def digits_fixed(t, width, conc):
    """code point terms of the zero-padded decimal rendering of 0 <= t < 10**width (fresh digit variables)"""
    from .core import define, fresh_int
    ds = [fresh_int("dig") for _ in range(width)]
    cons = [z3.And(d >= 0, d <= 9) for d in ds]
    cons.append(t == z3.Sum([d * (10 ** (width - 1 - k)) for k, d in enumerate(ds)]))
    define(z3.And(cons))
    return [d + 48 for d in ds]


def sym_int_format(i, spec):
    """format(<symbolic int>, spec) for specs [+]0<width>d ; None if unsupported or the value does not fit the width"""
    import re as _re
    m = _re.fullmatch(r"(\+)?0(\d+)d", spec)
    if not m:
        return None
    plus, width = bool(m.group(1)), int(m.group(2))
    c = int.__index__(i)
    t = i._t
    neg = branch(t < 0, c < 0)
    signed = plus or neg
    nd = width - (1 if signed else 0)
    if nd < 1:
        return None
    a, ca = (-t, -c) if neg else (t, c)
    if not branch(a < 10**nd, ca < 10**nd):
        return None
    terms = ([z3.IntVal(45 if neg else 43)] if signed else []) + digits_fixed(a, nd, ca)
    return mks(SStr, terms, format(c, spec))


def sym_int_render_padded(i, width):
    """format(<symbolic int>, '0<width>d') for values that fit the width; None otherwise (caller formats concretely)"""
    c = int.__index__(i)
    t = i._t
    if not branch(z3.And(t >= 0, t < 10**width), 0 <= c < 10**width):
        return None
    text = format(c, f"0{width}d")
    return mks(SStr, digits_fixed(t, width, c), text)


# ----------------------------------------------------------------------------- UTF-8
def utf8_encode(s, errors="strict"):
    """symbolic on every string the strict codec accepts (all error handlers agree there); a lone surrogate is a separate
    branch: strict raises, other handlers are delegated to the real codec on the pinned value"""
    conc = sraw(s)
    out = []

    def surrogate():
        if errors != "strict":
            pin_str(s, f"str.encode(utf-8, {errors}) on a surrogate")
        return str.encode(conc, "utf-8", errors)  # strict: raises UnicodeEncodeError

    for t, c in zip(s._cs, conc):
        o = ord(c)
        if z3.is_int_value(t):
            if 0xD800 <= o <= 0xDFFF:
                return surrogate()
            out += [z3.IntVal(b) for b in c.encode("utf-8")]
            continue
        if branch(t < 0x80, o < 0x80):
            out.append(t)
        elif branch(t < 0x800, o < 0x800):
            out += [0xC0 + t / 64, 0x80 + t % 64]
        elif branch(t < 0x10000, o < 0x10000):
            if branch(z3.And(t >= 0xD800, t <= 0xDFFF), 0xD800 <= o <= 0xDFFF):
                return surrogate()
            out += [0xE0 + t / 4096, 0x80 + (t / 64) % 64, 0x80 + t % 64]
        else:
            out += [0xF0 + t / 262144, 0x80 + (t / 4096) % 64, 0x80 + (t / 64) % 64, 0x80 + t % 64]
    return mkb(SBytes, out, conc.encode("utf-8"))


def utf8_decode(b, errors="strict"):
    """RFC 3629 decoder, symbolic on every byte string the strict codec accepts (all error handlers agree there); each kind
    of malformed input is its own branch: strict raises, other handlers are delegated to the real codec on the pinned value"""
    bs, raw = bterms(b), bytes(bytes.__iter__(b))
    out, i, n = [], 0, len(bs)

    def fail():
        if errors != "strict":
            pin_bytes(b, f"bytes.decode(utf-8, {errors}) on malformed input")
        return bytes.decode(raw, "utf-8", errors)  # strict: raises UnicodeDecodeError with the codec's own message

    def cont(k):
        return branch(z3.And(bs[k] >= 0x80, bs[k] <= 0xBF), 0x80 <= raw[k] <= 0xBF)

    while i < n:
        t, c = bs[i], raw[i]
        if branch(t < 0x80, c < 0x80):
            out.append(t)
            i += 1
        elif branch(t < 0xC2, c < 0xC2):
            return fail()
        elif branch(t < 0xE0, c < 0xE0):
            if i + 1 >= n or not cont(i + 1):
                return fail()
            out.append((t - 0xC0) * 64 + (bs[i + 1] - 0x80))
            i += 2
        elif branch(t < 0xF0, c < 0xF0):
            if i + 2 >= n or not cont(i + 1) or not cont(i + 2):
                return fail()
            if branch(z3.And(t == 0xE0, bs[i + 1] < 0xA0), c == 0xE0 and raw[i + 1] < 0xA0):
                return fail()
            if branch(z3.And(t == 0xED, bs[i + 1] > 0x9F), c == 0xED and raw[i + 1] > 0x9F):
                return fail()
            out.append((t - 0xE0) * 4096 + (bs[i + 1] - 0x80) * 64 + (bs[i + 2] - 0x80))
            i += 3
        elif branch(t < 0xF5, c < 0xF5):
            if i + 3 >= n or not cont(i + 1) or not cont(i + 2) or not cont(i + 3):
                return fail()
            if branch(z3.And(t == 0xF0, bs[i + 1] < 0x90), c == 0xF0 and raw[i + 1] < 0x90):
                return fail()
            if branch(z3.And(t == 0xF4, bs[i + 1] > 0x8F), c == 0xF4 and raw[i + 1] > 0x8F):
                return fail()
            out.append((t - 0xF0) * 262144 + (bs[i + 1] - 0x80) * 4096 + (bs[i + 2] - 0x80) * 64 + (bs[i + 3] - 0x80))
            i += 4
        else:
            return fail()
    return mks(SStr, out, raw.decode("utf-8"))


# ----------------------------------------------------------------------------- SBytes
def b_is_sym(x):
    return _attr(x, bytes, "_bs") is not None


def bterms(x):
    bs = _attr(x, bytes, "_bs")
    if bs is not None:
        return bs
    return [z3.IntVal(v) for v in bytes.__iter__(x)]


def braw(x):
    return bytes(bytes.__iter__(x)) if isinstance(x, bytes) else bytes(x)


def mkb(cls, terms, conc):
    terms = list(terms)
    conc = bytes(conc)
    assert len(terms) == len(conc), (len(terms), conc)
    terms = [z3.simplify(t) if not z3.is_int_value(t) else t for t in terms]
    if all(z3.is_int_value(t) for t in terms):
        return conc if cls is SBytes else bytes.__new__(cls, conc)
    o = bytes.__new__(cls, conc)
    o._bs = terms
    return o


def pin_bytes(x, op):
    if b_is_sym(x):
        conc = braw(x)
        eqs = [t == c for t, c in zip(x._bs, conc) if not z3.is_int_value(t)]
        if eqs:
            pin(z3.And(eqs) if len(eqs) > 1 else eqs[0], op)
    return braw(x)


class SBytes(bytes, metaclass=_Meta):
    _shadow_of = bytes

    def __new__(cls, value=b"", *a, **k):
        if b_is_sym(value) and not a and not k:
            return mkb(cls, value._bs, braw(value))
        if s_is_sym(value) and (a or k):
            r = value.encode(*a, **k)
            return mkb(cls, bterms(r), braw(r))
        if not isinstance(value, (bytes, str, int)) and not a and not k:
            try:
                items = list(value)
            except TypeError:
                items = None
            if items is not None and any(is_sym(i) for i in items):
                terms, conc = [], []
                for i in items:
                    c = int.__index__(i)
                    if is_sym(i):
                        if not branch(z3.And(i._t >= 0, i._t < 256), 0 <= c < 256):
                            raise ValueError("bytes must be in range(0, 256)")
                        terms.append(i._t)
                    else:
                        if not 0 <= c < 256:
                            raise ValueError("bytes must be in range(0, 256)")
                        terms.append(z3.IntVal(c))
                    conc.append(c)
                return mkb(cls, terms, bytes(conc))
            if items is not None:
                value = items
        if is_sym(value):
            value = sym_index(value, "bytes(n)")
        if cls is SBytes:
            return bytes(value, *a, **k)
        return bytes.__new__(cls, value, *a, **k)

    def __len__(s):
        return bytes.__len__(s)

    def __getitem__(s, i):
        if not b_is_sym(s):
            return bytes.__getitem__(s, i if isinstance(i, slice) else sym_index(i))
        if isinstance(i, slice):
            return mkb(SBytes, s._bs[i], braw(s)[i])
        i = sym_index(i, "bytes index")
        return mk(SInt, s._bs[i], braw(s)[i])

    def __iter__(s):
        if not b_is_sym(s):
            return bytes.__iter__(s)
        return iter([mk(SInt, t, c) if not z3.is_int_value(t) else c for t, c in zip(s._bs, braw(s))])

    def _eqt(s, o):
        a, b = bterms(s), bterms(o)
        if len(a) != len(b):
            return z3.BoolVal(False)
        return z3.And([x == y for x, y in zip(a, b)]) if a else z3.BoolVal(True)

    def __eq__(s, o):
        if not isinstance(o, bytes):
            return NotImplemented
        if not b_is_sym(s) and not b_is_sym(o):
            return bytes.__eq__(s, o)
        return SBool(s._eqt(o), braw(s) == braw(o))

    def __ne__(s, o):
        if not isinstance(o, bytes):
            return NotImplemented
        if not b_is_sym(s) and not b_is_sym(o):
            return bytes.__ne__(s, o)
        return SBool(z3.Not(s._eqt(o)), braw(s) != braw(o))

    def _ord(s, o, f, zf):
        if not isinstance(o, bytes):
            return NotImplemented
        if not b_is_sym(s) and not b_is_sym(o):
            return f(braw(s), braw(o))
        return SBool(zf(bterms(s), bterms(o)), f(braw(s), braw(o)))

    def __lt__(s, o):
        return s._ord(o, lambda a, b: a < b, lambda a, b: lt_term(a, b, True))

    def __le__(s, o):
        return s._ord(o, lambda a, b: a <= b, lambda a, b: lt_term(a, b, False))

    def __gt__(s, o):
        return s._ord(o, lambda a, b: a > b, lambda a, b: lt_term(b, a, True))

    def __ge__(s, o):
        return s._ord(o, lambda a, b: a >= b, lambda a, b: lt_term(b, a, False))

    def __hash__(s):
        pin_bytes(s, "hash(bytes)")
        return bytes.__hash__(s)

    def __add__(s, o):
        if not isinstance(o, bytes):
            return NotImplemented
        if not b_is_sym(s) and not b_is_sym(o):
            return bytes.__add__(s, o)
        return mkb(SBytes, bterms(s) + bterms(o), braw(s) + braw(o))

    def __radd__(s, o):
        if not isinstance(o, bytes):
            return NotImplemented
        return mkb(SBytes, bterms(o) + bterms(s), braw(o) + braw(s))

    def __contains__(s, o):
        if isinstance(o, int):
            if not b_is_sym(s) and not is_sym(o):
                return bytes.__contains__(s, o)
            return branch(z3.Or([t == tm(o) for t in bterms(s)]) if len(s) else z3.BoolVal(False), iv(o) in braw(s))
        if not isinstance(o, bytes):
            raise TypeError("a bytes-like object is required")
        if not b_is_sym(s) and not b_is_sym(o):
            return bytes.__contains__(s, o)
        return branch(contains_term(bterms(s), bterms(o)), braw(o) in braw(s))

    def decode(s, encoding="utf-8", errors="strict"):
        if not b_is_sym(s):
            return bytes.decode(s, encoding, errors)
        enc = encoding.lower().replace("_", "-")
        if enc in ("utf-8", "utf8", "utf"):
            return utf8_decode(s, errors)
        if enc in ("latin-1", "latin1", "iso-8859-1"):
            return mks(SStr, s._bs, braw(s).decode("latin-1"))
        pin_bytes(s, f"bytes.decode({encoding})")
        return bytes.decode(braw(s), encoding, errors)

    def startswith(s, p, *a):
        if not b_is_sym(s) and not b_is_sym(p):
            return bytes.startswith(s, p, *a)
        pin_bytes(s, "bytes.startswith")
        return bytes.startswith(braw(s), p, *a)

    def __repr__(s):
        pin_bytes(s, "repr(bytes)")
        return bytes.__repr__(braw(s))

    def __reduce__(s):
        return (bytes, (braw(s),))
