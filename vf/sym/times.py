"""E1 tier 2: concolic shadows of datetime.datetime / datetime.timedelta / datetime.timezone.

CPython's datetime is C code, so a symbolic instant cannot flow through it.  The shadows carry integer terms

    STimedelta._us     total microseconds
    SDatetime._lus     wall-clock ("local") microseconds since 1970-01-01T00:00:00 of the same wall clock
    SDatetime._tz      the tzinfo object; the UTC offset (microseconds) is a term for STimezone, a constant for
                       fixed-offset zones and, for an IANA zone, the zone's offset on a maximal interval of UTC instants
                       around the current model instant (found by probing the real zone object; the interval is a
                       path condition of kind `case`, so the explorer visits the neighbouring intervals too)

and re-implement the calendar arithmetic of the C type over those terms (proleptic Gregorian civil-from-days /
days-from-civil, Euclidean div/mod by constants).  This model is TRUSTED for the C type; it is cross-checked against the
real datetime on every concrete value it produces (`_mkdt` asserts that the fields of the real object built from the
model value agree with the model's own concrete field computation) and by the validation replays of the harnesses.
The raw C value of every shadow is the value under the current model, so anything the model does not cover
(strftime, pendulum.parse, ...) concretises with a recorded pin.

Field reads of a symbolic datetime are tagged with their source (`_fof`); rebuilding a datetime from the seven fields
of one source (what TimestampType(datetime) does) reuses the source instant instead of re-deriving it through
days_from_civil(civil_from_days(.)) -- that identity is lemma `civil-roundtrip`, discharged by the solver in C11.
"""
import datetime as _dt
import sys
import types

import z3

from .core import CTX, EngineAbort, SBool, SInt, SRat, _Meta, _attr, branch, f_is_sym, is_sym, iv, mk, pin, tm, q_round_half_even

RD, RTD, RTZ, RTZI = _dt.datetime, _dt.timedelta, _dt.timezone, _dt.tzinfo
US = 1_000_000
DAY = 86400 * US
EPOCH_ORD = 719163  # date(1970, 1, 1).toordinal()
MIN_L = (1 - EPOCH_ORD) * DAY  # 0001-01-01T00:00:00.000000
MAX_L = (3652059 - EPOCH_ORD + 1) * DAY - 1  # 9999-12-31T23:59:59.999999
MAX_TD_DAYS = 999999999
_UTC0 = RD(1970, 1, 1, tzinfo=RTZ.utc)


# ----------------------------------------------------------------------------- calendar arithmetic (terms and ints)
def _div(a, b):
    return a / b if isinstance(a, z3.ExprRef) else a // b


def _ite(c, a, b):
    if isinstance(c, bool):
        return a if c else b
    return z3.If(c, a, b)


def days_from_civil(y, m, d):
    """days since 1970-01-01 of the proleptic Gregorian date (works on z3 Int terms and on Python ints)"""
    y2 = _ite(m <= 2, y - 1, y)
    era = _div(y2, 400)
    yoe = y2 - era * 400
    mp = _ite(m > 2, m - 3, m + 9)
    doy = _div(153 * mp + 2, 5) + d - 1
    doe = yoe * 365 + _div(yoe, 4) - _div(yoe, 100) + doy
    return era * 146097 + doe - 719468


def civil_from_days(z):
    z = z + 719468
    era = _div(z, 146097)
    doe = z - era * 146097
    yoe = _div(doe - _div(doe, 1460) + _div(doe, 36524) - _div(doe, 146096), 365)
    doy = doe - (365 * yoe + _div(yoe, 4) - _div(yoe, 100))
    mp = _div(5 * doy + 2, 153)
    d = doy - _div(153 * mp + 2, 5) + 1
    m = _ite(mp < 10, mp + 3, mp - 9)
    y = yoe + era * 400
    return _ite(m <= 2, y + 1, y), m, d


def days_in_month(y, m):
    leap = z3.And(y % 4 == 0, z3.Or(y % 100 != 0, y % 400 == 0))
    return z3.If(m == 2, z3.If(leap, 29, 28), z3.If(z3.Or(m == 4, m == 6, m == 9, m == 11), 30, 31))


def _c_days_in_month(y, m):
    leap = y % 4 == 0 and (y % 100 != 0 or y % 400 == 0)
    return (29 if leap else 28) if m == 2 else (30 if m in (4, 6, 9, 11) else 31)


def _tag(x, src, name):
    x._fof = (src, name)
    return x


def _fof(x):
    return _attr(x, int, "_fof")


def _symnum(x):
    return is_sym(x) or (isinstance(x, float) and f_is_sym(x))


def _plain(x):
    if isinstance(x, SBool):
        return bool(x)
    if isinstance(x, float):
        return float.__float__(x)
    if isinstance(x, int):
        return int.__index__(x)
    return x


# ----------------------------------------------------------------------------- timedelta
def td_is_sym(x):
    return _attr(x, RTD, "_us") is not None


def td_us(x):
    """(term, concrete) total microseconds of any timedelta"""
    t = _attr(x, RTD, "_us")
    c = (RTD.days.__get__(x) * 86400 + RTD.seconds.__get__(x)) * US + RTD.microseconds.__get__(x)
    return (t if t is not None else z3.IntVal(c)), c


_BV_OF = {}  # id of a (simplified) Int term -> (term, 64-bit vector it is the signed value of)


def _bv_of(term):
    ent = _BV_OF.get(term.get_id())
    return ent[1] if ent is not None and ent[0].eq(term) else None


def _cmp_terms(f, t1, t2):
    """f(t1, t2) as a z3 Bool; stays in bit-vector arithmetic when one side is a registered 64-bit value and the other a constant"""
    b1, b2 = _bv_of(t1), _bv_of(t2)
    if b1 is not None and z3.is_int_value(t2) and -(2**63) <= t2.as_long() < 2**63:
        return f(b1, z3.BitVecVal(t2.as_long(), 64))
    if b2 is not None and z3.is_int_value(t1) and -(2**63) <= t1.as_long() < 2**63:
        return f(z3.BitVecVal(t1.as_long(), 64), b2)
    return f(t1, t2)


def mktd(cls, term, conc):
    term = z3.simplify(term) if isinstance(term, z3.ExprRef) else z3.IntVal(term)
    lim = MAX_TD_DAYS * DAY
    if _bv_of(term) is not None:
        pass  # a 64-bit value cannot exceed 999999999 days
    elif branch(z3.Or(term < -lim, term >= lim + DAY), not (-lim <= conc < lim + DAY)):
        raise OverflowError("days=%d; must have magnitude <= 999999999" % (conc // DAY))
    o = RTD.__new__(cls, days=conc // DAY, seconds=(conc % DAY) // US, microseconds=conc % US)
    if not z3.is_int_value(term):
        o._us = term
    return o


_TD_WEIGHTS = (DAY, US, 1, 1000, 60 * US, 3600 * US, 7 * DAY)


class STimedelta(RTD, metaclass=_Meta):
    _shadow_of = RTD

    def __new__(cls, days=0, seconds=0, microseconds=0, milliseconds=0, minutes=0, hours=0, weeks=0):
        args = (days, seconds, microseconds, milliseconds, minutes, hours, weeks)
        if isinstance(days, (bytes, str)) or not any(_symnum(a) for a in args):
            args = tuple(_plain(a) for a in args)
            if cls is STimedelta:
                return RTD(*args)
            return RTD.__new__(cls, *args)
        tags = [_fof(a) for a in args[:3]]
        if all(t is not None for t in tags) and [t[1] for t in tags] == ["days", "seconds", "microseconds"] and \
                all(t[0].eq(tags[0][0]) for t in tags) and not any(_symnum(a) or _plain(a) for a in args[3:]):
            # the three fields of one source timedelta (what DurationType(timedelta) does): same value
            cn = (iv(days) * 86400 + iv(seconds)) * US + iv(microseconds)
            return mktd(cls, tags[0][0], cn)
        # exact rational sum of the components, then one round-half-even to whole microseconds
        num, den, cn = z3.IntVal(0), 1, 0
        for a, w in zip(args, _TD_WEIGHTS):
            if isinstance(a, float) and f_is_sym(a) and _attr(a, float, "_q") is None:
                a = a._pin("timedelta(binary float component)")
            q = SRat._other(a)
            if q is None:
                raise TypeError(f"unsupported type for timedelta component: {type(a).__name__}")
            n2, d2, c2 = q
            num, cn, den = num * d2 + n2 * (w * den), cn * d2 + c2 * w * den, den * d2
        if den == 1:
            t, c = num, cn
        else:
            t, c = q_round_half_even(num, den, cn)
        return mktd(cls, t, c)

    # -- fields
    def _sym(s):
        return _attr(s, RTD, "_us")

    @property
    def days(s):
        t = s._sym()
        c = RTD.days.__get__(s)
        return c if t is None else _tag(mk(SInt, t / DAY, c), t, "days")

    @property
    def seconds(s):
        t = s._sym()
        c = RTD.seconds.__get__(s)
        return c if t is None else _tag(mk(SInt, (t % DAY) / US, c), t, "seconds")

    @property
    def microseconds(s):
        t = s._sym()
        c = RTD.microseconds.__get__(s)
        return c if t is None else _tag(mk(SInt, t % US, c), t, "microseconds")

    def total_seconds(s):
        t = s._sym()
        if t is None:
            return RTD.total_seconds(s)
        c = td_us(s)[1]
        ent = _BV_OF.get(t.get_id())
        if ent is not None and ent[0].eq(t) and branch(z3.And(ent[1] >= -(2**53), ent[1] <= 2**53), abs(c) <= 2**53):
            # faithful binary floating point: the integer converts exactly and int/int true division is the
            # correctly rounded quotient, which is what fp.div computes
            from .core import F64, RNE, fp_val, mkf, SFloat
            return mkf(SFloat, z3.fpDiv(RNE, z3.fpSignedToFP(RNE, ent[1], F64), fp_val(1e6)), RTD.total_seconds(s))
        return SRat(t, US, c)

    def _pin(s, op="timedelta concretised"):
        t = s._sym()
        if t is not None:
            pin(t == td_us(s)[1], op)

    # -- arithmetic
    def _lin(s, o, sign):
        if not isinstance(o, RTD):
            return NotImplemented
        if not td_is_sym(s) and not td_is_sym(o):
            return RTD.__add__(s, o) if sign > 0 else RTD.__sub__(s, o)
        (t1, c1), (t2, c2) = td_us(s), td_us(o)
        return mktd(STimedelta, t1 + sign * t2, c1 + sign * c2)

    def __add__(s, o):
        return s._lin(o, 1)

    def __radd__(s, o):
        if isinstance(o, RTD):
            return STimedelta._lin(o, s, 1) if isinstance(o, STimedelta) else s._lin(o, 1)
        return NotImplemented

    def __sub__(s, o):
        return s._lin(o, -1)

    def __rsub__(s, o):
        if not isinstance(o, RTD):
            return NotImplemented
        (t1, c1), (t2, c2) = td_us(o), td_us(s)
        if not td_is_sym(s) and not td_is_sym(o):
            return RTD.__sub__(o, s)
        return mktd(STimedelta, t1 - t2, c1 - c2)

    def __neg__(s):
        if not td_is_sym(s):
            return RTD.__neg__(s)
        t, c = td_us(s)
        return mktd(STimedelta, -t, -c)

    def __pos__(s):
        return s

    def __abs__(s):
        if not td_is_sym(s):
            return RTD.__abs__(s)
        t, c = td_us(s)
        return mktd(STimedelta, z3.If(t >= 0, t, -t), abs(c))

    def __mul__(s, o):
        if isinstance(o, int) and not isinstance(o, SBool) and (td_is_sym(s) or is_sym(o)):
            t, c = td_us(s)
            if td_is_sym(s) and is_sym(o):
                pin(tm(o) == iv(o), "timedelta * symbolic int")
                return mktd(STimedelta, t * iv(o), c * iv(o))
            return mktd(STimedelta, t * tm(o), c * iv(o))
        s._pin("timedelta.__mul__")
        return RTD.__mul__(s, _plain(o))

    __rmul__ = __mul__

    def _pinned(name):
        def f(s, *a):
            s._pin(f"timedelta.{name}")
            for x in a:
                if isinstance(x, STimedelta):
                    x._pin(f"timedelta.{name}")
            return getattr(RTD, name)(s, *[_plain(x) for x in a])
        f.__name__ = name
        return f

    __truediv__ = _pinned("__truediv__")
    __floordiv__ = _pinned("__floordiv__")
    __mod__ = _pinned("__mod__")
    __divmod__ = _pinned("__divmod__")
    __rtruediv__ = _pinned("__rtruediv__")
    __rfloordiv__ = _pinned("__rfloordiv__")
    __rmod__ = _pinned("__rmod__")
    del _pinned

    def _cmp(s, o, f):
        if not isinstance(o, RTD):
            return NotImplemented
        (t1, c1), (t2, c2) = td_us(s), td_us(o)
        if not td_is_sym(s) and not td_is_sym(o):
            return f(c1, c2)
        return SBool(_cmp_terms(f, t1, t2), f(c1, c2))

    def __eq__(s, o):
        return s._cmp(o, lambda a, b: a == b)

    def __ne__(s, o):
        return s._cmp(o, lambda a, b: a != b)

    def __lt__(s, o):
        return s._cmp(o, lambda a, b: a < b)

    def __le__(s, o):
        return s._cmp(o, lambda a, b: a <= b)

    def __gt__(s, o):
        return s._cmp(o, lambda a, b: a > b)

    def __ge__(s, o):
        return s._cmp(o, lambda a, b: a >= b)

    def __bool__(s):
        t = s._sym()
        if t is None:
            return RTD.__bool__(s)
        return branch(t != 0, td_us(s)[1] != 0)

    def __hash__(s):
        s._pin("hash(timedelta)")
        return RTD.__hash__(s)

    def __repr__(s):
        if td_is_sym(s):
            CTX.display += 1
        return RTD.__repr__(s)

    def __str__(s):
        s._pin("str(timedelta)")
        return RTD.__str__(s)

    def __reduce__(s):
        return (RTD, (RTD.days.__get__(s), RTD.seconds.__get__(s), RTD.microseconds.__get__(s)))


# ----------------------------------------------------------------------------- fixed-offset timezone
class STimezone(RTZI):
    """datetime.timezone(offset) for a symbolic offset (a concrete offset yields the real class)"""

    utc = RTZ.utc
    min = RTZ.min
    max = RTZ.max

    def __new__(cls, offset, name=None):
        if not isinstance(offset, RTD):
            raise TypeError("offset must be a timedelta")
        if not td_is_sym(offset):
            return RTZ(offset) if name is None else RTZ(offset, name)
        t, c = td_us(offset)
        if branch(z3.Or(t <= -DAY, t >= DAY), not (-DAY < c < DAY)):
            raise ValueError("offset must be a timedelta strictly between -timedelta(hours=24) and timedelta(hours=24)")
        o = RTZI.__new__(cls)
        o._off, o._coff, o._name = t, c, name
        return o

    def utcoffset(self, dt):
        return mktd(STimedelta, self._off, self._coff)

    def dst(self, dt):
        return None

    def tzname(self, dt):
        pin(self._off == self._coff, "timezone.tzname")
        return self._real().tzname(dt)

    def fromutc(self, dt):
        return dt + self.utcoffset(dt)

    def _real(self):
        return RTZ(RTD(microseconds=self._coff))

    def __eq__(self, other):
        if isinstance(other, STimezone):
            return SBool(self._off == other._off, self._coff == other._coff)
        if isinstance(other, RTZ):
            c = other.utcoffset(None)
            cu = (c.days * 86400 + c.seconds) * US + c.microseconds
            return SBool(self._off == cu, self._coff == cu)
        return NotImplemented

    def __hash__(self):
        pin(self._off == self._coff, "hash(timezone)")
        return hash(self._real())

    def __repr__(self):
        CTX.display += 1
        return repr(self._real())

    __str__ = __repr__


# ----------------------------------------------------------------------------- offsets of arbitrary tzinfo objects
_IANA_CACHE = {}
_STEP = 3600
_SPAN = 24 * 420  # hours probed on each side of the model instant


def _real_off_at(tz, sec):
    """offset (seconds, may be fractional-free) of zone tz at the UTC second `sec`, from the real zone object"""
    try:
        u = _UTC0 + RTD(seconds=sec)
        return u.astimezone(tz).utcoffset()
    except (OverflowError, ValueError):
        return None


def _iana_interval(tz, csec):
    key = id(tz)
    for lo, hi, off in _IANA_CACHE.get(key, ()):
        if lo <= csec < hi:
            return lo, hi, off
    off = _real_off_at(tz, csec)
    if off is None:
        return csec, csec + 1, None

    def edge(direction):
        good = csec
        for k in range(1, _SPAN + 1):
            probe = csec + direction * k * _STEP
            if _real_off_at(tz, probe) != off:
                bad = probe
                while abs(bad - good) > 1:
                    mid = (bad + good) // 2
                    if _real_off_at(tz, mid) == off:
                        good = mid
                    else:
                        bad = mid
                return good
            good = probe
        return good

    lo, hi = edge(-1), edge(+1) + 1
    _IANA_CACHE.setdefault(key, []).append((lo, hi, off))
    return lo, hi, off


def tz_offset_at_utc(tz, utc_t, cutc):
    """(term, concrete) UTC offset in microseconds of tzinfo `tz` at the UTC instant utc_t"""
    if isinstance(tz, STimezone):
        return tz._off, tz._coff
    if tz is None:
        raise TypeError("naive datetime has no offset")
    try:
        fixed = tz.utcoffset(None)
    except Exception:  # noqa: BLE001
        fixed = None
    if fixed is not None:
        c = td_us(fixed)[1]
        return z3.IntVal(c), c
    csec = cutc // US
    lo, hi, off = _iana_interval(tz, csec)
    if off is None:
        raise OverflowError("date value out of range")
    branch(z3.And(utc_t >= lo * US, utc_t < hi * US), True, kind="case")
    c = td_us(off)[1]
    return z3.IntVal(c), c


# ----------------------------------------------------------------------------- datetime
def dt_is_sym(x):
    return _attr(x, RD, "_lus") is not None


def _c_lus(x):
    """concrete wall-clock microseconds of a real datetime object (raw C fields)"""
    g = lambda n: getattr(RD, n).__get__(x)  # noqa: E731
    return ((RD.toordinal(x) - EPOCH_ORD) * 86400 + g("hour") * 3600 + g("minute") * 60 + g("second")) * US + g("microsecond")


def _real_tz(tz, coff=None):
    if isinstance(tz, STimezone):
        return tz._real()
    return tz


def mkdt(cls, lus, clus, tz):
    """new shadow datetime with wall clock lus (term) / clus (int) in zone tz; caller has checked the range"""
    lus = z3.simplify(lus) if isinstance(lus, z3.ExprRef) else z3.IntVal(lus)
    days, sod = clus // DAY, clus % DAY
    y, m, d = civil_from_days(days)
    o = RD.__new__(cls, y, m, d, sod // (3600 * US), sod // (60 * US) % 60, sod // US % 60, sod % US, tzinfo=_real_tz(tz))
    if _c_lus(o) != clus:
        raise EngineAbort(f"time model disagrees with datetime: wall clock {clus} built as {o!r}")
    if not z3.is_int_value(lus) or isinstance(tz, STimezone):
        o._lus, o._tz = lus, tz
    return o


def make_datetime(eus, off_min=None, cls=None):
    """harness entry: the instant `eus` (SInt, UTC microseconds since the epoch) shown at a fixed offset of off_min minutes
    (SInt or int; None = UTC).  Returns a shadow datetime; range conditions are the caller's preconditions."""
    et, ec = tm(eus), iv(eus)
    if off_min is None:
        tz, ot, oc = RTZ.utc, z3.IntVal(0), 0
    elif is_sym(off_min):
        ot, oc = tm(off_min) * 60 * US, iv(off_min) * 60 * US
        tz = STimezone(mktd(STimedelta, ot, oc))
    else:
        oc = iv(off_min) * 60 * US
        ot, tz = z3.IntVal(oc), RTZ(RTD(microseconds=oc))
    return mkdt(cls or SDatetime, et + ot, ec + oc, tz)


def make_timedelta(us):
    bv = _attr(us, int, "_bv")
    if bv is not None and bv.size() == 64:
        t = z3.simplify(tm(us))
        _BV_OF[t.get_id()] = (t, bv)
    return mktd(STimedelta, tm(us), iv(us))


_FIELDS = ("year", "month", "day", "hour", "minute", "second", "microsecond")


class SDatetime(RD, metaclass=_Meta):
    _shadow_of = RD

    def __new__(cls, year, month=None, day=None, hour=0, minute=0, second=0, microsecond=0, tzinfo=None, *, fold=0):
        fields = (year, month, day, hour, minute, second, microsecond)
        if isinstance(year, (bytes, str)) or not (any(is_sym(f) for f in fields if isinstance(f, int)) or isinstance(tzinfo, STimezone)):
            if isinstance(year, (bytes, str)):
                args = (year,) if month is None else (year, month)
                return RD.__new__(cls if cls is not SDatetime else RD, *args)
            args = tuple(_plain(f) for f in fields)
            if cls is SDatetime:
                return RD(*args, tzinfo=tzinfo, fold=fold)
            return RD.__new__(cls, *args, tzinfo=tzinfo, fold=fold)
        for f in fields:
            if not isinstance(f, int):
                raise TypeError(f"an integer is required (got type {type(f).__name__})")
        tags = [_fof(f) for f in fields]
        if all(t is not None for t in tags) and all(t[1] == n for t, n in zip(tags, _FIELDS)) and \
                all(t[0].eq(tags[0][0]) for t in tags) and tags[0][0].sort() == z3.IntSort():
            # the seven fields of one source instant: same wall clock (lemma civil-roundtrip)
            src = tags[0][0]
            clus = _fields_to_clus([iv(f) for f in fields])
            return mkdt(cls, src, clus, tzinfo)
        ts, cs = [tm(f) for f in fields], [iv(f) for f in fields]
        y, m, d, H, M, S, u = ts
        cy, cm, cd, cH, cM, cS, cu = cs
        same_date = all(t is not None for t in tags[:3]) and [t[1] for t in tags[:3]] == ["year", "month", "day"] and \
            all(t[0].eq(tags[0][0]) for t in tags[:3]) and tags[0][0].sort() == z3.IntSort()
        if same_date:
            # the date fields of one source (e.g. replace(microsecond=0)): same day number (lemma civil-roundtrip)
            days = tags[0][0] / DAY
        else:
            if branch(z3.Or(y < 1, y > 9999), not 1 <= cy <= 9999):
                raise ValueError(f"year {cy} is out of range")
            if branch(z3.Or(m < 1, m > 12), not 1 <= cm <= 12):
                raise ValueError("month must be in 1..12")
            if branch(z3.Or(d < 1, d > days_in_month(y, m)), not 1 <= cd <= _c_days_in_month(cy, cm)):
                raise ValueError("day is out of range for month")
            days = days_from_civil(y, m, d)
        for t, c, hi, nm in ((H, cH, 23, "hour"), (M, cM, 59, "minute"), (S, cS, 59, "second"), (u, cu, 999999, "microsecond")):
            if branch(z3.Or(t < 0, t > hi), not 0 <= c <= hi):
                raise ValueError(f"{nm} must be in 0..{hi}")
        lus = (days * 86400 + H * 3600 + M * 60 + S) * US + u
        return mkdt(cls, lus, _fields_to_clus(cs), tzinfo)

    # -- representation
    def _sym(s):
        return _attr(s, RD, "_lus")

    def _terms(s):
        """field terms of the wall clock, built once"""
        d = s.__dict__
        f = d.get("_ft7")
        if f is None:
            l = d["_lus"]
            days, sod = l / DAY, l % DAY
            y, m, dd = civil_from_days(days)
            f = {"year": y, "month": m, "day": dd, "hour": sod / (3600 * US), "minute": (sod / (60 * US)) % 60,
                 "second": (sod / US) % 60, "microsecond": sod % US, "days": days}
            d["_ft7"] = f
        return f

    def _field(s, name):
        c = getattr(RD, name).__get__(s)
        l = s._sym()
        if l is None:
            return c
        return _tag(mk(SInt, s._terms()[name], c), l, name)

    year = property(lambda s: s._field("year"))
    month = property(lambda s: s._field("month"))
    day = property(lambda s: s._field("day"))
    hour = property(lambda s: s._field("hour"))
    minute = property(lambda s: s._field("minute"))
    second = property(lambda s: s._field("second"))
    microsecond = property(lambda s: s._field("microsecond"))

    @property
    def tzinfo(s):
        if s._sym() is None:
            return RD.tzinfo.__get__(s)
        return s.__dict__["_tz"]

    def _clus(s):
        return _c_lus(s)

    def _off(s):
        """(term, concrete) UTC offset in microseconds of this (aware) datetime"""
        d = s.__dict__
        r = d.get("_offc")
        if r is None:
            tz = s.tzinfo
            if isinstance(tz, STimezone):
                r = (tz._off, tz._coff)
            elif tz is None:
                raise TypeError("can't subtract offset-naive and offset-aware datetimes")
            else:
                try:
                    fixed = tz.utcoffset(None)
                except Exception:  # noqa: BLE001
                    fixed = None
                if fixed is None:
                    # wall clock in an IANA zone: the offset depends on the wall clock itself -- concretise
                    s._pin("utcoffset of a wall clock in an IANA zone")
                    fixed = RD.utcoffset(s)
                c = td_us(fixed)[1]
                r = (z3.IntVal(c), c)
            d["_offc"] = r
        return r

    def _utc(s):
        """(term, concrete) UTC microseconds since the epoch"""
        l = s._sym()
        c = s._clus()
        if l is None:
            off = RD.utcoffset(s)
            if off is None:
                raise TypeError("can't subtract offset-naive and offset-aware datetimes")
            cu = c - td_us(off)[1]
            return z3.IntVal(cu), cu
        ot, oc = s._off()
        return l - ot, c - oc

    def _pin(s, op="datetime concretised"):
        l = s._sym()
        if l is not None:
            pin(l == s._clus(), op)
            tz = s.__dict__["_tz"]
            if isinstance(tz, STimezone):
                pin(tz._off == tz._coff, op)

    def utcoffset(s):
        if s._sym() is None:
            return RD.utcoffset(s)
        if s.tzinfo is None:
            return None
        ot, oc = s._off()
        return mktd(STimedelta, ot, oc)

    def dst(s):
        s._pin("datetime.dst")
        return RD.dst(s)

    def tzname(s):
        s._pin("datetime.tzname")
        return RD.tzname(s)

    # -- arithmetic
    def __add__(s, o):
        if not isinstance(o, RTD):
            return NotImplemented
        if s._sym() is None and not td_is_sym(o):
            return RD.__add__(s, o)
        l = s._sym()
        c = s._clus()
        t2, c2 = td_us(o)
        nl = (l if l is not None else z3.IntVal(c)) + t2
        nc = c + c2
        if branch(z3.Or(nl < MIN_L, nl > MAX_L), not MIN_L <= nc <= MAX_L):
            raise OverflowError("date value out of range")
        return mkdt(SDatetime, nl, nc, s.tzinfo)

    __radd__ = __add__

    def __sub__(s, o):
        if isinstance(o, RD):
            if s._sym() is None and not dt_is_sym(o):
                return RD.__sub__(s, o)
            a, b = _as_s(s), _as_s(o)
            if (a.tzinfo is None) != (b.tzinfo is None):
                raise TypeError("can't subtract offset-naive and offset-aware datetimes")
            if a.tzinfo is None or a.tzinfo is b.tzinfo:
                t1, c1 = _lus_of(a)
                t2, c2 = _lus_of(b)
            else:
                t1, c1 = a._utc()
                t2, c2 = b._utc()
            return mktd(STimedelta, t1 - t2, c1 - c2)
        if isinstance(o, RTD):
            if s._sym() is None and not td_is_sym(o):
                return RD.__sub__(s, o)
            t2, c2 = td_us(o)
            return SDatetime.__add__(s, mktd(STimedelta, -t2, -c2))
        return NotImplemented

    def __rsub__(s, o):
        if isinstance(o, RD):
            return SDatetime.__sub__(_as_s(o), s)
        return NotImplemented

    def _cmp(s, o, f, eq=False):
        if not isinstance(o, RD):
            return NotImplemented
        if s._sym() is None and not dt_is_sym(o):
            return f(RD.__sub__(s, o), RTD(0)) if not eq else None
        a, b = _as_s(s), _as_s(o)
        if (a.tzinfo is None) != (b.tzinfo is None):
            if eq:
                return False
            raise TypeError("can't compare offset-naive and offset-aware datetimes")
        if a.tzinfo is None or a.tzinfo is b.tzinfo:
            (t1, c1), (t2, c2) = _lus_of(a), _lus_of(b)
        else:
            (t1, c1), (t2, c2) = a._utc(), b._utc()
        return SBool(f(t1, t2), f(c1, c2))

    def __eq__(s, o):
        if not isinstance(o, RD):
            return NotImplemented
        if s._sym() is None and not dt_is_sym(o):
            return RD.__eq__(s, o)
        return s._cmp(o, lambda a, b: a == b, eq=True)

    def __ne__(s, o):
        if not isinstance(o, RD):
            return NotImplemented
        if s._sym() is None and not dt_is_sym(o):
            return RD.__ne__(s, o)
        r = s._cmp(o, lambda a, b: a != b, eq=True)
        return True if r is False else r

    def __lt__(s, o):
        if isinstance(o, RD) and s._sym() is None and not dt_is_sym(o):
            return RD.__lt__(s, o)
        return s._cmp(o, lambda a, b: a < b)

    def __le__(s, o):
        if isinstance(o, RD) and s._sym() is None and not dt_is_sym(o):
            return RD.__le__(s, o)
        return s._cmp(o, lambda a, b: a <= b)

    def __gt__(s, o):
        if isinstance(o, RD) and s._sym() is None and not dt_is_sym(o):
            return RD.__gt__(s, o)
        return s._cmp(o, lambda a, b: a > b)

    def __ge__(s, o):
        if isinstance(o, RD) and s._sym() is None and not dt_is_sym(o):
            return RD.__ge__(s, o)
        return s._cmp(o, lambda a, b: a >= b)

    def __hash__(s):
        s._pin("hash(datetime)")
        return RD.__hash__(s)

    # -- zone conversion
    def astimezone(s, tz=None):
        if s._sym() is None and not isinstance(tz, STimezone):
            return RD.astimezone(s, tz)
        if tz is None:
            s._pin("astimezone(system zone)")
            return RD.astimezone(s)
        if not isinstance(tz, RTZI):
            raise TypeError("tzinfo argument must be None or of a tzinfo subclass")
        a = _as_s(s)
        if a.tzinfo is None:
            if dt_is_sym(s):
                s._pin("astimezone of a naive datetime")
            if isinstance(tz, STimezone):
                pin(tz._off == tz._coff, "astimezone of a naive datetime")
            return RD.astimezone(s, _real_tz(tz))
        ut, uc = a._utc()
        ot, oc = tz_offset_at_utc(tz, ut, uc)
        nl, nc = ut + ot, uc + oc
        if branch(z3.Or(nl < MIN_L, nl > MAX_L), not MIN_L <= nc <= MAX_L):
            raise OverflowError("date value out of range")
        sub_add = getattr(type(s), "__add__", None)
        if not isinstance(tz, (STimezone, RTZ)) and sub_add is not None and sub_add is not SDatetime.__add__ and sub_add is not RD.__add__:
            # CPython: astimezone() ends in tz.fromutc(utc), and the C implementations of fromutc (zoneinfo, the tzinfo default) add the
            # offset with PyNumber_Add, i.e. through the subclass's own __add__ (TimestampType.__add__ re-wraps its result): emulate that
            # call so that whatever the subclass does to the result (e.g. replace the tzinfo object) is part of the model
            try:
                r = sub_add(mkdt(type(s), ut, uc, tz), mktd(STimedelta, ot, oc))
                if isinstance(r, RD):
                    return r
            except RecursionError:
                raise
        return mkdt(SDatetime, nl, nc, tz)

    def replace(s, year=None, month=None, day=None, hour=None, minute=None, second=None, microsecond=None, tzinfo=True, *, fold=None):
        given = (year, month, day, hour, minute, second, microsecond)
        if s._sym() is None and not any(is_sym(g) for g in given if g is not None) and not isinstance(tzinfo, STimezone):
            kw = {n: _plain(g) for n, g in zip(_FIELDS, given) if g is not None}
            if tzinfo is not True:
                kw["tzinfo"] = tzinfo
            if fold is not None:
                kw["fold"] = fold
            return RD.replace(s, **kw)
        vals = [getattr(s, n) if g is None else g for n, g in zip(_FIELDS, given)]
        return SDatetime.__new__(type(s) if type(s).__new__ is SDatetime.__new__ else SDatetime, *vals,
                                 tzinfo=s.tzinfo if tzinfo is True else tzinfo)

    def timestamp(s):
        if s._sym() is None:
            return RD.timestamp(s)
        if s.tzinfo is None:
            s._pin("timestamp of a naive datetime")
            return RD.timestamp(s)
        ut, uc = s._utc()
        return SRat(ut, US, uc)

    def toordinal(s):
        c = RD.toordinal(s)
        if s._sym() is None:
            return c
        return mk(SInt, s._terms()["days"] + EPOCH_ORD, c)

    def weekday(s):
        c = RD.weekday(s)
        if s._sym() is None:
            return c
        return mk(SInt, (s._terms()["days"] + EPOCH_ORD + 6) % 7, c)

    def isoweekday(s):
        c = RD.isoweekday(s)
        if s._sym() is None:
            return c
        return mk(SInt, (s._terms()["days"] + EPOCH_ORD + 6) % 7 + 1, c)

    def _pinned(name):
        def f(s, *a, **k):
            s._pin(f"datetime.{name}")
            return getattr(RD, name)(s, *a, **k)
        f.__name__ = name
        return f

    def strftime(s, fmt):
        """%m %d %H %M %S %f %z %% and literal text render symbolically (fixed-width digit terms); anything else concretises"""
        from . import strs
        real = None
        if s._sym() is not None and isinstance(fmt, str) and not strs.s_is_sym(fmt):
            try:
                real = _plain_copy(s).strftime(fmt)
            except Exception:  # noqa: BLE001
                real = None
        out = None
        if real is not None:
            out, i, f7 = [], 0, s._terms()
            widths = {"m": ("month", 2), "d": ("day", 2), "H": ("hour", 2), "M": ("minute", 2), "S": ("second", 2), "f": ("microsecond", 6)}
            while i < len(fmt) and out is not None:
                ch = fmt[i]
                if ch != "%":
                    out.append(z3.IntVal(ord(ch)))
                    i += 1
                    continue
                d = fmt[i + 1] if i + 1 < len(fmt) else ""
                i += 2
                if d == "%":
                    out.append(z3.IntVal(37))
                elif d in widths:
                    name, w = widths[d]
                    out += strs.digits_fixed(f7[name], w, getattr(RD, name).__get__(s))
                elif d == "z":
                    if s.tzinfo is None:
                        continue
                    ot, oc = s._off()
                    if not branch(ot % (60 * US) == 0, oc % (60 * US) == 0):
                        out = None
                        break
                    a, ca = z3.If(ot < 0, -ot, ot), abs(oc)
                    out.append(z3.If(ot < 0, z3.IntVal(45), z3.IntVal(43)))
                    out += strs.digits_fixed(a / (3600 * US), 2, ca // (3600 * US))
                    out += strs.digits_fixed((a / (60 * US)) % 60, 2, ca // (60 * US) % 60)
                else:
                    out = None
            if out is not None and len(out) != len(real):
                out = None
        if out is None:
            s._pin("datetime.strftime")
            return RD.strftime(s, fmt)
        return strs.mks(strs.SStr, [z3.simplify(t) for t in out], real)

    for _n in ("isoformat", "ctime", "date", "time", "timetz", "timetuple", "utctimetuple", "isocalendar", "__format__", "__str__"):
        locals()[_n] = _pinned(_n)
    del _pinned, _n

    def __repr__(s):
        if s._sym() is not None:
            CTX.display += 1
        return RD.__repr__(s)

    def __reduce__(s):
        g = lambda n: getattr(RD, n).__get__(s)  # noqa: E731
        return (RD, tuple(g(n) for n in _FIELDS) + (_real_tz(RD.tzinfo.__get__(s)),))

    __reduce_ex__ = lambda s, p: s.__reduce__()  # noqa: E731


def _plain_copy(s):
    """a real datetime.datetime with the raw (current model) value of s"""
    g = lambda n: getattr(RD, n).__get__(s)  # noqa: E731
    return RD(*[g(n) for n in _FIELDS], tzinfo=_real_tz(RD.tzinfo.__get__(s)))


def _fields_to_clus(cs):
    cy, cm, cd, cH, cM, cS, cu = cs
    return ((days_from_civil(cy, cm, cd) * 86400 + cH * 3600 + cM * 60 + cS) * US) + cu


class _View:
    """uniform access to real and shadow datetimes"""

    def __init__(self, x):
        self.x = x
        self.tzinfo = RD.tzinfo.__get__(x)

    def _utc(self):
        x = self.x
        off = RD.utcoffset(x)
        cu = _c_lus(x) - td_us(off)[1]
        return z3.IntVal(cu), cu


def _as_s(x):
    return x if dt_is_sym(x) else _View(x)


def _lus_of(a):
    if isinstance(a, _View):
        c = _c_lus(a.x)
        return z3.IntVal(c), c
    return a._sym(), a._clus()


# ----------------------------------------------------------------------------- pendulum.timezone(name)
def wrap_pendulum_timezone(real):
    """IANA names never contain ':'; a symbolic name containing one is decided as "not a zone name" symbolically,
    anything else concretises the name"""
    from . import strs

    def timezone(name, *a, **k):
        if not strs.s_is_sym(name):
            return real(name, *a, **k)
        conc = strs.sraw(name)
        try:
            r, err = real(conc, *a, **k), None
        except Exception as ex:  # noqa: BLE001
            r, err = None, ex
        if branch(strs.contains_term(strs.cterms(name), [z3.IntVal(58)]), ":" in conc):
            if err is None:
                raise EngineAbort(f"zone name containing ':' accepted by pendulum: {conc!r}")
            raise err
        strs.pin_str(name, "pendulum.timezone(name)")
        if err is not None:
            raise err
        return r
    return timezone


# ----------------------------------------------------------------------------- date (ordinal only)
RDATE = _dt.date


class SDate(RDATE, metaclass=_Meta):
    """datetime.date built from symbolic fields: carries the ordinal as a term (toordinal, weekday, isoweekday, comparisons,
    date - date); any other use concretises with a recorded pin."""
    _shadow_of = RDATE

    def __new__(cls, year, month=None, day=None):
        fields = (year, month, day)
        if isinstance(year, (bytes, str)) or not any(is_sym(f) for f in fields if isinstance(f, int)):
            args = tuple(_plain(f) for f in fields if f is not None)
            return RDATE(*args) if cls is SDate else RDATE.__new__(cls, *args)
        for f in fields:
            if not isinstance(f, int):
                raise TypeError(f"an integer is required (got type {type(f).__name__})")
        (y, m, d), (cy, cm, cd) = [tm(f) for f in fields], [iv(f) for f in fields]
        if branch(z3.Or(y < 1, y > 9999), not 1 <= cy <= 9999):
            raise ValueError(f"year {cy} is out of range")
        if branch(z3.Or(m < 1, m > 12), not 1 <= cm <= 12):
            raise ValueError("month must be in 1..12")
        if branch(z3.Or(d < 1, d > days_in_month(y, m)), not 1 <= cd <= _c_days_in_month(cy, cm)):
            raise ValueError("day is out of range for month")
        o = RDATE.__new__(cls, cy, cm, cd)
        o._ord = days_from_civil(y, m, d) + EPOCH_ORD
        o._ymd = (year, month, day)
        return o

    def _o(s):
        return getattr(s, "_ord", None)

    def toordinal(s):
        c = RDATE.toordinal(s)
        return c if s._o() is None else mk(SInt, s._o(), c)

    def weekday(s):
        c = RDATE.weekday(s)
        return c if s._o() is None else mk(SInt, (s._o() + 6) % 7, c)

    def isoweekday(s):
        c = RDATE.isoweekday(s)
        return c if s._o() is None else mk(SInt, (s._o() + 6) % 7 + 1, c)

    year = property(lambda s: s._ymd[0] if s._o() is not None else RDATE.year.__get__(s))
    month = property(lambda s: s._ymd[1] if s._o() is not None else RDATE.month.__get__(s))
    day = property(lambda s: s._ymd[2] if s._o() is not None else RDATE.day.__get__(s))

    def _pin(s, op):
        if s._o() is not None:
            for f in s._ymd:
                if is_sym(f):
                    pin(f, op)

    def _cmp(s, o, f, name):
        if s._o() is None or not isinstance(o, RDATE) or isinstance(o, RD):
            s._pin(f"date.{name}")
            return getattr(RDATE, name)(s, o)
        ot = o._o() if isinstance(o, SDate) and o._o() is not None else z3.IntVal(RDATE.toordinal(o))
        return SBool(f(s._o(), ot), getattr(RDATE, name)(s, o))

    def __eq__(s, o):
        return s._cmp(o, lambda a, b: a == b, "__eq__")

    def __ne__(s, o):
        return s._cmp(o, lambda a, b: a != b, "__ne__")

    def __lt__(s, o):
        return s._cmp(o, lambda a, b: a < b, "__lt__")

    def __le__(s, o):
        return s._cmp(o, lambda a, b: a <= b, "__le__")

    def __gt__(s, o):
        return s._cmp(o, lambda a, b: a > b, "__gt__")

    def __ge__(s, o):
        return s._cmp(o, lambda a, b: a >= b, "__ge__")

    def __hash__(s):
        s._pin("hash(date)")
        return RDATE.__hash__(s)

    def __sub__(s, o):
        if s._o() is not None and isinstance(o, RDATE) and not isinstance(o, RD):
            ot = o._o() if isinstance(o, SDate) and o._o() is not None else z3.IntVal(RDATE.toordinal(o))
            return make_timedelta(mk(SInt, (s._o() - ot) * DAY, (RDATE.toordinal(s) - RDATE.toordinal(o)) * DAY))
        s._pin("date.__sub__")
        return RDATE.__sub__(s, o)

    def __repr__(s):
        return RDATE.__repr__(s)

    def __reduce__(s):
        return (RDATE, (RDATE.year.__get__(s), RDATE.month.__get__(s), RDATE.day.__get__(s)))


for _n in ("strftime", "isoformat", "timetuple", "isocalendar", "replace", "ctime", "__add__", "__radd__", "__format__", "__str__"):
    def _mkp(name):
        def f(s, *a, **k):
            s._pin(f"date.{name}")
            return getattr(RDATE, name)(s, *a, **k)
        f.__name__ = name
        return f
    setattr(SDate, _n, _mkp(_n))


def _sdt_date(s):
    """datetime.date(): the wall-clock date, ordinal kept as a term"""
    if s._sym() is None:
        return RD.date(s)
    t = s._terms()
    o = RDATE.__new__(SDate, RD.year.__get__(s), RD.month.__get__(s), RD.day.__get__(s))
    o._ord = t["days"] + EPOCH_ORD
    o._ymd = (s.year, s.month, s.day)
    return o


SDatetime.date = _sdt_date


# ----------------------------------------------------------------------------- module stand-in
def fake_datetime_module():
    m = types.ModuleType("datetime")
    m.__dict__.update({k: v for k, v in _dt.__dict__.items() if not k.startswith("__")})
    m.datetime, m.timedelta, m.timezone, m.date = SDatetime, STimedelta, STimezone, SDate
    m.__file__ = getattr(_dt, "__file__", None)
    return m


FAKE = fake_datetime_module()


def install_fake_datetime():
    import pendulum  # noqa: F401  (must bind the real module before the swap)

    old = sys.modules["datetime"]
    sys.modules["datetime"] = FAKE
    return old


def uninstall_fake_datetime(old):
    sys.modules["datetime"] = old
